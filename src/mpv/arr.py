"""Masked-array cases: generation on the dyadic lattice, JSON (de)serialisation, digests,
stand-in producer commands and invocation of real commands through the documented API."""
import hashlib
from fractions import Fraction

import numpy

DTYPES_Q = ("int64", "float64")
DTYPES_T = ("int64", "float64", "int32", "int16", "float32")
DTYPES_U = ("uint8", "uint16", "uint32", "uint64")
LAYOUTS = ("F", "strided", "neg")     # memory layouts other than a fresh C-contiguous buffer
_SPECIAL = {"nan": float("nan"), "inf": float("inf"), "-inf": float("-inf")}


def is_int(dtype):
    return dtype.startswith("int") or dtype.startswith("uint")


def int_limits(dtype):
    ii = numpy.iinfo(dtype)
    lo, hi = int(ii.min), int(ii.max)
    if dtype in ("int64", "uint64"):
        lo, hi = max(lo, -(2 ** 62)), 2 ** 62
    return lo, hi


def _relayout(a, layout):
    """The same cells in another memory layout (Fortran order, a strided view of a larger buffer, a transposed view)."""
    if layout == "F":
        return numpy.asfortranarray(a)
    if layout == "strided":
        big = numpy.zeros(tuple(2 * n for n in a.shape), dtype=a.dtype)
        view = big[tuple(slice(None, None, 2) for _ in a.shape)]
        view[...] = a
        return view
    if layout == "neg":
        return numpy.ascontiguousarray(a[..., ::-1])[..., ::-1]       # negative stride along the last axis
    return a


# ---------------------------------------------------------------- (de)serialisation
def spec(shape, dtype, data, mask, kind="ma"):
    """kind: 'ma' (masked array, mask array or nomask when mask is None) | 'plain' (ndarray)."""
    return {"shape": list(shape), "dtype": dtype, "data": list(data), "mask": None if mask is None else [bool(m) for m in mask], "kind": kind}


def build(s):
    raw = [_SPECIAL[x] if isinstance(x, str) else x for x in s["data"]]     # "nan" / "inf" / "-inf" are spelled out in cases
    data = numpy.array(raw, dtype=s["dtype"]).reshape(s["shape"])
    layout = s.get("layout")
    if layout:
        data = _relayout(data, layout)
    if s.get("kind", "ma") == "plain":
        return data
    if s["mask"] is None:
        return numpy.ma.array(data, copy=False) if layout else numpy.ma.array(data)
    mask = numpy.array(s["mask"], dtype=bool).reshape(s["shape"])
    if layout:
        return numpy.ma.array(data, mask=_relayout(mask, layout), copy=False)
    out = numpy.ma.array(data, mask=mask)
    if s.get("hard"):
        out.harden_mask()       # missing cells that cannot be un-masked by assignment (numpy.ma's hard mask)
    return out


def to_spec(a):
    a_ = numpy.asarray(a) if not isinstance(a, numpy.ma.MaskedArray) else a
    if isinstance(a_, numpy.ma.MaskedArray):
        m = numpy.ma.getmaskarray(a_).ravel().tolist()
        return spec(a_.shape, str(a_.dtype), a_.data.ravel().tolist(), m if any(m) or a_.mask is not numpy.ma.nomask else None)
    return spec(a_.shape, str(a_.dtype), a_.ravel().tolist(), None, "plain")


def describe(a, limit=24):
    a = numpy.ma.asarray(a) if not isinstance(a, numpy.ndarray) else a
    m = numpy.ma.getmaskarray(a).ravel()
    d = numpy.ma.getdata(a).ravel()
    cells = [None if m[i] else (d[i].item() if hasattr(d[i], "item") else d[i]) for i in range(min(len(d), limit))]
    return {"type": type(a).__name__, "shape": list(a.shape), "dtype": str(a.dtype), "cells": [repr(c) if isinstance(c, float) and c != c else c for c in cells]}


def cells(a):
    """Flat list of python numbers, None where missing. Plain ndarrays have nothing missing."""
    m = numpy.ma.getmaskarray(a).ravel()
    d = numpy.ma.getdata(a).ravel()
    return [None if m[i] else d[i].item() for i in range(d.size)]


def frac_cells(a):
    return [None if c is None else Fraction(c) for c in cells(a)]


def digest(a):
    """Shape, dtype, mask bits and the bits of the unmasked values (payload under the mask excluded)."""
    if not isinstance(a, numpy.ndarray):
        return "non-array:" + repr(a)[:80]
    m = numpy.ma.getmaskarray(a)
    d = numpy.ma.getdata(a)
    h = hashlib.sha1()
    h.update(repr((type(a).__name__ == "MaskedArray", a.shape, str(a.dtype))).encode())
    h.update(numpy.ascontiguousarray(m).tobytes())
    vis = numpy.where(m, numpy.zeros((), dtype=d.dtype), d)
    h.update(numpy.ascontiguousarray(vis).tobytes())
    return h.hexdigest()


# ---------------------------------------------------------------- generation
def gen_shape(rng, max_cells=60, ranks=(1, 2, 3)):
    rank = rng.choice(ranks)
    while True:
        shape = tuple(rng.choice([1, 1, 2, 3, 4, 5, 7]) if rank > 1 else rng.choice([1, 2, 3, 5, 8, 13, 24]) for _ in range(rank))
        n = 1
        for e in shape:
            n *= e
        if n <= max_cells:
            return shape


def lattice_value(rng, fuzzy=False, integer=False):
    if fuzzy:
        return rng.randint(-8, 8) / 8.0
    if integer:
        return rng.choice([0, 0, 1, -1, 2, 3, -3, 5, 7, -7, 12, 40, -64, 64, rng.randint(-64, 64)])
    return rng.choice([0.0, 0.0, 1.0, -1.0, 0.125, -0.125, 0.5, 2.5, -2.5, 7.75, 64.0, -64.0, rng.randint(-512, 512) / 8.0])


PAYLOADS = (0, 1e30, -1e30, -9999, 9999, 5e17, 1.7976931348623157e308, -1.7976931348623157e308)


def gen_mask(rng, n, style=None):
    style = style or rng.choice(["none", "nomask", "allfalse", "random", "random", "random", "one", "allbutone", "all"])
    if style in ("none", "nomask"):
        return None
    if style == "allfalse":
        return [False] * n
    if style == "random":
        p = rng.choice([0.1, 0.3, 0.6])
        return [rng.random() < p for _ in range(n)]
    if style == "one":
        m = [False] * n
        m[rng.randrange(n)] = True
        return m
    if style == "allbutone":
        m = [True] * n
        m[rng.randrange(n)] = False
        return m
    return [True] * n


def gen_array(rng, shape, dtype="float64", fuzzy=False, mask_style=None, payload=None, distinct2=False, layout=None):
    n = 1
    for e in shape:
        n *= e
    integer = is_int(dtype)
    data = [lattice_value(rng, fuzzy=fuzzy, integer=integer) for _ in range(n)]
    if dtype.startswith("uint"):
        data = [abs(v) for v in data]
    mask = gen_mask(rng, n, mask_style)
    if distinct2:
        # guarantee at least two distinct valid values where the cell count allows it
        valid = [i for i in range(n) if not (mask and mask[i])]
        if len(valid) < 2 and n >= 2:
            mask = None
            valid = list(range(n))
        if len(valid) >= 2 and len(set(data[i] for i in valid)) < 2:
            data[valid[0]] = (data[valid[1]] + (1 if integer else 1.5)) if not fuzzy else (-data[valid[1]] if data[valid[1]] != 0 else 0.5)
    if mask and payload is not None:
        for i in range(n):
            if mask[i]:
                p = payload if not isinstance(payload, (list, tuple)) else payload[i % len(payload)]
                data[i] = _payload(p, dtype)
    out = spec(shape, dtype, data, mask)
    if layout:
        out["layout"] = layout
    return out


def _payload(p, dtype):
    """The number to hide under a masked cell, made representable in dtype ("nan" stays spelled out for float types)."""
    if isinstance(p, str):
        return 0 if is_int(dtype) else p
    if is_int(dtype):
        lo, hi = int_limits(dtype)
        return int(max(min(p, hi), lo))
    if dtype == "float32":
        return float(max(min(p, 3e38), -3e38))
    return float(p)


def with_payload(s, payload):
    """Same array, different numbers hidden under the masked cells."""
    if s["mask"] is None:
        return s
    out = dict(s)
    data = list(s["data"])
    for i, m in enumerate(s["mask"]):
        if m:
            data[i] = _payload(payload, s["dtype"])
    out["data"] = data
    return out


# ---------------------------------------------------------------- invoking real commands
CSV_LIBS = ("mpilot.libraries.eems.basic", "mpilot.libraries.eems.csv", "mpilot.libraries.eems.fuzzy")
NC_LIBS = ("mpilot.libraries.eems.basic", "mpilot.libraries.eems.netcdf", "mpilot.libraries.eems.fuzzy")


def new_program(libs=CSV_LIBS, working_dir=None):
    from mpilot.program import Program
    return Program(libraries=libs, working_dir=working_dir)


def standin(program, name, array, fuzzy=False):
    """A finished producer, exactly as the repository's own tests build them (tests/utils.py)."""
    from mpilot.commands import Command
    c = Command(name, [], program=program)
    if fuzzy:
        c.is_fuzzy = True
    c.is_finished = True
    c._result = array
    program.commands[name] = c
    return c


class Outcome(object):
    def __init__(self, value=None, exc=None):
        self.value, self.exc = value, exc

    @property
    def ok(self):
        return self.exc is None

    @property
    def err(self):
        return None if self.exc is None else type(self.exc).__name__

    def inner(self):
        """Class name of the wrapped exception for UnexpectedError."""
        e = getattr(self.exc, "exc", None)
        return type(e).__name__ if e is not None else None


def invoke(program, cls_name, result_name, args, via_run=False):
    """add_command + read .result : the documented API path (validate_params -> clean -> execute). via_run: the whole program
    is run first (Program.run, as the command-line tool does), then the result is read."""
    cls = program.find_command_class(cls_name)
    if cls is None:
        from mpv.core import HarnessProblem
        raise HarnessProblem("command %s not in library" % cls_name)
    try:
        program.add_command(cls, result_name, dict(args))
        if via_run:
            program.run()
        return Outcome(value=program.commands[result_name].result)
    except Exception as e:  # judged by the caller
        return Outcome(exc=e)


STANDIN_NAMES = ["In0", "in0", "IN0", "In3", "in3"]
_calls = {"n": 0}
_shared_lists = {}       # one list object per sequence of field names, handed to every program of the process that lists them


def run_direct(cls_name, inputs, params, fuzzy_inputs=False, libs=CSV_LIBS, seq=None):
    """The way the repository's own tests drive a command: an argument-less instance and execute(**kwargs) with stand-in
    producers and the caller's own parameter objects (nothing is cleaned or copied on the way)."""
    program = new_program(libs)
    cls = program.find_command_class(cls_name)
    prods = [standin(program, STANDIN_NAMES[i] if i < len(STANDIN_NAMES) else "In%d" % i, a, fuzzy=fuzzy_inputs) for i, a in enumerate(inputs)]
    kwargs = dict(params)
    shape = INPUT_STYLE.get(cls_name, "list")
    if shape == "one":
        kwargs["InFieldName"] = prods[0]
    elif shape == "ab":
        kwargs["A"], kwargs["B"] = prods[0], prods[1]
    else:
        # seq: the fields as a tuple, an iterator or a generator (any iterable a caller may have at hand)
        kwargs["InFieldNames"] = prods if seq is None else tuple(prods) if seq == "tuple" else iter(prods) if seq == "iter" else (p_ for p_ in prods)
    try:
        return Outcome(value=cls("Res").execute(**kwargs)), program
    except Exception as e:
        return Outcome(exc=e), program


def run_cmd(cls_name, inputs, params, fuzzy_inputs=False, libs=CSV_LIBS, program=None, list_param=None, refs=None, objects=None):
    """inputs: list of arrays (already built). Single-input commands take InFieldName, A/B commands
    take A and B, list commands take InFieldNames. Returns (Outcome, program, producers)."""
    own_program = program is None
    program = program or new_program(libs)
    names = []
    _calls["n"] += 1
    # objects: "own" / "lone" - callers that opt in get a quarter of their calls in object mode
    as_objects = objects is not None and own_program and refs is None and _calls["n"] % 4 == 1
    objs = []
    for i, a in enumerate(inputs):
        # producer names that differ only in letter case are distinct results
        nm = STANDIN_NAMES[i] if i < len(STANDIN_NAMES) else "In%d" % i
        if as_objects:
            # the fields are handed over as command objects (finished, not registered in the program), while the program holds
            # other fields under the very same names: the objects given are the inputs
            import numpy
            from mpilot.commands import Command
            standin(program, nm, numpy.ma.array(numpy.zeros_like(numpy.ma.getdata(a))), fuzzy=fuzzy_inputs)
            c = Command(nm, [], program=program if objects == "own" or _calls["n"] % 8 == 1 else None)
            c.is_finished, c._result = True, a
            if fuzzy_inputs:
                c.is_fuzzy = True
            objs.append(c)
        else:
            standin(program, nm, a, fuzzy=fuzzy_inputs)
        names.append(nm)
    if as_objects:
        names = objs
        program._mpv_object_mode = True
    if refs is not None:
        names = [names[i] for i in refs]     # the same producer listed several times
    args = dict(params)
    shape = INPUT_STYLE.get(cls_name, "list")
    if shape == "one":
        args["InFieldName"] = names[0]
    elif shape == "ab":
        args["A"], args["B"] = names[0], names[1]
    else:
        args[list_param or "InFieldNames"] = list(names) if as_objects else _shared_lists.setdefault(tuple(names), list(names))
    if _calls["n"] % 2:
        args = dict(reversed(list(args.items())))      # the order in which arguments are written does not matter
    out = invoke(program, cls_name, "Res", args, via_run=_calls["n"] % 3 == 0)
    return out, program


INPUT_STYLE = {
    "Copy": "one", "AMinusB": "ab", "ADividedByB": "ab", "Normalize": "one", "NormalizeZScore": "one",
    "NormalizeCat": "one", "NormalizeCurve": "one", "NormalizeMeanToMid": "one", "NormalizeCurveZScore": "one",
    "CvtToFuzzy": "one", "CvtToFuzzyZScore": "one", "CvtToFuzzyCat": "one", "CvtToFuzzyCurve": "one",
    "CvtToFuzzyMeanToMid": "one", "CvtToFuzzyCurveZScore": "one", "CvtToBinary": "one", "FuzzyNot": "one",
    "CvtFromFuzzy": "one",
    "Sum": "list", "WeightedSum": "list", "Multiply": "list", "Minimum": "list", "Maximum": "list", "Mean": "list",
    "WeightedMean": "list", "FuzzyUnion": "list", "FuzzyWeightedUnion": "list", "FuzzySelectedUnion": "list",
    "FuzzyOr": "list", "FuzzyAnd": "list", "FuzzyXOr": "list",
}
FUZZY_INPUT = {"FuzzyUnion", "FuzzyWeightedUnion", "FuzzySelectedUnion", "FuzzyOr", "FuzzyAnd", "FuzzyXOr", "FuzzyNot", "CvtFromFuzzy"}
FUZZY_OUTPUT = {"CvtToFuzzy", "CvtToFuzzyZScore", "CvtToFuzzyCat", "CvtToFuzzyCurve", "CvtToFuzzyMeanToMid",
                "CvtToFuzzyCurveZScore", "CvtToBinary", "FuzzyUnion", "FuzzyWeightedUnion", "FuzzySelectedUnion",
                "FuzzyOr", "FuzzyAnd", "FuzzyXOr", "FuzzyNot"}


def discover(libs=CSV_LIBS):
    """Data commands of the built-in libraries, classified from their declarations at run time."""
    from mpilot import params as P
    prog = new_program(libs)
    out = {}
    for name, cls in prog.command_library.items():
        is_data = isinstance(getattr(cls, "output", None), P.DataParameter)
        res_inputs = []
        for pname, p in cls.inputs.items():
            if isinstance(p, P.ResultParameter):
                res_inputs.append((pname, "one", p.is_fuzzy))
            elif isinstance(p, P.ListParameter) and isinstance(p.value_type, P.ResultParameter):
                res_inputs.append((pname, "list", p.value_type.is_fuzzy))
        out[name] = {"cls": cls, "is_data": is_data, "is_fuzzy": bool(getattr(cls, "is_fuzzy", False)),
                     "result_inputs": res_inputs, "module": cls.__module__}
    return out
