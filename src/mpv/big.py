"""Rasters of more than a million cells for the element-wise commands (size-dependent code paths: block-wise processing,
temporary-saving shortcuts), generated from a seed inside the worker and judged vectorised."""
import numpy

from mpv import arr

SHAPES = [(1100, 1000), (2 ** 20 + 1,), (3, 700, 500), (2 ** 21,), (1500, 1400), (2 ** 20 + 2 ** 19,), (1025, 1024), (2, 2 ** 19 + 3)]

# element-wise commands (every result cell depends on the same cell of the inputs and on the parameters only)
ELEMENTWISE = {
    "Copy": {}, "AMinusB": {}, "ADividedByB": {}, "Sum": {}, "Multiply": {}, "Minimum": {}, "Maximum": {}, "Mean": {},
    "WeightedSum": {"Weights": [2, 0.5, 3]}, "WeightedMean": {"Weights": [1, 4, 0.25]},
    "CvtToFuzzy": {"TrueThreshold": 250.5, "FalseThreshold": -100}, "CvtToBinary": {"Threshold": 12.5, "Direction": "HighToLow"},
    "CvtToFuzzyCat": {"RawValues": [0, 1, 2, 3], "FuzzyValues": [-1, 0.5, 1, -0.25], "DefaultFuzzyValue": 0},
    "NormalizeCat": {"RawValues": [0, 1, 2, 3], "NormalValues": [-5, 0.5, 100, -1.5], "DefaultNormalValue": 9},
    "CvtToFuzzyCurve": {"RawValues": [-500, 0, 400], "FuzzyValues": [-1, 0.5, 1]}, "NormalizeCurve": {"RawValues": [-500, 0, 400], "NormalValues": [-7, 3.5, 12]},
    "FuzzyNot": {}, "CvtFromFuzzy": {"TrueThreshold": 100, "FalseThreshold": 20}, "FuzzyOr": {}, "FuzzyAnd": {}, "FuzzyUnion": {}, "FuzzyXOr": {},
    "FuzzyWeightedUnion": {"Weights": [3, 1, 0.5]}, "FuzzySelectedUnion": {"TruestOrFalsest": "Truest", "NumberToConsider": 2},
}
NAMES = sorted(ELEMENTWISE)


def n_inputs(cmd):
    style = arr.INPUT_STYLE[cmd]
    return 1 if style == "one" else 2 if style == "ab" else 3


def gen_inputs(cmd, shape, seed, masked=True):
    rs = numpy.random.RandomState(seed % (2 ** 31))
    fuzzy_in = cmd in arr.FUZZY_INPUT
    out = []
    for k in range(n_inputs(cmd)):
        if fuzzy_in:
            data = numpy.round(rs.uniform(-1.0, 1.0, size=shape) * 64) / 64.0
        elif "Cat" in cmd:
            data = rs.randint(0, 6, size=shape).astype("float64")
        else:
            data = numpy.round(rs.uniform(-1000.0, 1000.0, size=shape) * 8) / 8.0        # the dyadic lattice: sums are exact
            if cmd == "ADividedByB" and k == 1:
                data[rs.uniform(size=shape) < 0.05] = 0.0
        out.append(numpy.ma.array(data, mask=(rs.uniform(size=shape) < 0.1)) if masked else numpy.ma.array(data))
    return out


def windows(n, seed, width=1500, count=4):
    """Flat index windows of a raster of n cells: the head, the tail and random places (also across the 2^20 boundary)."""
    rs = numpy.random.RandomState((seed + 1) % (2 ** 31))
    starts = [0, max(0, n - width), max(0, min(n - width, 2 ** 20 - width // 2))]
    starts += [int(rs.randint(0, max(1, n - width))) for _ in range(count)]
    return [(s, min(n, s + width)) for s in starts]
