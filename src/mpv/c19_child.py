"""Child process of the C19 check: executes one history of library / program / class-definition steps and then the probe
construction; prints one JSON line describing Program.command_library as seen by the probe."""
import json
import os
import sys

LIBS = {
    "ulib.py": '''
from mpilot import params
from mpilot.commands import Command
class Alpha(Command):
    output = params.StringParameter()
    def execute(self, **kw): return "ulib.Alpha"
class Shared(Command):
    output = params.StringParameter()
    def execute(self, **kw): return "ulib.Shared"
class AlphaTwo(Alpha):
    """A variant of a command of the same library: only class attributes differ, execute() is inherited."""
    display_name = "Alpha, second flavour"
''',
    "fuzzy.py": '''
from mpilot import params
from mpilot.commands import Command
class UserFuzz(Command):
    """A user's own top-level module that happens to be called like the last part of a built-in library's name."""
    output = params.StringParameter()
    def execute(self, **kw):
        open("cover_by.txt", "a").write("fuzzy.UserFuzz\\n")
        return "fuzzy.UserFuzz"
''',
    "canopy.py": '''
from mpilot import params
from mpilot.commands import Command
class Cover(Command):
    output = params.StringParameter()
    def execute(self, **kw):
        open("cover_by.txt", "a").write("canopy.Cover\\n")
        return "canopy.Cover"
''',
    "cano.py": '''
from mpilot import params
from mpilot.commands import Command
class Cover(Command):
    output = params.StringParameter()
    def execute(self, **kw):
        open("cover_by.txt", "a").write("cano.Cover\\n")
        return "cano.Cover"
''',
    "ulib_extra.py": '''
from mpilot import params
from mpilot.commands import Command
class Beta(Command):
    output = params.StringParameter()
    def execute(self, **kw): return "ulib_extra.Beta"
class Shared(Command):
    output = params.StringParameter()
    def execute(self, **kw): return "ulib_extra.Shared"
''',
    "ulibx.py": '''
from mpilot import params
from mpilot.commands import Command
class Gamma(Command):
    output = params.StringParameter()
    def execute(self, **kw): return "ulibx.Gamma"
class Alpha(Command):
    output = params.StringParameter()
    def execute(self, **kw): return "ulibx.Alpha"
''',
    "other.py": '''
from mpilot import params
from mpilot.commands import Command
class Delta(Command):
    output = params.StringParameter()
    def execute(self, **kw): return "other.Delta"
class Not(Command):
    """A user command whose name differs from an EEMS 2.0 name (NOT) in case only."""
    output = params.StringParameter()
    def execute(self, **kw): return "other.Not"
class Max(Command):
    output = params.StringParameter()
    def execute(self, **kw): return "other.Max"
''',
    "upkg/__init__.py": '''
from mpilot import params
from mpilot.commands import Command
class PkgTop(Command):
    output = params.StringParameter()
    def execute(self, **kw): return "upkg.PkgTop"
''',
    "usub.py": '''
from mpilot.libraries.eems.basic import Sum as BuiltinSum
class Sum(BuiltinSum):
    """A library that extends a built-in command under the same name."""
    inputs = dict(BuiltinSum.inputs)
    output = BuiltinSum.output
    def execute(self, **kw): return "usub.Sum"
''',
    "updup/c.py": '''
from updup.a import Shared as SharedA
class Shared(SharedA):
    def execute(self, **kw): return "updup.c.Shared"
''',
    "upkg/_legacy.py": '''
from mpilot import params
from mpilot.commands import Command
class Legacy(Command):
    """A command in a module of the package whose name starts with an underscore."""
    output = params.StringParameter()
    def execute(self, **kw): return "upkg._legacy.Legacy"
''',
    "ukw.py": '''
from mpilot import params
from mpilot.commands import Command
class MEAN(Command):
    """A user command named like an EEMS 2.0 keyword."""
    output = params.StringParameter()
    def execute(self, **kw): return "ukw.MEAN"
class AND(Command):
    output = params.StringParameter()
    def execute(self, **kw): return "ukw.AND"
''',
    "umeta.py": '''
from abc import ABCMeta
from mpilot import params
from mpilot.commands import Command
class PluginMeta(type(Command), ABCMeta):
    """Commands combined with abstract base classes need a metaclass derived from the command metaclass."""
class Meta1(Command, metaclass=PluginMeta):
    output = params.StringParameter()
    def execute(self, **kw): return "umeta.Meta1"
class Plain1(Command):
    output = params.StringParameter()
    def execute(self, **kw): return "umeta.Plain1"
class Meta2(Meta1):
    def execute(self, **kw): return "umeta.Meta2"
''',
    "upkg/one.py": '''
from mpilot import params
from mpilot.commands import Command
class PkgOne(Command):
    output = params.StringParameter()
    def execute(self, **kw): return "upkg.one.PkgOne"
''',
    "upkg/named.py": '''
from mpilot import params
from mpilot.commands import Command
class ScaleImpl(Command):
    name = "Scale"
    output = params.StringParameter()
    def execute(self, **kw): return "upkg.named.Scale"
''',
    "upkg/two.py": '''
from mpilot import params
from mpilot.commands import Command
class PkgTwo(Command):
    output = params.StringParameter()
    def execute(self, **kw): return "upkg.two.PkgTwo"
''',
    "upkg_one.py": '''
from mpilot import params
from mpilot.commands import Command
class Underscore(Command):
    output = params.StringParameter()
    def execute(self, **kw): return "upkg_one.Underscore"
class PkgOne(Command):
    output = params.StringParameter()
    def execute(self, **kw): return "upkg_one.PkgOne"
''',
    "upkgzone.py": '''
from mpilot import params
from mpilot.commands import Command
class Zed(Command):
    output = params.StringParameter()
    def execute(self, **kw): return "upkgzone.Zed"
''',
    "updup/__init__.py": "",
    "updup/a.py": '''
from mpilot import params
from mpilot.commands import Command
class Shared(Command):
    output = params.StringParameter()
    def execute(self, **kw): return "updup.a.Shared"
class OnlyA(Command):
    output = params.StringParameter()
    def execute(self, **kw): return "updup.a.OnlyA"
''',
    "updup/b.py": '''
from mpilot import params
from mpilot.commands import Command
class Shared(Command):
    output = params.StringParameter()
    def execute(self, **kw): return "updup.b.Shared"
''',
    # a library that is importable only from inside the sub-directory wd/ (never on sys.path)
    "wd/wdlib.py": '''
from mpilot import params
from mpilot.commands import Command
class WdOnly(Command):
    output = params.StringParameter()
    def execute(self, **kw): return "wd.wdlib.WdOnly"
''',
    "upkg_more/__init__.py": "",
    "upkg_more/three.py": '''
from mpilot import params
from mpilot.commands import Command
class PkgThree(Command):
    output = params.StringParameter()
    def execute(self, **kw): return "upkg_more.three.PkgThree"
class PkgOne(Command):
    output = params.StringParameter()
    def execute(self, **kw): return "upkg_more.three.PkgOne"
''',
}


def describe(libs):
    from mpilot.program import Program
    from mpilot.exceptions import MPilotError
    try:
        p = Program(libraries=tuple(libs))
    except MPilotError as e:
        msg = str(e)
        dup = sorted(x.strip() for x in msg.split(":")[-1].split(",")) if "duplicated" in msg else None
        return {"outcome": "MPilotError", "duplicates": dup}
    except Exception as e:
        return {"outcome": type(e).__name__, "message": str(e)[:200]}
    lib = {}
    for name, cls in sorted(p.command_library.items()):
        entry = {"module": cls.__module__}
        if cls.__module__.split(".")[0] in ("ulib", "ulib_extra", "ulibx", "other", "upkg", "upkg_more", "upkg_one", "upkgzone", "updup", "__main__", "usub", "umeta", "ukw"):
            try:
                p.add_command(cls, "probe_" + name, {})
                entry["behaviour"] = p.commands["probe_" + name].result
            except Exception as e:
                entry["behaviour"] = "raises " + type(e).__name__
        lib[name] = entry
    # names reachable through a command file: a built-in name in MPilot form and in EEMS 2.0 form must resolve (or not)
    # exactly as the selected libraries say
    lookups = {}
    for form, text in (("mpilot", "S = Sum(InFieldNames = [Q])"), ("eems2", "SUM(InFieldNames = [Q], NewFieldName = S)"), ("eems2-not", "NOT(InFieldName = Q, NewFieldName = S)"), ("eems2-mean", "MEAN(InFieldNames = [Q], NewFieldName = S)")):
        try:
            Program.from_source(text, libraries=tuple(libs))
            lookups[form] = "loaded"
        except MPilotError as e:
            lookups[form] = type(e).__name__
        except Exception as e:
            lookups[form] = "raw:" + type(e).__name__
    # a user command named like an EEMS 2.0 command except for case, used from a 2.0-style file: which class it resolves to
    for form, text in (("eems2-user-Not", "Not(NewFieldName = S)"), ("eems2-user-Max", "Max(NewFieldName = S)\nMax(NewFieldName = T)")):
        try:
            q = Program.from_source(text, libraries=tuple(libs))
            c = q.commands["S"]
            lookups[form] = "loaded:%s.%s" % (type(c).__module__, type(c).__name__)
        except MPilotError as e:
            lookups[form] = "%s:%s" % (type(e).__name__, getattr(e, "name", None))
        except Exception as e:
            lookups[form] = "raw:" + type(e).__name__
    # misspelt names: the whole message a user gets (it may only speak about what this program can use)
    for typo in ("Alpa", "Delt", "Gama", "EEMSReed", "PkgOn", "Summ", "Shard"):
        try:
            Program.from_source("S = %s()" % typo, libraries=tuple(libs))
            lookups["typo-" + typo] = "loaded"
        except MPilotError as e:
            lookups["typo-" + typo] = "%s:%s:%s" % (type(e).__name__, sorted((k, repr(v)) for k, v in vars(e).items()), str(e))
        except Exception as e:
            lookups["typo-" + typo] = "raw:" + type(e).__name__
    # command classes handed to add_command as a caller gets them from an ordinary import of a requested library
    for form, modname, clsname, args in (("api-ulib-Alpha", "ulib", "Alpha", {}), ("api-csv-EEMSRead", "mpilot.libraries.eems.csv.io", "EEMSRead", {"InFileName": __file__, "InFieldName": "x"}),
                                         ("api-basic-Sum", "mpilot.libraries.eems.basic", "Sum", {"InFieldNames": []})):
        if not any(modname == l or modname.startswith(l + ".") for l in libs):
            continue
        try:
            import importlib
            cls = getattr(importlib.import_module(modname), clsname)
            q = Program(libraries=tuple(libs))
            q.add_command(cls, "viaapi", dict(args))
            lookups[form] = "added:%s" % type(q.commands["viaapi"]).__module__
        except MPilotError as e:
            lookups[form] = "%s" % type(e).__name__
        except Exception as e:
            lookups[form] = "raw:" + type(e).__name__
    # the libraries handed over as a list that the caller goes on using for another program
    try:
        shared = list(libs)
        first = Program(libraries=shared)
        before = sorted(first.command_library)
        shared.append("other" if "other" not in libs else "ulibx")
        try:
            Program(libraries=shared)
        except MPilotError:
            pass
        miss = first.find_command_class("Delta" if "other" not in libs else "Gamma")
        after = sorted(first.command_library)
        lookups["libraries-list-extended-later"] = "unchanged" if before == after and miss is None else "changed:%s:%s" % (sorted(set(after) - set(before))[:3], getattr(miss, "__module__", None))
    except MPilotError as e:
        lookups["libraries-list-extended-later"] = "raises:" + type(e).__name__
    except Exception as e:
        lookups["libraries-list-extended-later"] = "raw:" + type(e).__name__
    # commands defined in the main module of the process are the library "__main__"
    try:
        mainlib = Program(libraries=("__main__",)).command_library
        lookups["main-module-library"] = "has-MainCmd" if "MainCmd" in mainlib else "lacks-MainCmd"
    except Exception as e:
        lookups["main-module-library"] = "raises:" + type(e).__name__
    return {"outcome": "ok", "library": lib, "lookups": lookups}


def cli_run(d, libset, extra, model=None):
    """One run of the command-line tool on a small model; returns [exit code, first line of stderr]."""
    from click.testing import CliRunner
    from mpilot.cli.mpilot import main
    path = os.path.join(d, "cli_model.mpt" if model is None else "cli_model2.mpt")
    if model is not None:
        with open(path, "w") as f:
            f.write(model)
    elif not os.path.exists(path):
        with open(os.path.join(d, "cli_t.csv"), "w") as f:
            f.write("x\n1\n2\n")
        with open(path, "w") as f:
            f.write('A = EEMSRead(InFileName = "cli_t.csv", InFieldName = x)\nS = Sum(InFieldNames = [A])\n')
    args = [libset, path]
    for lib in extra:
        args += ["-l", lib]
    try:
        res = CliRunner(mix_stderr=False).invoke(main, args)
    except TypeError:
        res = CliRunner().invoke(main, args)
    try:
        err = res.stderr
    except Exception:
        err = res.output
    return [res.exit_code, (err.strip().splitlines() or [""])[0][:120], type(res.exception).__name__ if res.exception is not None and not isinstance(res.exception, SystemExit) else None]


def main():
    spec = json.loads(sys.argv[1])
    d = spec["dir"]
    for rel, src in LIBS.items():
        path = os.path.join(d, rel)
        os.makedirs(os.path.dirname(path), exist_ok=True)
        with open(path, "w") as f:
            f.write(src)
    sys.path.insert(0, d)
    # a command defined in the main module of this process (started with python -m: the module has an import spec)
    from mpilot.commands import Command as _C
    from mpilot import params as _P
    type(_C)("MainCmd", (_C,), {"__module__": "__main__", "output": _P.StringParameter(), "execute": lambda self, **kw: "main.MainCmd"})
    steps_seen = []
    for step in spec["history"]:
        kind = step[0]
        try:
            if kind == "program":
                from mpilot.program import Program
                Program(libraries=tuple(step[1]))
            elif kind == "program-wd":
                # a program whose working directory happens to hold a module named like the requested library
                from mpilot.program import Program
                Program(libraries=tuple(step[1]), working_dir=os.path.join(d, "wd"))
            elif kind == "cli":
                cli_run(d, step[1], step[2])
            elif kind == "import":
                __import__(step[1])
            elif kind == "define":
                from mpilot.commands import Command
                from mpilot import params
                ns = {"__module__": step[2] if len(step) > 2 else "__main__", "output": params.StringParameter(), "execute": lambda self, **kw: "defined-in-history"}
                type(Command)(step[1], (Command,), ns)
            elif kind == "getcmds":
                # some earlier code narrows down the collection it got from the public Command.get_commands()
                from mpilot.commands import Command
                got_ = Command.get_commands()
                for meth in ("clear",):
                    if hasattr(got_, meth):
                        getattr(got_, meth)()
            elif kind == "run":
                from mpilot.program import Program
                p = Program.from_source(step[2], libraries=tuple(step[1]))
                p.run()
            steps_seen.append([kind, "ok"])
        except Exception as e:
            steps_seen.append([kind, type(e).__name__])
    out = describe(spec["probe"])
    # the command-line tool afterwards, with no extra libraries: what it does depends on its own arguments only
    out["cli"] = {"eems-csv": cli_run(d, "eems-csv", []), "eems-netcdf-with-other": cli_run(d, "eems-csv", ["other"])}
    # a library named on the command line is the library that is used (names ending in p / y / . among them)
    cwd = os.getcwd()
    os.chdir(d)
    try:
        if os.path.exists("cover_by.txt"):
            os.remove("cover_by.txt")
        r = cli_run(d, "eems-csv", ["canopy"], model="C = Cover()\n")
        out["cli"]["-l canopy"] = r + [open("cover_by.txt").read().split() if os.path.exists("cover_by.txt") else None]
        if os.path.exists("cover_by.txt"):
            os.remove("cover_by.txt")
        r = cli_run(d, "eems-csv", ["fuzzy"], model="U = UserFuzz()\n")
        out["cli"]["-l fuzzy (a user module)"] = r + [open("cover_by.txt").read().split() if os.path.exists("cover_by.txt") else None]
    finally:
        os.chdir(cwd)
    out["steps"] = steps_seen
    print("C19RESULT " + json.dumps(out, sort_keys=True))


if __name__ == "__main__":
    main()
