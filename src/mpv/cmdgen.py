"""Generation of (command, inputs, parameters) cases for the built-in data commands (W-ARRAY)."""
from mpv import arr

ONE_INPUT_NONFUZZY = ("Copy", "Normalize", "NormalizeZScore", "NormalizeCat", "NormalizeCurve", "NormalizeMeanToMid",
                      "NormalizeCurveZScore", "CvtToFuzzy", "CvtToFuzzyZScore", "CvtToFuzzyCat", "CvtToFuzzyCurve",
                      "CvtToFuzzyMeanToMid", "CvtToFuzzyCurveZScore", "CvtToBinary")
ONE_INPUT_FUZZY = ("FuzzyNot", "CvtFromFuzzy")
AB = ("AMinusB", "ADividedByB")
LIST_NONFUZZY = ("Sum", "WeightedSum", "Multiply", "Minimum", "Maximum", "Mean", "WeightedMean")
LIST_FUZZY = ("FuzzyUnion", "FuzzyWeightedUnion", "FuzzySelectedUnion", "FuzzyOr", "FuzzyAnd", "FuzzyXOr")
ALL = ONE_INPUT_NONFUZZY + ONE_INPUT_FUZZY + AB + LIST_NONFUZZY + LIST_FUZZY

# statistics over the whole array (permutation invariance holds only up to float summation order)
ZSCORE = ("NormalizeZScore", "CvtToFuzzyZScore", "NormalizeCurveZScore", "CvtToFuzzyCurveZScore")
STATS = ("Normalize", "NormalizeMeanToMid", "CvtToFuzzyMeanToMid", "CvtToFuzzy") + ZSCORE


def n_inputs(rng, cmd, max_n=5):
    if cmd in ONE_INPUT_NONFUZZY or cmd in ONE_INPUT_FUZZY:
        return 1
    if cmd in AB:
        return 2
    if cmd == "FuzzyXOr":
        return rng.choice([2, 2, 3, 4, 5][:max(1, max_n - 1)])
    return rng.choice([1, 2, 2, 3, 3, 4, 5][:max(1, min(7, max_n + 2))]) if max_n >= 5 else rng.randint(1, max_n)


def lat(rng, lo=-64, hi=64):
    return rng.randint(lo * 8, hi * 8) / 8.0


def num(rng, lo=-64, hi=64):
    """int or dyadic float parameter"""
    return rng.randint(lo, hi) if rng.random() < 0.5 else lat(rng, lo, hi)


def distinct_nums(rng, k, lo=-64, hi=64):
    out = []
    while len(out) < k:
        v = num(rng, lo, hi)
        if all(float(v) != float(o) for o in out):
            out.append(v)
    return out


def gen_params(rng, cmd, n, data_values=None, hostile=False):
    """Admissible parameters. hostile: thresholds / values far outside the fuzzy range (C04)."""
    big = (lambda: rng.choice([1e6, -1e6, 1e-9, 3.5, -7, 1e3, num(rng)])) if hostile else (lambda: num(rng))
    wide = rng.random() < 0.3
    fz = ((lambda: rng.randint(-40, 40) / 8.0) if wide else (lambda: rng.randint(-8, 8) / 8.0)) if not hostile else big
    dv = data_values or [0.0, 1.0]
    pick = lambda: rng.choice(dv) if rng.random() < 0.5 else num(rng)
    p = {}
    if cmd in ("WeightedSum", "WeightedMean", "FuzzyWeightedUnion"):
        style = rng.choice(["posint", "dyadic", "mixed", "onezero", "equal"])
        if style == "posint":
            w = [rng.randint(1, 9) for _ in range(n)]
        elif style == "dyadic":
            w = [rng.randint(1, 32) / 8.0 for _ in range(n)]
        elif style == "mixed":
            w = [rng.randint(1, 9) if rng.random() < 0.5 else rng.randint(1, 32) / 8.0 for _ in range(n)]
        elif style == "equal":
            w = [rng.choice([1, 2, 0.5])] * n
        else:
            w = [rng.randint(1, 9) for _ in range(n)]
            if n > 1:
                w[rng.randrange(n)] = 0
        if hostile:
            w = [rng.choice([1e6, 1e-6, 3, 0.125, 1e12]) for _ in range(n)]
        p["Weights"] = w
    elif cmd == "FuzzySelectedUnion":
        p["TruestOrFalsest"] = rng.choice(["Truest", "Falsest"])
        p["NumberToConsider"] = rng.randint(1, n)
    elif cmd in ("Normalize",):
        if rng.random() < 0.6:
            s, e = distinct_nums(rng, 2)
            p["StartVal"], p["EndVal"] = s, e
    elif cmd in ("NormalizeZScore", "CvtToFuzzyZScore"):
        tt, ft = distinct_nums(rng, 2, -3, 3)
        if hostile:
            tt, ft = rng.choice([(10, -10), (1e-6, -1e-6), (-10, 10), (3, 2.999)])
        p["TrueThresholdZScore"], p["FalseThresholdZScore"] = tt, ft
        if cmd == "CvtToFuzzyZScore" and not hostile:
            # documented defaults (+1 / -1): omit one or both thresholds in a third of the cases
            r = rng.random()
            if r < 0.15:
                del p["TrueThresholdZScore"]
            elif r < 0.3:
                del p["FalseThresholdZScore"]
            elif r < 0.45:
                p.pop("TrueThresholdZScore")
                p.pop("FalseThresholdZScore")
        if cmd == "NormalizeZScore" and rng.random() < 0.6:
            s, e = sorted(distinct_nums(rng, 2))
            p["StartVal"], p["EndVal"] = s, e
    elif cmd in ("NormalizeCat", "CvtToFuzzyCat"):
        k = rng.randint(1, 5)
        raws = []
        while len(raws) < k:
            v = pick()
            if all(float(v) != float(o) for o in raws):
                raws.append(v)
        vals = [fz() if cmd == "CvtToFuzzyCat" else big() for _ in range(k)]
        p["RawValues"] = raws
        p["FuzzyValues" if cmd == "CvtToFuzzyCat" else "NormalValues"] = vals
        p["DefaultFuzzyValue" if cmd == "CvtToFuzzyCat" else "DefaultNormalValue"] = fz() if cmd == "CvtToFuzzyCat" else big()
    elif cmd in ("NormalizeCurve", "CvtToFuzzyCurve"):
        k = rng.randint(1, 6)
        raws = []
        while len(raws) < k:
            v = pick()
            if all(float(v) != float(o) for o in raws):
                raws.append(v)
        rng.shuffle(raws)
        p["RawValues"] = raws
        p["FuzzyValues" if cmd == "CvtToFuzzyCurve" else "NormalValues"] = [fz() if cmd == "CvtToFuzzyCurve" else big() for _ in range(k)]
    elif cmd in ("NormalizeMeanToMid", "CvtToFuzzyMeanToMid"):
        p["IgnoreZeros"] = rng.random() < 0.5
        vals = [fz() if cmd == "CvtToFuzzyMeanToMid" else big() for _ in range(5)]
        if rng.random() < 0.5 and not hostile:
            vals = sorted(vals)
        p["FuzzyValues" if cmd == "CvtToFuzzyMeanToMid" else "NormalValues"] = vals
    elif cmd in ("NormalizeCurveZScore", "CvtToFuzzyCurveZScore"):
        k = rng.randint(1, 5)
        zs = distinct_nums(rng, k, -3, 3)
        if hostile:
            zs = distinct_nums(rng, k, -10, 10)
        p["ZScoreValues"] = zs
        p["FuzzyValues" if cmd == "CvtToFuzzyCurveZScore" else "NormalValues"] = [fz() if cmd == "CvtToFuzzyCurveZScore" else big() for _ in range(k)]
    elif cmd == "CvtToFuzzy":
        style = rng.choice(["both", "both", "none", "dir", "dir", "true", "false"])
        if style == "both":
            t, f = (pick(), pick())
            while float(t) == float(f):
                f = num(rng)
            if hostile:
                t, f = rng.choice([(1e-9, 0), (0, 1e-9), (1e6, -1e6), (t, f), (1e300, -1e300), (5, 5 + 1e-9)])
            p["TrueThreshold"], p["FalseThreshold"] = t, f
        if style in ("dir", "true", "false") or (style == "both" and rng.random() < 0.3):
            p["Direction"] = rng.choice(["LowToHigh", "HighToLow"])
        if style == "true":
            p["TrueThreshold"] = pick()
        if style == "false":
            p["FalseThreshold"] = pick()
    elif cmd == "CvtFromFuzzy":
        t, f = distinct_nums(rng, 2)
        p["TrueThreshold"], p["FalseThreshold"] = t, f
    elif cmd == "CvtToBinary":
        p["Threshold"] = pick()
        p["Direction"] = rng.choice(["LowToHigh", "HighToLow"])
    return p


WILD_POOL = [1 / 3.0, -1 / 3.0, 3.141592653589793, -2.718281828459045, 0.1, 0.7, -0.3, 1e-6, -1e-6, 1234.5678, -9876.54321, 1e6, 2.5, 0.0, 1.0, -1.0, 17.000000000000004,
             0.30000000000000004, 99.99999999999999, 5e-5]


def lattice_small(rng):
    return rng.randint(-16, 16) / 8.0


def gen_case(rng, cmd, dtypes=arr.DTYPES_Q, max_cells=60, ranks=(1, 2, 3), hostile=False, max_n=5,
             masks=True, distinct2=None, n=None, wild=False, layouts=True, offset=False):
    """A JSON case: {"cmd", "inputs": [array specs], "params"}."""
    n = n or n_inputs(rng, cmd, max_n)
    shape = arr.gen_shape(rng, max_cells, ranks)
    fuzzy_in = cmd in arr.FUZZY_INPUT
    ins = []
    for i in range(n):
        dt = "float64" if fuzzy_in else rng.choice(dtypes)
        if fuzzy_in and len(dtypes) > 2 and rng.random() < 0.2:
            dt = "float32"
        need2 = (cmd in STATS or cmd in ("NormalizeCurve", "CvtToFuzzyCurve")) if distinct2 is None else distinct2
        ins.append(arr.gen_array(rng, shape, dt, fuzzy=fuzzy_in, mask_style=None if masks else "none",
                                 payload=rng.choice(arr.PAYLOADS), distinct2=need2,
                                 layout=rng.choice(arr.LAYOUTS) if layouts and rng.random() < 0.12 else None))
    if wild and not fuzzy_in:
        # finite floats off the dyadic lattice (compared with a tolerance scaled by the reference model)
        for s_ in ins:
            if s_["dtype"] == "float64":
                s_["data"] = [rng.choice(WILD_POOL) if rng.random() < 0.8 else rng.uniform(-1000, 1000) for _ in s_["data"]]
        if (cmd in STATS or cmd in ("NormalizeCurve", "CvtToFuzzyCurve")) and len(set(ins[0]["data"])) < 2 and len(ins[0]["data"]) > 1 and ins[0]["dtype"] == "float64":
            ins[0]["data"][0] = 12.625
            ins[0]["data"][1] = -3.3
            if ins[0]["mask"]:
                ins[0]["mask"][0] = ins[0]["mask"][1] = False
    if offset and not fuzzy_in:
        # values whose common offset is huge compared with their spread (Julian days, epoch seconds, UTM northings)
        base = rng.choice([2460000.0, 4000000.0, 1e8])
        for s_ in ins:
            if s_["dtype"] == "float64":
                s_["data"] = [base + (v if abs(v) <= 64 else v / 16.0) for v in (lattice_small(rng) for _ in s_["data"])]
        if len(ins[0]["data"]) > 1 and ins[0]["dtype"] == "float64" and len(set(ins[0]["data"])) < 2:
            ins[0]["data"][0] = base + 0.5
            ins[0]["data"][1] = base - 0.25
            if ins[0]["mask"]:
                ins[0]["mask"][0] = ins[0]["mask"][1] = False
    dv = [ins[0]["data"][i] for i in range(len(ins[0]["data"])) if not (ins[0]["mask"] and ins[0]["mask"][i])]
    params = gen_params(rng, cmd, n, dv or None, hostile=hostile)
    return {"cmd": cmd, "inputs": ins, "params": params}


def features(case):
    """Abstract feature vector of a case (for distinct_nontrivial)."""
    ins = case["inputs"]
    return (case["cmd"], len(ins), len(ins[0]["shape"]), tuple(sorted(set(i["dtype"] for i in ins))),
            tuple(sorted(set("nomask" if i["mask"] is None else "mask" if any(i["mask"]) else "allfalse" for i in ins))),
            tuple(sorted(case["params"].keys())))
