"""Per-worker context: deterministic randomness, counters, failure recording, scratch dirs."""
import json
import os
import random
import shutil
import tempfile
import time


# every quick-tier random budget written in the property modules is multiplied by this (they were sized for ~2 s runs)
QUICK_SCALE = int(os.environ.get("MPV_QUICK_SCALE", "5"))
THOROUGH_SCALE = int(os.environ.get("MPV_THOROUGH_SCALE", "4"))


class HarnessProblem(Exception):
    """The harness could not attach / observe: never a violation, always inconclusive."""


def jsonable(x, depth=0):
    """Best-effort conversion for samples / failure details."""
    import numpy
    if depth > 6:
        return repr(x)[:200]
    if isinstance(x, (str, int, bool)) or x is None:
        return x
    if isinstance(x, float):
        if x != x or x in (float("inf"), float("-inf")):
            return repr(x)
        return x
    if isinstance(x, (numpy.integer,)):
        return int(x)
    if isinstance(x, (numpy.floating,)):
        return jsonable(float(x))
    if isinstance(x, (numpy.bool_,)):
        return bool(x)
    if isinstance(x, numpy.ndarray):
        from . import arr
        return arr.describe(x)
    if isinstance(x, dict):
        return {str(k): jsonable(v, depth + 1) for k, v in x.items()}
    if isinstance(x, (list, tuple, set, frozenset)):
        return [jsonable(v, depth + 1) for v in x]
    return repr(x)[:300]


class Ctx(object):
    MAX_FAIL_PER_KEY = 3
    MAX_SAMPLES = 6

    def __init__(self, prop, tier, seed, shard, nshards):
        self.prop, self.tier, self.seed, self.shard, self.nshards = prop, tier, seed, shard, nshards
        self.counters = {}
        self.features = set()
        self.samples = []
        self.failures = {}      # key -> list of {detail, case}
        self.failure_counts = {}
        self.dontcares = {}
        self.inconclusive = []
        self.evaluations = 0
        self.case = None
        self._scratch_root = None
        self._case_dirs = []
        self.t0 = time.time()

    # ---- determinism
    def rng(self, *names):
        return random.Random("%s:%s:%s:%s" % (self.seed, self.prop, self.shard, ":".join(str(n) for n in names)))

    def n(self, quick, thorough):
        """Per-shard share of a total case budget."""
        total = quick * QUICK_SCALE if self.tier == "quick" else thorough * THOROUGH_SCALE
        total = min(total, thorough) if self.tier == "quick" else total
        base = total // self.nshards
        return base + (1 if self.shard < total % self.nshards else 0)

    def mine(self, index):
        """Index-mod sharding for enumerated spaces."""
        return index % self.nshards == self.shard

    @property
    def quick(self):
        return self.tier == "quick"

    # ---- observation
    def count(self, name, k=1):
        self.counters[name] = self.counters.get(name, 0) + k

    def feature(self, f):
        self.features.add(f if isinstance(f, str) else json.dumps(jsonable(f), sort_keys=True))

    def sample(self, obj):
        if len(self.samples) < self.MAX_SAMPLES:
            self.samples.append(jsonable(obj))

    def dontcare(self, reason):
        self.dontcares[reason] = self.dontcares.get(reason, 0) + 1

    def note_inconclusive(self, reason):
        if reason not in self.inconclusive and len(self.inconclusive) < 20:
            self.inconclusive.append(reason)

    def fail(self, key, detail, case=None):
        """A must-hold expectation failed. key = mechanism signature (input feature : deviation)."""
        case = self.case if case is None else case
        self.failure_counts[key] = self.failure_counts.get(key, 0) + 1
        lst = self.failures.setdefault(key, [])
        entry = {"key": key, "detail": jsonable(detail), "case": case, "hashseed": os.environ.get("PYTHONHASHSEED", "0")}
        size = len(json.dumps(jsonable(case), sort_keys=True, default=repr))
        entry["_size"] = size
        if len(lst) < self.MAX_FAIL_PER_KEY:
            lst.append(entry)
        else:
            worst = max(range(len(lst)), key=lambda i: lst[i]["_size"])
            if size < lst[worst]["_size"]:
                lst[worst] = entry

    # ---- scratch space (outside /repo and /verif)
    def scratch(self):
        if self._scratch_root is None:
            base = os.environ.get("TMPDIR", "/var/tmp")
            self._scratch_root = tempfile.mkdtemp(prefix="mpv-%s-%d-" % (self.prop, self.shard), dir=base)
        d = tempfile.mkdtemp(dir=self._scratch_root)
        self._case_dirs.append(d)
        return d

    def end_case(self):
        """Remove the directories handed out during the case just run (modules opt in with SCRATCH_PER_CASE)."""
        for d in self._case_dirs:
            shutil.rmtree(d, ignore_errors=True)
        del self._case_dirs[:]

    def cleanup(self):
        if self._scratch_root:
            shutil.rmtree(self._scratch_root, ignore_errors=True)
            self._scratch_root = None

    def result(self):
        fl = []
        for key, lst in self.failures.items():
            for e in lst:
                e = dict(e)
                e.pop("_size", None)
                fl.append(e)
        return {
            "prop": self.prop, "shard": self.shard, "evaluations": self.evaluations,
            "counters": self.counters, "features": sorted(self.features),
            "samples": self.samples, "failures": fl, "failure_counts": self.failure_counts,
            "dontcare": self.dontcares, "inconclusive": self.inconclusive,
            "wall_s": time.time() - self.t0,
        }
