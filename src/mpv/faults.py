"""W-FAULT: single-fault injection into valid W-MODEL models, with the expected error class, attributes and
location known by construction. The wrong-kind matrix is derived from the libraries' declarations at run time."""
import copy

from mpv import arr, models

LOAD_FAULTS = ("unknown-command", "duplicate-result", "missing-param", "undeclared-param", "miscased-required-param")
RUN_FAULTS = ("wrong-kind", "missing-result", "non-data-result", "wrong-fuzziness", "bad-path")
ALL_FAULTS = LOAD_FAULTS + RUN_FAULTS

INT = lambda v: {"t": "int", "v": v, "text": str(v)}
WORD = lambda s: {"t": "ustr", "v": s, "cls": "word"}
FLOAT = lambda v: {"t": "float", "v": v, "text": repr(v)}
LIST = lambda items: {"t": "list", "items": items, "trail": False}
TUPLE = lambda k, v: {"t": "tuple", "pairs": [[{"v": k, "q": None}, v]], "trail": False}

# declared kind -> [(label, raw AST value, python value for the API path)]
QSTR = lambda v: {"t": "qstr", "v": v, "q": '"'}
WRONG = {
    "number": [("none", WORD("None"), None), ("list", LIST([INT(1), INT(2)]), [1, 2]), ("tuple", TUPLE("a", WORD("b")), {"a": "b"}), ("word", WORD("abc"), "abc"), ("empty-string", QSTR(""), ""),
               ("empty-list", LIST([]), []), ("true-word", WORD("True"), "True"), ("false-word", WORD("False"), "False")],
    "list:number": [("none", WORD("None"), None), ("none-item", LIST([INT(1), WORD("None")]), [1, None]), ("scalar", INT(3), 3), ("scalar-zero", INT(0), 0), ("empty-string", QSTR(""), ""), ("tuple", TUPLE("a", INT(1)), {"a": "1"}), ("bad-item", LIST([INT(1), WORD("abc")]), [1, "abc"]),
                    ("nested-item", LIST([INT(1), LIST([INT(2)])]), [1, [2]]), ("bool-word-item", LIST([INT(1), WORD("False")]), [1, "False"])],
    "list:result": [("scalar-number", INT(3), 3), ("scalar-zero", INT(0), 0), ("tuple", TUPLE("a", WORD("b")), {"a": "b"}), ("number-item", LIST([INT(7)]), [7])],
    "result": [("number", INT(5), 5), ("list", LIST([INT(1)]), [1]), ("float", FLOAT(0.5), 0.5), ("zero", INT(0), 0), ("empty-list", LIST([]), [])],
    "boolean": [("none", WORD("None"), None), ("word", WORD("maybe"), "maybe"), ("decimal", FLOAT(0.5), 0.5), ("list", LIST([INT(1)]), [1]), ("empty-string", QSTR(""), ""), ("empty-list", LIST([]), [])],
    "datatype": [("netcdf-only-name", WORD("Fuzzy"), "Fuzzy"), ("netcdf-only-name-quoted", QSTR("Positive Float"), "Positive Float"), ("unknown-name", WORD("Complex"), "Complex"), ("number", INT(4), 4), ("list", LIST([WORD("Float")]), ["Float"])],
    "tuple": [("number", INT(4), 4), ("word", WORD("abc"), "abc"), ("list", LIST([INT(1), INT(2)]), [1, 2]), ("zero", INT(0), 0), ("zero-float", FLOAT(0.0), 0.0),
              ("empty-string", QSTR(""), ""), ("nested-list", LIST([LIST([WORD("a"), WORD("b")])]), [["a", "b"]]), ("word-list", LIST([WORD("x")]), ["x"])],
}


def required_params(libs=arr.CSV_LIBS):
    prog = arr.new_program(libs)
    return {name: set(cls.required_inputs) for name, cls in prog.command_library.items()}


def applicable(model, kinds, req):
    """All (fault kind, command index, parameter, variant) sites of a model."""
    sites = []
    cmds = model["commands"]
    names = [c["result"] for c in cmds]
    for i, c in enumerate(cmds):
        ks = kinds.get(c["cmd"], {})
        sites.append(("unknown-command", i, None, None))
        sites.append(("unknown-command", i, None, "display-name"))
        if i > 0:
            sites.append(("duplicate-result", i, None, None))
        for p in c["args"]:
            if p in req.get(c["cmd"], ()):
                sites.append(("missing-param", i, p, None))
        sites.append(("undeclared-param", i, "Bogus_Param", None))
        # a name that *other* commands declare (a sibling's or a subclass's parameter), but not this one
        foreign = sorted(set(p for cmd_, d_ in kinds.items() for p in d_ if p not in ks and cmd_ != c["cmd"]
                             and (cmd_.startswith(c["cmd"]) or c["cmd"].startswith(cmd_) or cmd_[:6] == c["cmd"][:6])))
        for p in foreign[:3]:
            sites.append(("undeclared-param", i, p, "declared-by-a-related-command"))
        unused = [p for p in ks if p not in c["args"]]
        for p in unused[:2]:
            # an undeclared name that differs from a declared (optional, unused) one only in letter case
            sites.append(("undeclared-param", i, p.lower() if p.lower() != p else p.upper(), "case-variant"))
        for p in list(c["args"])[:1]:
            if p in req.get(c["cmd"], ()):
                sites.append(("miscased-required-param", i, p, None))
        for p, k in ks.items():
            if p not in c["args"]:
                # an optional declared parameter the base model does not use (Metadata on every command, ...)
                for label, raw, py in WRONG.get(k, []):
                    sites.append(("wrong-kind", i, p, label))
        for p, v in c["args"].items():
            k = ks.get(p)
            for label, raw, py in WRONG.get(k, []):
                sites.append(("wrong-kind", i, p, label))
            if k in ("result", "list:result"):
                sites.append(("missing-result", i, p, None))
                sites.append(("missing-result", i, p, "blank-padded"))
                sites.append(("missing-result", i, p, "long-name"))
                if any(x["cmd"] in ("PrintVars", "EEMSWrite") for x in cmds if x is not c) and c["cmd"] not in ("PrintVars",):
                    sites.append(("non-data-result", i, p, None))
                if c["cmd"] in arr.FUZZY_INPUT or (c["cmd"] in arr.INPUT_STYLE and c["cmd"] != "Copy"):
                    sites.append(("wrong-fuzziness", i, p, None))
            if k == "path" and c["cmd"] == "EEMSRead":
                sites.append(("bad-path", i, p, None))
                sites.append(("bad-path", i, p, "same-as-an-output"))
    return sites


def inject(model, site, rng):
    """Returns (faulty model, expectation) or None when the site cannot be realised on this model."""
    kind, i, p, variant = site
    m = copy.deepcopy(model)
    cmds = m["commands"]
    c = cmds[i]
    exp = {"fault": kind, "cmd_index": i, "cmd": c["cmd"], "param": p, "variant": variant, "phase": "load" if kind in LOAD_FAULTS else "run"}
    if kind == "unknown-command":
        c["cmd_real"] = c["cmd"]
        c["cmd"] = "NoSuchCommand_%d" % i
        if variant == "display-name":
            # the name under which a command is *displayed* (or a near miss of its name) is not its name
            c["cmd"] = {"EEMSRead": "Read", "EEMSWrite": "Write"}.get(c["cmd_real"], rng.choice(["Read", "Write", c["cmd_real"] + "s", c["cmd_real"].lower() + "_"]))
        exp.update(error="CommandDoesNotExist", where="cmd", attrs={"name": c["cmd"]})
    elif kind == "duplicate-result":
        j = rng.randrange(i)
        old = c["result"]
        c["result"] = cmds[j]["result"]
        exp.update(error="DuplicateResult", where="cmd", attrs={"result": c["result"]})
        # nothing may still reference the renamed result: re-point references to the surviving name
        for x in cmds:
            for k, v in x["args"].items():
                if v == old:
                    x["args"][k] = c["result"]
                elif isinstance(v, list):
                    x["args"][k] = [c["result"] if e == old else e for e in v]
    elif kind == "missing-param":
        del c["args"][p]
        exp.update(error="MissingParameters", where="cmd", attrs={"parameters": [p], "command": c["cmd"]})
    elif kind == "undeclared-param":
        # anywhere among the arguments, not only last
        items = list(c["args"].items())
        items.insert(rng.randrange(len(items) + 1), (p, 1))
        c["args"] = dict(items)
        exp.update(error="NoSuchParameter", where="arg", attrs={"parameter": p, "command": c["cmd"]})
    elif kind == "miscased-required-param":
        # the required parameter is given under a name of other capitalisation: it is missing (and the other name undeclared)
        newname = p.lower() if p.lower() != p else p.upper()
        c["args"] = {(newname if k == p else k): v for k, v in c["args"].items()}
        c.setdefault("kind_alias", {})[newname] = p
        exp.update(error="MissingParameters", where="cmd", attrs={"parameters": [p]}, also_ok=["NoSuchParameter"], phase="load")
    elif kind == "wrong-kind":
        k = models.param_kinds(models.model_libs(model))[c["cmd"]][p]
        label, raw, py = [w for w in WRONG[k] if w[0] == variant][0]
        if variant.startswith("netcdf-only") and model.get("libs") == "nc":
            return None         # those names are type names of the NetCDF reader
        c.setdefault("raw_ast", {})[p] = copy.deepcopy(raw)
        c["args"][p] = py
        exp.update(error="ParameterNotValid", where="arg", attrs={}, declared=k)
    elif kind == "missing-result":
        v = c["args"][p]
        # a name nothing is called - or an existing name with a blank / tab / line break before or after it (written in quotes)
        real = [x["result"] for x in cmds if x is not c]
        bad_name = "No_Such_Result"
        if variant == "long-name" and real:
            # a very long name that shares a long beginning with an existing (equally long) one would still have to be told apart
            bad_name = rng.choice(real)[:1] + "_" * 3 + "x" * 190 + rng.choice(["_A", "_B", "9"])
        if variant == "blank-padded" and real:
            bad_name = rng.choice([" %s", "%s ", "%s\t", "\t%s", " %s ", "%s\n"]) % rng.choice(real)
        if isinstance(v, list):
            if not v:
                return None
            e = rng.randrange(len(v))
            v[e] = bad_name
            exp.update(elem=e)
            if variant == "blank-padded":
                c.setdefault("raw_ast", {})[p] = LIST([QSTR(x) if x == bad_name else WORD(x) for x in v])
        else:
            c["args"][p] = bad_name
            if variant == "blank-padded":
                c.setdefault("raw_ast", {})[p] = QSTR(bad_name)
        exp.update(error="ResultDoesNotExist", where="arg", attrs={"result": bad_name})
    elif kind == "non-data-result":
        sinks = [x["result"] for x in cmds if x["cmd"] in ("PrintVars", "EEMSWrite") and x is not c
                 and not _depends_on(m, x["result"], c["result"])]
        if not sinks:
            return None
        s = rng.choice(sinks)
        v = c["args"][p]
        if isinstance(v, list):
            if not v:
                return None
            e = rng.randrange(len(v))
            v[e] = s
            exp.update(elem=e)
        else:
            c["args"][p] = s
        exp.update(error="ResultTypeNotValid", where="arg", attrs={"result": s}, sink=s)
        if c["cmd"] in arr.FUZZY_INPUT:
            exp["also_ok"] = ["ResultNotFuzzy"]   # the fuzziness test comes first; it names the same result
    elif kind == "wrong-fuzziness":
        wants_fuzzy = c["cmd"] in arr.FUZZY_INPUT
        pool = [x["result"] for x in cmds if x is not c and x["cmd"] in arr.INPUT_STYLE or x["cmd"] == "EEMSRead"]
        cands = [x["result"] for x in cmds if x is not c and (x["cmd"] in arr.FUZZY_OUTPUT) != wants_fuzzy and (x["cmd"] in arr.INPUT_STYLE or x["cmd"] == "EEMSRead")]
        # the substitute must not depend on c (no cycle)
        cands = [n for n in cands if not _depends_on(m, n, c["result"])]
        if not cands:
            return None
        s = rng.choice(cands)
        v = c["args"][p]
        if isinstance(v, list):
            if not v:
                return None
            e = rng.randrange(len(v))
            v[e] = s
            exp.update(elem=e)
        else:
            c["args"][p] = s
        exp.update(error="ResultNotFuzzy" if wants_fuzzy else "ResultIsFuzzy", where="arg", attrs={"result": s})
    elif kind == "bad-path":
        c["args"][p] = "no_such_dir/missing.csv" if model.get("libs") != "nc" else "no_such_dir/missing.nc"
        if variant == "same-as-an-output":
            # the missing input is the very file some writer of the model is going to produce
            outs = [x["args"]["OutFileName"] for x in cmds if isinstance(x["args"].get("OutFileName"), str) and x is not c]
            if not outs:
                return None
            c["args"][p] = rng.choice(outs)
        exp.update(error="PathDoesNotExist", where="arg", attrs={})
    else:
        return None
    return m, exp


def _depends_on(model, name, target, seen=None):
    seen = seen or set()
    if name == target:
        return True
    if name in seen:
        return False
    seen.add(name)
    by = {c["result"]: c for c in model["commands"]}
    c = by.get(name)
    if not c:
        return False
    return any(_depends_on(model, d, target, seen) for d in models.deps_of(c) if d in by)
