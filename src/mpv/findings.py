"""KNOWN_FINDINGS.txt: line-oriented, read-only at run time.

finding: property=C16 key=<mechanism key> witness=<one-line json case> :: <what fails>
fixed: property=C14 <commit> <what failed>
"""
import json
import os
import re

_F = re.compile(r"^finding:\s+property=(C\d+)\s+key=(\S+)\s+witness=(.*?)\s+::\s+(.*)$")
_X = re.compile(r"^fixed:\s+property=(C\d+)\s+(\S+)\s+(.*)$")


def load(verif):
    path = os.path.join(verif, "KNOWN_FINDINGS.txt")
    findings, fixed = [], []
    if not os.path.exists(path):
        return findings, fixed
    for ln in open(path, encoding="utf-8"):
        ln = ln.rstrip("\n")
        if not ln.strip() or ln.lstrip().startswith("#"):
            continue
        m = _F.match(ln)
        if m:
            findings.append({"property": m.group(1), "key": m.group(2),
                             "witness": json.loads(m.group(3)), "text": m.group(4)})
            continue
        m = _X.match(ln)
        if m:
            fixed.append({"property": m.group(1), "commit": m.group(2), "text": m.group(3)})
            continue
        raise ValueError("KNOWN_FINDINGS.txt: unparseable line: %r" % ln)
    return findings, fixed


def for_property(verif, prop):
    return [f for f in load(verif)[0] if f["property"] == prop]
