"""Orchestrator: bin/check <Cxx> --tier quick|thorough [--replay f].

Runs the property's workload in fresh worker processes (the mpilot command registry is
process-global), merges what the monitors observed, matches failures against
KNOWN_FINDINGS.txt, writes evidence/<id>.json and exits 0 (held on what was observed),
1 (VIOLATION lines printed) or 2 (INCONCLUSIVE: a deciding monitor was never reached).
"""
import argparse
import json
import os
import shutil
import subprocess
import sys
import time

VERIF = os.path.abspath(os.path.join(os.path.dirname(os.path.abspath(__file__)), "..", ".."))
SRC = os.path.join(VERIF, "src")
DEPS = os.path.join(VERIF, ".deps")
PY = "/venv/bin/python"
WHEELS = "/opt/veriftools/wheels"
NEEDED = ("icontract", "jsonschema")

PROPS = ["C%02d" % i for i in range(1, 21)]


def ensure_deps(verbose=False):
    missing = [m for m in NEEDED if not os.path.isdir(os.path.join(DEPS, m))]
    if not missing:
        return
    os.makedirs(DEPS, exist_ok=True)
    cmd = [PY, "-m", "pip", "install", "--quiet", "--no-index", "--find-links", WHEELS,
           "--target", DEPS, "--upgrade"] + list(NEEDED)
    env = dict(os.environ, PIP_NO_INDEX="1", PIP_DISABLE_PIP_VERSION_CHECK="1")
    r = subprocess.run(cmd, env=env, stdout=subprocess.PIPE, stderr=subprocess.STDOUT, text=True)
    if r.returncode != 0:
        print(r.stdout)
        print("INCONCLUSIVE reason=harness dependencies could not be installed offline")
        sys.exit(2)
    if verbose:
        print("installed", ", ".join(NEEDED), "into", DEPS)


def worker_env(repo):
    env = dict(os.environ)
    env["PYTHONPATH"] = os.pathsep.join([repo, SRC, os.path.join(VERIF, "vlibs"), DEPS])
    env["PYTHONHASHSEED"] = "0"
    env["MPILOT_REPO"] = repo
    env["MPV_VERIF"] = VERIF
    env.setdefault("TMPDIR", "/var/tmp")
    env["PYTHONDONTWRITEBYTECODE"] = "1"
    env["PYTHONWARNINGS"] = "ignore"
    return env


def setup():
    ensure_deps(verbose=True)
    repo = os.environ.get("MPILOT_REPO", "/repo")
    r = subprocess.run([PY, "-c",
                        "import icontract, jsonschema, mpilot, numpy, netCDF4, os;"
                        "print('mpilot from', os.path.dirname(mpilot.__file__));"
                        "import mpv.core, mpv.findings; print('harness imports ok')"],
                       env=worker_env(repo))
    sys.exit(r.returncode)


def main():
    ap = argparse.ArgumentParser()
    ap.add_argument("prop", nargs="?")
    ap.add_argument("--tier", default=os.environ.get("VERIF_TIER", "quick"), choices=["quick", "thorough"])
    ap.add_argument("--seed", type=int, default=int(os.environ.get("VERIF_SEED", "0") or 0))
    ap.add_argument("--shards", type=int, default=0)
    ap.add_argument("--replay")
    ap.add_argument("--setup", action="store_true")
    ap.add_argument("--no-evidence", action="store_true")
    args = ap.parse_args()
    if args.setup:
        setup()
    if args.prop not in PROPS:
        print("usage: check <C01..C20> [--tier quick|thorough] [--replay file]")
        sys.exit(2)
    ensure_deps()
    repo = os.path.abspath(os.environ.get("MPILOT_REPO", "/repo"))
    env = worker_env(repo)
    prop = args.prop
    t0 = time.time()

    if args.replay:
        try:
            env["PYTHONHASHSEED"] = str(json.load(open(args.replay)).get("hashseed", "0"))      # the hash seed of the shard that found it
        except Exception:
            pass
        r = subprocess.run([PY, "-m", "mpv.worker", "--replay", args.replay, prop], env=env)
        sys.exit(r.returncode)

    nshards = args.shards or (8 if args.tier == "quick" else 16)
    # a directory of its own for every invocation: two checks of the same property may run at the same time (a check of the
    # unchanged tree next to one of a scratch tree) and must not read one another's shard results
    import tempfile
    os.makedirs(os.path.join(VERIF, "run"), exist_ok=True)
    rundir = tempfile.mkdtemp(prefix="%s-%d-" % (prop, os.getpid()), dir=os.path.join(VERIF, "run"))
    timeout = 900 if args.tier == "quick" else 4 * 3600
    procs = []
    for s in range(nshards):
        out = os.path.join(rundir, "shard%d.json" % s)
        log = open(os.path.join(rundir, "shard%d.log" % s), "w")
        # every shard runs under its own (reproducible) string-hash seed: set / dict-of-str iteration orders differ between shards
        senv = dict(env, PYTHONHASHSEED=str((args.seed * 1009 + s * 7919) % (2 ** 32)))
        p = subprocess.Popen([PY, "-m", "mpv.worker", prop, args.tier, str(args.seed), str(s), str(nshards), out],
                             env=senv, stdout=log, stderr=subprocess.STDOUT)
        procs.append((s, p, out, log))
    results, inconclusive = [], []
    deadline = time.time() + timeout
    for s, p, out, log in procs:
        try:
            p.wait(timeout=max(1, deadline - time.time()))
        except subprocess.TimeoutExpired:
            p.kill()
            p.wait()
            inconclusive.append("shard %d hit the wall-clock watchdog" % s)
            continue
        finally:
            log.close()
        if not os.path.exists(out):
            tail = open(os.path.join(rundir, "shard%d.log" % s)).read()[-1500:]
            inconclusive.append("shard %d died without a result (rc=%s): %s" % (s, p.returncode, tail))
            continue
        results.append(json.load(open(out)))

    sys.path.insert(0, SRC)
    sys.path.insert(0, DEPS)
    from mpv import report
    rc = report.finish(prop, args.tier, args.seed, nshards, results, inconclusive, time.time() - t0,
                       VERIF, write_evidence=not args.no_evidence)
    if rc == 0:
        shutil.rmtree(rundir, ignore_errors=True)      # shard logs are kept only when something needs looking at
    sys.exit(rc)


if __name__ == "__main__":
    main()
