"""Writes MANIFEST.json from the table below (kept next to the code so they change together)."""
import json
import os
import sys

VERIF = os.path.abspath(os.path.join(os.path.dirname(os.path.abspath(__file__)), "..", ".."))

CHECKS = {
    "C06": dict(
        level="exploration", design="5/C06",
        technique="runtime postcondition monitor on operator results against an exact-rational reference + metamorphic law monitors; exhaustive 18^n cell lattice for n<=3",
        text="Every FuzzyOr/And/Not/Union/WeightedUnion/SelectedUnion/XOr call made by the workload is checked cell by cell against an independent exact-rational model, and the algebraic laws are checked on the same inputs. For <=3 inputs the complete lattice of 17 fuzzy values + missing is enumerated (as array cells, in rank 1-3 layouts and all input orders); 4-5 inputs are sampled. Held on what was executed, not a proof.",
        note="Trusted: numpy.ma primitives, the reference models in src/mpv/ref.py, the stand-in producer commands (built as the repository's tests build them). Values are multiples of 1/8 in [-1,1]; other floats are covered only through C04/C02 workloads."),
}

PENDING = {}


def main():
    props = [json.loads(l) for l in open(os.path.join(VERIF, "properties.jsonl"))]
    checks = []
    na = []
    for p in props:
        pid = p["id"]
        if pid in CHECKS:
            c = CHECKS[pid]
            checks.append({
                "property_id": pid,
                "quick_cmd": "bin/check %s --tier quick" % pid,
                "thorough_cmd": "bin/check %s --tier thorough" % pid,
                "evidence_file": "evidence/%s.json" % pid,
                "replay_cmd_template": "bin/check %s --replay {path}" % pid,
                "engine": "mpv",
                "level_claimed": {"category": c["level"], "text": c["text"], "design_ref": "DESIGN.md section " + c["design"]},
                "level_note": c["note"],
                "technique": c["technique"],
            })
        else:
            na.append({"property_id": pid, "reason": PENDING.get(pid, "check not built yet in this work-in-progress commit; runtime monitoring applies (see DESIGN.md section 5) and the check will be registered when it is silent on the unchanged tree")})
    man = {
        "version": 1,
        "setup_cmd": "bin/setup",
        "hooks": {
            "guard": "MPILOT_VERIF",
            "enable": "no source hooks: monitors attach from the harness (wrappers on execute/result/clean, audit hooks, icontract); checks import /repo's working tree directly (MPILOT_REPO overrides the tree)",
            "baseline_off_cmd": "cd /repo && /venv/bin/python -m pytest -ra -q -p no:cacheprovider --timeout=900 tests",
            "source_commits": [],
            "add_only": True,
        },
        "engines": [{"name": "mpv", "path": "src/mpv", "serves_properties": sorted(CHECKS), "kind_free_text": "runtime monitors (event recorder, contracts, reference-model postconditions, metamorphic monitors) over generated workloads, sharded into fresh processes"}],
        "checks": checks,
        "not_applicable": na,
        "notes": "Exit 0 = held on everything explored; 1 = VIOLATION lines; 2 = INCONCLUSIVE (deciding monitor never reached). Known findings: KNOWN_FINDINGS.txt. Seeded breaking changes: seeded/. Randomness from VERIF_SEED.",
    }
    try:
        sys.path.insert(0, os.path.join(VERIF, ".deps"))
        import jsonschema
        jsonschema.validate(man, json.load(open(os.path.join(VERIF, "schemas", "MANIFEST.schema.json"))))
    except ImportError:
        pass
    with open(os.path.join(VERIF, "MANIFEST.json"), "w") as f:
        json.dump(man, f, indent=1)
        f.write("\n")
    print("MANIFEST.json:", len(checks), "checks,", len(na), "not claimed")


if __name__ == "__main__":
    main()
