"""Writes MANIFEST.json from the table below (kept next to the code so they change together)."""
import json
import os
import sys

VERIF = os.path.abspath(os.path.join(os.path.dirname(os.path.abspath(__file__)), "..", ".."))

CHECKS = {
    "C06": dict(
        level="exploration", design="5/C06",
        technique="runtime postcondition monitor on operator results against an exact-rational reference + metamorphic law monitors; exhaustive 18^n cell lattice for n<=3",
        text="Every FuzzyOr/And/Not/Union/WeightedUnion/SelectedUnion/XOr call made by the workload is checked cell by cell against an independent exact-rational model, and the algebraic laws are checked on the same inputs. For <=3 inputs the complete lattice of 17 fuzzy values + missing is enumerated (as array cells, in rank 1-3 layouts and all input orders); 4-5 inputs are sampled. Held on what was executed, not a proof. Repeated fields ([A, A, B]) and mixed element types (crisp integer and float32 inputs in any order) are included.",
        note="Trusted: numpy.ma primitives, the reference models in src/mpv/ref.py, the stand-in producer commands (built as the repository's tests build them). Values are multiples of 1/8 in [-1,1]; other floats are covered only through C04/C02 workloads."),
    "C03": dict(
        level="exploration", design="5/C03",
        technique="runtime mask postconditions on every data-command result + payload-variation metamorphic monitor (three payloads under the mask; CSV read with two missing markers)",
        text="Each generated call of every built-in data command is monitored for: result mask contains the union of the input masks; result mask contains nothing else unless the reference model says the operation is undefined there; and three runs that differ only in the numbers hidden under masked cells give bit-identical visible results. Exploration over random shapes, dtypes, mask placements and parameter sets. A follow-up command on every input afterwards must be missing exactly where that input was specified missing.",
        note="Trusted: numpy.ma, reference models (for the 'undefined cell' set), stand-in producers. Bounded: <=5 inputs, <=40 cells (plus the large rasters), lattice values; NaN/inf only underneath missing cells."),
    "C04": dict(
        level="exploration", design="5/C04",
        technique="runtime range postcondition on all 14 fuzzy-producing commands under hostile parameters/data, icontract postcondition on insure_fuzzy, quiescent re-check after a further consumer ran",
        text="Every result of a fuzzy-producing command observed in the workload must lie in [-1,1] at its non-missing cells (NaN counts as outside), immediately and again after another command consumed it. Parameters are deliberately hostile (values up to 1e6, reversed / nearly equal thresholds, negative or huge weights), data include float32/int16/int32 and wild finite floats. The same range monitor rides on whole CSV and NetCDF model runs (at every execute exit of a fuzzy command and again at the end of the run).",
        note="Trusted: numpy. Out of scope: non-finite inputs, control points closer than 1e-9 relative (slope overflow), fuzzy operator inputs outside [-1,1]."),
    "C05": dict(
        level="exploration", design="5/C05",
        technique="runtime shape postcondition + metamorphic monitors (common cell permutation, reshape across ranks 1-3) on every data command",
        text="For every generated call the result must have exactly the input shape, and re-running the same command on commonly permuted or reshaped cells must give the identically permuted / reshaped result (bit-exact on the dyadic lattice; 1e-9 for the z-score commands whose float summation order changes). Further relations: Fortran-ordered / transposed-view inputs give the same cells; the same NetCDF table stored as a vector and as a grid gives bit-identical results for every command of a whole model.",
        note="Trusted: numpy. Bounded: rank 1-3, <=48 cells, <=5 inputs."),
    "C07": dict(
        level="exploration", design="5/C07",
        technique="runtime reference postcondition (exact rationals) + input-order metamorphic monitor + single-fault error-class monitor on the ten arithmetic commands",
        text="Each arithmetic call is compared cell by cell with exact rational arithmetic; every int64/float64 assignment for up to 4 inputs is enumerated and input orders are permuted, demanding the same outcome class and values; zero divisors must yield missing cells; shape / weight-count / empty-list faults must raise MixedArrayShapes / MismatchedWeights / EmptyInputs. Repeated fields, weights summing to exactly zero (all cells missing, no error), floats off the dyadic lattice and small integer types (overflow excluded) are included.",
        note="Trusted: numpy, reference models. int64 overflow never generated; result dtype not judged."),
    "C08": dict(
        level="exploration", design="5/C08",
        technique="runtime reference postcondition on the Cvt*/Normalize* commands + variant-pair, inverse and monotonicity monitors",
        text="Each conversion / normalisation result is compared with an independent model of its documented mapping (exact rationals where the mapping is rational; float with 1e-9 tolerance for z-scores), each CvtToFuzzy variant is compared with its clamped Normalize counterpart, CvtFromFuzzy is checked to invert CvtToFuzzy between the thresholds, and monotone mappings must preserve cell order. CvtToFuzzyZScore is also run with its documented default thresholds; a quarter of the cases use floats off the dyadic lattice.",
        note="Trusted: reference models (prototype-validated against the pinned implementation on ~5k cases), numpy. Don't-care: z-score default thresholds (docs and code disagree), StartVal>=EndVal, equal thresholds, duplicate raw values, constant arrays. Only the 14 commands that exist are covered (the property text says 17)."),
    "C09": dict(
        level="exploration", design="5/C09",
        technique="invariant at a quiescent hook: digest of every finished result recomputed after every later execute() in random consumer sequences over all built-in commands (both library sets)",
        text="After every consumer execution the shape, dtype, mask and unmasked value bits of every previously finished result (stand-in producers and real command results) are re-digested and compared with the digest taken when it was produced. Consumers include single-input forms of n-ary operators, PrintVars, and the CSV and NetCDF writers. The same invariant rides on whole CSV and NetCDF model runs (after every execute exit and at the end of the run).",
        note="Trusted: numpy, sha1. Values under the mask are excluded. Sequences of <=10 consumers over <=6 base arrays."),
    "C10": dict(
        level="exploration", design="5/C10",
        technique="runtime comparison of Parser().parse output with the generating AST over random renderings (layout metamorphic), plus single-edit corruption monitor demanding SyntaxError; failures classified by isolated leaf value class",
        text="Random abstract programs are rendered in many concrete layouts (spacing, tabs, line breaks, comment lines, trailing comments, trailing commas, quote style, LF/CRLF) and the ProgramNode returned by the real parser is compared type-exactly with the AST (floats bit-exact, tuples as maps). Unambiguously malformed single-edit corruptions must raise SyntaxError. One known finding: unquoted strings ending in a numeric token are rejected. Values include characters that only str.splitlines() treats as line breaks, the words True/False inside unquoted text, runs of blanks and tabs between words, and unquoted tuple keys ending in non-identifier characters; corruptions include a key/value pair inside a plain list.",
        note="Trusted: the harness renderer and its statement of 'well-formed' (documented syntax + what tests/test_parser.py fixes). Don't-care: duplicate tuple keys, comments/newlines inside unquoted strings, bare True/False, backslash escapes other than \\\\ \\\" \\' \\n \\t."),
    "C11": dict(
        level="exploration", design="5/C11",
        technique="runtime node-by-node line monitor against the renderer's line map under LF/CRLF/CR, multi-line strings and Parser-reuse histories; fault injection at known lines with error.lineno and CLI '-->' marker monitors",
        text="Every CommandNode/ArgumentNode/ExpressionNode/list element line is compared with the line recorded by the renderer, including after histories of earlier parses on the same Parser object; single faults are injected at known positions of valid EEMS models and the lineno carried by the resulting error (and the line the CLI marks) must be the offending command's or argument's line. Histories include the same text shifted by leading lines; faults are also injected into multi-line EEMS 2.0 commands; one in six CLI cases carries FF/VT/FS/GS/RS/NEL/LS/PS characters before the marked line.",
        note="The head 'Result = Command(' is kept on one line. For list arguments the argument-name line, the list's first line and the offending element's line are all accepted. Errors of an unexpected class are left to C12/C13."),
    "C12": dict(
        level="fault_enumeration", design="5/C12",
        technique="single-fault enumeration over the command x parameter x wrong-kind matrix and all producer/consumer pairings, with an outcome monitor (error class + attributes) and a LOAD->PREPASS->EXEC phase monitor over execute()/file-system events",
        text="For every built-in command of the CSV set a valid base model and every fault site on it are enumerated (missing/undeclared parameters, every wrong kind per declared type, unknown / non-data / wrong-fuzziness results, bad and relative paths, unknown command, duplicate result), the same faults are placed at random positions of random models with sinks, and producer/consumer pairings are predicted from the declarations. The rejection must be the specific error naming the offender, and the event log must show no execute() entry, no file-system write (audit hook + directory snapshot) and no finished command before it. Unfaulted models must not be rejected by an acceptance error. Also: NetCDF models, falsy wrong-kind values, optional parameters the base model does not use (Metadata on every command), case variants of parameter names, and commands of libraries that were not selected.",
        note="Acceptance rule restated in the harness from inputs/required/output/is_fuzzy declarations. String/Path parameters given lists or tuples are don't-care. NetCDF library set is covered for pairings only through shared basic/fuzzy commands."),
    "C13": dict(
        level="fault_enumeration", design="5/C13",
        technique="API-boundary exception-type monitor over enumerated kind confusions, character-level text corruptions, CSV content faults, injected open() failures and run-time argument faults; CLI exit-status/stderr monitor for every MPilotError",
        text="Whatever escapes Parser().parse, Program.from_source or Program.run is recorded; anything other than SyntaxError or an MPilotError is a violation (reported with the innermost mpilot frame). For MPilotErrors str(exc) must be computable and the command-line tool run on the same file must exit non-zero with the Problem/Solution text on stderr. Also: NetCDF content faults, NUL characters in paths, 1100- and 3000-command chains and rings, and a sample of runs through the real console entry point in its own process.",
        note="Out of scope: non-UTF-8 command files, KeyboardInterrupt/MemoryError. The CLI's handling of SyntaxError is not specified by the property and not judged."),
    "C01": dict(
        level="exploration", design="5/C01",
        technique="event recorder at the execute()/Command.result boundary with an online life-cycle automaton and offline exactly-once / finished-before-use / fed-value checkers over the log; injective probe-library reference evaluation; post-run histories",
        text="Every generated program (all 4-command DAG shapes x textual orders x reference styles, random DAGs up to 14 probe commands with repeated, list and nested-list references, string parameters colliding with result names, None-returning sinks; random EEMS models) is run with per-instance execute wrappers and a recording Command.result. The log must show exactly one enter/exit per command, reads only of finished results carrying the value execute returned, final values equal to the graph evaluation, and zero executions during a random history of further run()/result/metadata/to_string/validate_params calls. Also: typed consumers of non-array results, NetCDF models, several programs per process with shared result names, and a recording contract on the flattening of nested reference lists.",
        note="Trusted: the harness probe library and recorder. Many programs share one process (registry and parameter objects are process-global), so cross-program leakage is observable."),
    "C14": dict(
        level="fault_enumeration", design="5/C14",
        technique="enumeration of cyclic labelled digraphs (all on <=4 commands in the thorough tier, sampled in quick; random on 5-8) with an outcome recorder around Program.run, cause-chain inspection and a Command.run depth counter",
        text="Each cyclic program (self-loops, 2-cycles, longer cycles, tails, separate acyclic parts; references direct, in lists, in nested lists; probe and real EEMS commands; shuffled order) must make run() raise RecursiveModelStructure: a normal return, any other error, a RecursionError in the cause chain or a run depth beyond the command count is a violation. Commands referencing the same result twice, one-argument-per-line layout and forward-reference-free order are included.",
        note="Whether commands outside the cycle ran before the rejection, and the error's line, are not judged."),
    "C20": dict(
        level="exploration", design="5/C20",
        technique="icontract postconditions and snapshot-based purity conditions attached to every Parameter.clean from the harness (recording, evaluation-counted), exception-class monitor, repeat/idempotence monitors; matrix workload plus live contracts during whole-model runs",
        text="Every parameter class and configuration is driven with ~130 raw values of every kind the parser or API delivers, with and without a working directory: the cleaned value must have the documented type, only ProgramError may be raised, a second clean and a clean of the cleaned value must give equal results, and deep snapshots of the raw value and of the program must be unchanged. The same contracts stay attached while random models are loaded and run (through from_source and through add_command), where the recorder pairs the pipeline's two cleanings of each argument. The same parameter object is re-used by a second program with another working directory; finished producers of convertible non-array results are offered to typed result parameters, and the program snapshot includes finished results.",
        note="Trusted: icontract, the harness's statement of documented types. Don't-care list in the evidence assumptions."),
    "C02": dict(
        level="exploration", design="5/C02",
        technique="postcondition evaluated at every execute() exit inside running models (independent reference model applied to the inputs the command actually received; reads compared with the written table) + metamorphic monitors over command permutations, metadata and extra-consumer variants",
        text="Random well-typed EEMS models over all built-in data commands are loaded from source and run with a per-node postcondition; every model is re-run reversed, under random permutations, with Metadata attached and with extra Copy/PrintVars consumers, and every shared result must be bit-identical. A coverage ledger makes the run inconclusive if any built-in data command never had its postcondition evaluated. A quarter of the models read from and write to NetCDF datasets (grids of rank 1-3); result names come from a small pool shared across programs (including names differing only in case); every model is re-run over a changed table written to the same path.",
        note="Trusted: reference models, recorder. Nodes whose reference is undefined (constant arrays, zero spread, equal thresholds) are don't-care; their consumers are still judged on what they received."),
    "C15": dict(
        level="exploration", design="5/C15",
        technique="round-trip monitor: structural comparison (cleaned values, references by name, floats bit-exact, metadata) of P and from_source(P.to_string()), result comparison after running both, second-generation structural fixpoint",
        text="Programs over a harness command with one parameter of every kind (strings with quotes, backslashes, delimiters, '#', non-ASCII, edge blanks, control characters; huge ints, exponent-form floats, -0.0; booleans; lists, nested lists; references by name and by Command object; tuples; metadata), built from source and through add_command, and random EEMS models, must survive serialise -> load with the same structure and the same results. Half of the programs contain forward references; to_file (by path and by file object) must write exactly to_string().",
        note="Not judged: text layout, key order of tuples/metadata, type objects and NaN/inf as values."),
    "C16": dict(
        level="exploration", design="5/C16",
        technique="existence monitor over the 25 EEMS 2.0 names + differential monitor: 2.0 text vs the harness's own translation, both loaded and run (outcome class, program structure, results)",
        text="Every 2.0 name must resolve to an existing command in the CSV or NetCDF set (all 25 x 8 naming/argument forms), and random EEMS models written in 2.0 syntax (bare and 'Result =' forms, NewFieldName / InFieldName naming, OutFileName present or not, mixed with MPilot-style commands, all layouts) must load to the same program and compute the same results as the harness's translation. Two known findings (SCORERANGEBENEFIT / SCORERANGECOST). Argument order in the 2.0 text is shuffled, and a third of the loads follow an earlier 2.0 load with a restricted library set.",
        note="The harness's name table restates the mapping by meaning. Don't-care: 2.0 commands without any usable name, OutFileName on MPilot-style commands inside a 2.0 file."),
    "C17": dict(
        level="exploration", design="5/C17",
        technique="reference comparison of EEMSRead results with harness-written tables (bit-exact), other-column independence monitor, error-line monitor, written-file monitor parsed with the csv module, read-after-write monitor",
        text="Tables with hostile doubles (subnormals, extremes, -0.0, values one ulp from the missing value), int64, headers needing CSV quoting, blank lines, LF/CRLF and every missing-value situation are written by the harness and read through the real command; written files are parsed independently; written-then-read arrays must be bit-identical. Files are rewritten under the same path and re-read by a new program; headers include quoted line breaks and form feeds.",
        note="Don't-care: text of missing cells in written files, fractional cells read as Integer, NaN/inf, rows too short to hold the requested column."),
    "C18": dict(
        level="exploration", design="5/C18",
        technique="reference comparison of NetCDF EEMSRead results with variables written directly through netCDF4 for every DataType x MissingValue combination; write-then-read monitor (shape, kind, values, union mask) and template-copy monitor",
        text="Variables of f8/f4/i8/i4/i2 with and without _FillValue are read under every DataType x MissingValue combination and compared with what the file holds (element kind, values, mask = fill cells + cells equal to the missing value, positive / fuzzy checks); 1-4 results with any mix of dtypes and mask kinds are written together and read back (mask must be the union), and the template's dimension variables, coordinate values and attributes must be copied unchanged. Sequences: each result is written again alone after a joint write; the same template file is used with a second template variable; valid cells within 5e-9..0.05 of the missing value stay valid.",
        note="Trusted: netCDF4. Not judged: ties when rounding to integer, the width of the fuzzy tolerance band, compression settings."),
    "C19": dict(
        level="exploration", design="5/C19",
        technique="differential history monitor: Program.command_library (name -> module, probe behaviour) after a random in-process history vs the same probe in a clean process; one fresh subprocess per history",
        text="For probes over prefix-related user libraries, packages and the built-in sets, random histories of earlier Program constructions, imports, Command subclass definitions (in __main__, named like built-ins, under prefix-related module names) and model runs must not change what the probe sees; libraries sharing a command name must fail at construction and disjoint ones must not. Targeted histories: the probe tuple itself constructed before, dotted library names against modules differing at the dot, packages with internal duplicates.",
        note="Class object identity is not compared. ~0.35 s per process bounds the number of histories."),
}

PENDING = {}


# additions of the fourth strengthening round, appended to the texts above
ROUND4 = {
    "C01": " Probe DAGs are also built through add_command with Command objects as references (also inside nested lists); the recorder is cross-checked with the log the probe commands write inside execute().",
    "C03": " Unsigned inputs, NaN / infinities stored underneath missing cells, CSV files whose missing marker is 0, and rasters of 1-2.1 million cells (mask = union of input masks, payload independence) are included.",
    "C04": " NaN may be stored underneath missing input cells; six producers are also run on rasters of 1-2.1 million cells (sizes that are and are not multiples of 2^20).",
    "C05": " Element-wise commands are also run on rasters of 1-2.1 million cells: shape postcondition and window-by-window agreement (values and missing cells) with the command run on the window alone.",
    "C06": " Rank-2/3 lattice cases are repeated with inputs held in Fortran-order, strided and negative-stride memory.",
    "C07": " The inputs are recorded before the call and a Sum over the same fields, evaluated after the command under test, must still match the reference; a tenth of the cases carry the optional Metadata argument.",
    "C08": " Category conversions are also driven with large adjacent integer codes and float codes a hair apart (a category is the cells equal to its raw value).",
    "C09": " Fields with NaN / infinite non-missing cells and rasters of 1-2.1 million cells are among the watched results.",
    "C10": " Comments glued to the preceding token are rendered; a fifth of the parse cases go through a Parser object that has parsed other (also malformed) texts before and must behave like a fresh one.",
    "C11": " Further fault classes: cyclic models with users of the cycle listed first (the line must be a cycle member's), library errors raised without a line from a non-leaf command (the line must stay absent or lie inside that command), undeclared parameters anywhere among the arguments.",
    "C12": " Incremental use: a model runs, a faulty command and a further writer are added through add_command, and the second run() must be rejected before anything executes or is written.",
    "C13": " Models whose result arguments are Command objects (the program's own, stand-alone finished commands, commands of another program) are built through add_command and run.",
    "C14": " In a share of the cases one member of the cycle is absent in a first, failing run, is then added through add_command, and the program is run again.",
    "C15": " to_file is also pointed at a path that already holds a longer command file.",
    "C16": " Half of the accepted files are loaded a second time in the same process and must translate to the same program.",
    "C17": " Rows that are longer or shorter than the header in columns other than the requested one must not influence the column read.",
    "C18": " The output path may already hold an older dataset (other coordinates, a same-named variable of another type, a stale variable), which must be replaced; a third of the templates have a packed coordinate variable (scale_factor / add_offset), compared unpacked and as stored.",
    "C19": " Probes include the empty selection, a library that subclasses a command of another requested library under the same name (must fail at construction) and a package whose __init__ defines a command (must not leak into a requested sub-module).",
    "C20": " Lists mixing equal values of different kinds are judged item by item; worlds with a relative and an empty working directory and with an unfinished command of a class without an output declaration are included (purity is demanded everywhere).",
}
for _k, _v in ROUND4.items():
    CHECKS[_k]["text"] = CHECKS[_k]["text"] + _v


ROUND56 = {
    "C01": " Further: intermediate results of 8-17 MB, a 210-deep chain in a recorder-free process, number arguments that clean to NaN, deep copies of finished programs, programs evaluated through their command objects only, boolean masks consumed by commands that demand data.",
    "C02": " Tables named through a symbolic link and '..', valid numbers next to the missing marker, offset data.",
    "C03": " Further: extreme payloads (1.8e308), NetCDF missing_value / valid_range marking, CSV re-reads with another marker, CSV tables of up to 140 000 rows, a later same-family command on other fields, a third of the invocations through Program.run().",
    "C04": " Cancelling weights over agreeing fields; the range re-checked on a deep copy of the finished model.",
    "C05": " Whole-array statistics on large rasters with no-data bands in reversed cell / row order, offset data, execute() called directly with the caller's own parameter objects, input files rearranged in place.",
    "C06": " Plain ndarrays among masked fields, weights as NumPy scalars, large-raster algebra, fields produced by real commands, evaluation inside a deep copy whose source fields were replaced.",
    "C07": " Weights as NumPy scalars, faults asked again, Program.run() path with extreme payloads.",
    "C08": " Offset data; parameters as NumPy scalars.",
    "C09": " File reads as sequence steps; copy / pickle of the program at the end of a sequence.",
    "C10": " Files over a user's command library loaded through Program.from_source (command classes, argument names and values compared with what was written; whitespace-only lines inside multi-line strings).",
    "C11": " The tool run repeatedly on one path whose content changes; faults of a user's command library (wrong actual output, Python exceptions with a lineno of their own).",
    "C12": " Errors are rendered inside the monitored window; subclasses of fuzzy commands from a user library; two programs built from the same argument objects; parameter names declared by related commands.",
    "C13": " Repeated argument names; 23 kinds of near-type values at 21 parameter sites through add_command.",
    "C14": " EEMS 2.0 self references, a second run() of rejected programs, iterable command objects.",
    "C15": " Non-composed Unicode, non-finite numbers, Path objects and NumPy numbers in API-built programs; the saved file reached through a symbolic link.",
    "C16": " Python keywords as names, 2.0 files through the tool under several file names, user-library commands inside 2.0 files, raw Windows paths, other library lists.",
    "C17": " Files of 8 192 - 70 000 lines, requested headers that nearly match an existing one, a fractional marker given as a NumPy scalar.",
    "C18": " Fuzzy pad, missing_value / valid_range marking, names differing in case, underscore attributes, other type-name spellings, written fuzzy results made by commands.",
    "C19": " A library importable only from a working directory; the command-line tool in histories and as part of every probe.",
    "C20": " NumPy-scalar / fraction raw values, decimals to BooleanParameter, the matrix inside a deep copy of the world, symlinked paths, raw arguments and serialised text unchanged by run().",
}
for _k, _v in ROUND56.items():
    CHECKS[_k]["text"] = CHECKS[_k]["text"] + _v


ROUND7 = {
    "C01": " Every read of a result is stamped with a digest of the value at that moment (readers must be fed what the producer returned); a failing command is entered once per run whatever it raises.",
    "C02": " A third of the models are rebuilt through add_command with number parameters as NumPy scalars of the same value; NetCDF models read a variable as fuzzy (cells inside the 1 % band are limited).",
    "C03": " PrintVars text of fields beyond 1000 cells compared between payloads; derived results holding the marker in a valid cell written and read back.",
    "C04": " Unsigned / narrow-integer crisp layers; one-layer lists of out-of-range layers.",
    "C05": " CSV tables of 1-3 rows; written NetCDF files compared between shapes.",
    "C06": " All-integer layers with whole-valued float weights; a result used again after it was written to NetCDF next to another field.",
    "C07": " Copies of fuzzy results and wide-integer results chained into arithmetic commands through Command.result; unsigned inputs.",
    "C08": " Narrow and unsigned integer fields for all conversions (default thresholds); the CSV writer fed an integer field first.",
    "C09": " A fuzzy producer holding NaN next to a real mask array.",
    "C10": " Dollar / brace / percent strings and oddly named EEMS 2.0 fields through Program.from_source.",
    "C11": " A second run after a runtime fault; arguments named twice on different lines.",
    "C12": " None values and blank-padded result names in the fault matrix; valid models with FF / VT / NEL / LS in comments through the tool.",
    "C13": " Nested lists given to scalar parameters (message rendered); paths that run through a regular file.",
    "C14": " Results on the cycle read before run(); cycle members holding injected results; cyclic files with an output tail through the tool.",
    "C15": " Non-string Metadata values through the API.",
    "C16": " Lines of translated commands compared with where the renderer put each command name.",
    "C17": " Headers holding braces / percent signs with every message rendered; a failed model repaired on disk and run again on the same objects.",
    "C18": " Integer markers beyond 2^53; the template's _FillValue used as ordinary data.",
    "C19": " The full text of 'command does not exist' for misspelt names is part of the compared snapshot; user commands named like EEMS 2.0 ones (but for case) in 2.0-style files.",
    "C20": " References to a command that failed clean as before it failed; data-type tables pinned at construction, NetCDF libraries loaded first in most worlds.",
}
for _k, _v in ROUND7.items():
    CHECKS[_k]["text"] = CHECKS[_k]["text"] + _v


ROUND8 = {
    "C01": " Two programs built from the very same argument lists; command objects of another program or of no program next to namesakes.",
    "C02": " Columns whose offset dwarfs their spread; a program run again after the file that made it fail was completed.",
    "C03": " NetCDF tables re-read with another number in the cells MissingValue declares missing; hard-masked fields; markers spelled as other tools write them.",
    "C04": " Z-score conversions of offset and constant fields.",
    "C06": " Fields as tuple / iterator / generator in direct execute(); fields handed over as command objects next to namesakes; source fields replaced before the run.",
    "C07": " Faults on commands without a program; fields handed over as program-less command objects; fields read from one CSV path rewritten for every case.",
    "C08": " Data-derived thresholds on rasters beyond 2^20 cells; number lists as tuples; lone outliers for the mean-to-mid curves.",
    "C10": " Key / value arguments in files loaded through Program.from_source.",
    "C11": " Tool runs on files with bare CR line ends; syntax errors whose offending token spans several lines.",
    "C12": " Histories over an input file that disappears and comes back; a program run again after a repaired failure; empty metadata lists.",
    "C13": " Rings closed through add_command; ratio texts and many-digit numbers.",
    "C14": " One-command programs that refer to themselves; the recursive-model error must not be a RecursionError.",
    "C15": " Undeclared arguments differing from declared ones in case only; keyword-like result names.",
    "C16": " Metadata on commands of translated files.",
    "C17": " Tables without rows; tables read and written through the command-line tool.",
    "C18": " File names relative to the working directory.",
    "C19": " Variants inheriting execute(); classes imported from a requested library through add_command; -l names ending in p / y.",
    "C20": " Snapshots with mask state; nested lists through an untyped list input in live runs.",
}
for _k, _v in ROUND8.items():
    CHECKS[_k]["text"] = CHECKS[_k]["text"] + _v


ROUND9 = {
    "C01": " (Ninth round: no change was needed.)",
    "C02": " NetCDF tables with cells the file itself marks missing; empty lines between CSV records.",
    "C03": " A read written next to another field and used again.",
    "C04": " CvtToFuzzy at the limits of double precision.",
    "C05": " A large variable stored as grid and as vector read with a frequent missing value; CSV tables with empty lines.",
    "C06": " A field without a valid cell; crisp fields made by CvtToFuzzyCat from whole numbers, then Not.",
    "C07": " Fields of rank 0; copies of complete fields (also plain arrays) divided.",
    "C10": " Commas where a list begins; non-ASCII twin files loaded one after the other; values with tabs delivered through the tool.",
    "C11": " Equal thresholds written out and left out.",
    "C12": " Bare True / False where numbers are declared; valid models through the tool started in the file's directory.",
    "C13": " The tool started in the file's directory by bare name and as ./name; messages of failures whose texts hold braces.",
    "C14": " Metadata in front of the references; rings of report commands.",
    "C15": " Brace and dollar strings; list values as tuples; saved strings delivered through the tool.",
    "C16": " Result-less commands under MPilot names; a column read under its own name given twice.",
    "C17": " Tables updated in place; refused writes; headers not in composed normal form; the tool started in the file's directory.",
    "C18": " Grids beyond 2^20 cells; the tool through a symbolic link; plain re-reads around every third read.",
    "C19": " Derived metaclasses; underscore modules of packages; exit status of valid CSV models run with -l.",
    "C20": " The root directory as working directory; large arrays cleaned before and after a model printed its variables.",
}
for _k, _v in ROUND9.items():
    CHECKS[_k]["text"] = CHECKS[_k]["text"] + _v


ROUND10 = {
    "C01": " Consumers removed before the run; a model that rewrites the table it reads with the writer listed first.",
    "C02": " Empty metadata lists; whole decimals written without a decimal point; axis names of NetCDF tables.",
    "C03": " Valid cells equal to NumPy's fill values in written files; weights that cancel.",
    "C04": " Valid cells equal to NumPy's fill values.",
    "C05": " Reads compared with the table in few-row models; NetCDF axes named lon / lat, x / y.",
    "C06": " Producers that inherit their fuzziness; the choice written in another letter case; operators in command files under both dialects.",
    "C07": " Command files over a reused table (empty metadata, a cell next to the marker); 16-bit NetCDF integers combined.",
    "C08": " Yes / no parameters written in a command file.",
    "C10": " Adjacent quoted strings; written order in files mixing both dialects.",
    "C11": " Faults evaluated through .result; fields of different lengths listed on separate lines.",
    "C12": " 200-character names; a referenced command removed after a run; faulty models through the tool.",
    "C13": " Edited programs run again; long number lists with one bad item.",
    "C14": " Far writers, the 2.0 layout under MPilot names, commands named True / False; a cyclic text that does not load is a failure.",
    "C15": " Commands replaced the documented way; nested lists in an untyped list input.",
    "C16": " A renaming READ next to a result of the old name.",
    "C17": " Column names with backslashes written in a command file; the tool through a linked command file.",
    "C18": " Fields of different rank in one write; packed variables; failed library checks through the tool.",
    "C19": " User commands named like 2.0 keywords; a libraries list extended later; the collection returned by get_commands emptied.",
    "C20": " The libraries' own parameter objects; empty metadata in live runs.",
}
for _k, _v in ROUND10.items():
    CHECKS[_k]["text"] = CHECKS[_k]["text"] + _v


ROUND11 = {
    "C02": " Whole-number columns whose products and weighted sums leave 32 bits.",
    "C03": " Missing markers with many digits through a written-out program; a single-precision marker.",
    "C04": " A later command of the same family over fields without a valid cell.",
    "C06": " Fields differing in unit axes; complete fuzzy inputs whose fill value occurs among the cells.",
    "C07": " Column-major fields; infinite cells in table data; two tables of different length in one program.",
    "C12": " Display names as command names; a missing input that some writer of the model produces; type names of the other reader.",
    "C13": " Bad NetCDF type names with the consumers written first; reversed fault models; syntax errors after lone CRs.",
    "C14": " List values given as tuples; a NetCDF field read as fuzzy in cyclic models.",
    "C17": " Numbers with a leading decimal point; tabs and quotes in names written in command files run through the tool.",
    "C18": " Non-ASCII names in command files; metadata named like NetCDF attributes; a dataset repaired after a failed run.",
    "C19": " A user module named like a built-in library given with -l; commands of the main module.",
    "C20": " Copies of fuzzy fields before and after the run; classes extending fuzzy commands; programs without commands.",
}
for _k, _v in ROUND11.items():
    CHECKS[_k]["text"] = CHECKS[_k]["text"] + _v


ROUND12 = {
    "C01": " Producers whose result is a generator, iterator, class, callable, empty or false value; the user's own classes named like stock commands given to add_command.",
    "C02": " Whole numbers beyond 2^53 cut by a whole threshold; a non-negative whole-number NetCDF read squared and taken off itself.",
    "C04": " Whole-number fuzzy layers at the ends of their type; finite layers near the end of the double range.",
    "C05": " Rank-3 fields stored with two axes swapped.",
    "C08": " Conversions built through the API with 17-digit numbers, written out, loaded and run.",
    "C09": " A second program with the same result names leaves the first program's results alone.",
    "C10": " Assignment-looking lines inside multi-line strings; top-down files keep their written order.",
    "C11": " Histories with parser objects built later.",
    "C15": " Multi-line DisplayName metadata.",
    "C16": " A column read twice under two names; models that are not well-typed stop alike on both routes.",
}
for _k, _v in ROUND12.items():
    CHECKS[_k]["text"] = CHECKS[_k]["text"] + _v


ROUND13 = {
    "C03": " Present cells holding an infinity; NetCDF cells a hair beside the marker.",
    "C06": " Tiny, many-digit and fractional weights over crisp layers; the weighted union in programs written out and loaded again.",
    "C07": " Column names differing in letter case or blanks only.",
    "C13": " Texts the parser refuses, through the tool.",
    "C14": " Rings of commands producing texts for path inputs; a conversion with an empty Direction beside the ring.",
    "C20": " Declared text / number outputs of commands that have not run; refused references given as names and as objects.",
}
for _k, _v in ROUND13.items():
    CHECKS[_k]["text"] = CHECKS[_k]["text"] + _v


def main():
    props = [json.loads(l) for l in open(os.path.join(VERIF, "properties.jsonl"))]
    checks = []
    na = []
    for p in props:
        pid = p["id"]
        if pid in CHECKS:
            c = CHECKS[pid]
            checks.append({
                "property_id": pid,
                "quick_cmd": "bin/check %s --tier quick" % pid,
                "thorough_cmd": "bin/check %s --tier thorough" % pid,
                "evidence_file": "evidence/%s.json" % pid,
                "replay_cmd_template": "bin/check %s --replay {path}" % pid,
                "engine": "mpv",
                "level_claimed": {"category": c["level"], "text": c["text"], "design_ref": "DESIGN.md section " + c["design"]},
                "level_note": c["note"],
                "technique": c["technique"],
            })
        else:
            na.append({"property_id": pid, "reason": PENDING.get(pid, "check not built yet in this work-in-progress commit; runtime monitoring applies (see DESIGN.md section 5) and the check will be registered when it is silent on the unchanged tree")})
    man = {
        "version": 1,
        "setup_cmd": "bin/setup",
        "hooks": {
            "guard": "MPILOT_VERIF",
            "enable": "no source hooks: monitors attach from the harness (wrappers on execute/result/clean, audit hooks, icontract); checks import /repo's working tree directly (MPILOT_REPO overrides the tree)",
            "baseline_off_cmd": "cd /repo && /venv/bin/python -m pytest -ra -q -p no:cacheprovider --timeout=900 tests",
            "source_commits": [],
            "add_only": True,
        },
        "engines": [{"name": "mpv", "path": "src/mpv", "serves_properties": sorted(CHECKS), "kind_free_text": "runtime monitors (event recorder, contracts, reference-model postconditions, metamorphic monitors) over generated workloads, sharded into fresh processes"}],
        "checks": checks,
        "not_applicable": na,
        "notes": "Exit 0 = held on everything explored; 1 = VIOLATION lines; 2 = INCONCLUSIVE (deciding monitor never reached). Known findings: KNOWN_FINDINGS.txt. Seeded breaking changes: seeded/. Randomness from VERIF_SEED.",
    }
    try:
        sys.path.insert(0, os.path.join(VERIF, ".deps"))
        import jsonschema
        jsonschema.validate(man, json.load(open(os.path.join(VERIF, "schemas", "MANIFEST.schema.json"))))
    except ImportError:
        pass
    with open(os.path.join(VERIF, "MANIFEST.json"), "w") as f:
        json.dump(man, f, indent=1)
        f.write("\n")
    print("MANIFEST.json:", len(checks), "checks,", len(na), "not claimed")


if __name__ == "__main__":
    main()
