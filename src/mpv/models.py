"""W-MODEL: random well-typed EEMS models over CSV tables, their rendering to command-file text (through the
syntax AST, so every W-SYNTAX layout applies), loading through the API, and an independent reference interpreter."""
import os
import random
from fractions import Fraction

from mpv import arr, cmdgen, ref, syntax


# ---------------------------------------------------------------- generation
def gen_table(rng, ncols=None, nrows=None, shape=None, exotic_names=True):
    if shape is not None:
        nrows = 1
        for e in shape:
            nrows *= e
    nrows = nrows or rng.randint(2, 14)
    ncols = ncols or rng.randint(1, 4)
    missing = rng.choice([None, -9999, -9999, 0, 99])
    cols = {}
    for i in range(ncols):
        integer = rng.random() < 0.5
        data = [arr.lattice_value(rng, integer=integer) for _ in range(nrows)]
        if missing is not None:
            for j in range(nrows):
                if rng.random() < 0.2:
                    data[j] = missing if integer else float(missing)
                elif not integer and rng.random() < 0.08:
                    # a valid number close to - but not equal to - the missing marker
                    data[j] = float(missing) + rng.choice([0.05, -0.05, 1e-9, -1e-9, 0.0009765625])
        if integer and rng.random() < 0.12:
            # whole numbers that fit 32 bits one by one while their products and weighted sums do not
            data = [v if (missing is not None and v == missing) else rng.choice([250000, 40000, 100000, 46341, 65536, 3, -70000, 2147483647]) for v in data]
        if not integer and rng.random() < 0.1:
            # values whose common offset is huge compared with their spread (Julian days, epoch seconds, UTM northings)
            base = rng.choice([2460000.0, 4000000.0, 1e8])
            data = [v if (missing is not None and v == missing) else base + rng.choice([-8, -3.5, -1, -0.25, 0, 0.5, 1, 2.75, 6, 11.125]) for v in data]
        # at least two distinct valid values
        valid = [v for v in data if missing is None or v != missing]
        if len(set(valid)) < 2:
            data[0] = 3 if integer else 3.5
            data[1 % nrows] = -2 if integer else -2.25
        cname = "X%d" % i
        if shape is None and i == 0 and exotic_names and rng.random() < 0.15:
            # a column header holding a character that str.splitlines() would break a line at (legal in a CSV header)
            cname = rng.choice(["X\x0c0", "X\x850", "X\u20280", "X\x0b0", "X 0", "X\x1c0"])
        cols[cname] = {"data": data, "integer": integer}
    t = {"cols": cols, "nrows": nrows, "missing": missing, "file": "in.csv"}
    if shape is None and rng.random() < 0.2:
        t["bare_whole"] = sorted(set(rng.randrange(nrows) for _ in range(rng.randint(1, 3))) | ({0} if rng.random() < 0.6 else set()))
    if shape is None and nrows >= 2 and rng.random() < 0.12:
        t["blank_before"] = sorted(set(rng.randint(1, nrows - 1) for _ in range(rng.randint(1, 2))))
    if shape is not None and cols and rng.random() < 0.6:
        # a non-negative column (NetCDF 'Positive *' reads)
        c0 = cols[sorted(cols)[0]]
        c0["data"] = [abs(v) if (missing is None or v != missing) else v for v in c0["data"]]
        if missing is not None and missing < 0:
            c0["data"] = [v if v != missing else 7 for v in c0["data"]]
    if shape is not None:
        t["shape"] = list(shape)
        t["file"] = "in.nc"
        if len(shape) >= 2 and rng.random() < 0.5:
            # dimension names are just names: the order of the axes is the order in which the variable is stored
            t["dimnames"] = (["time", "band", "t"][:len(shape) - 2] + rng.choice([["lon", "lat"], ["x", "y"], ["lat", "lon"], ["y", "x"], ["col", "row"]]))
        if rng.random() < 0.3:
            # cells the file itself marks missing (written masked: they hold the variable's fill value on disk), next to
            # whatever the MissingValue argument of a read declares missing
            for c in cols.values():
                idx = [j for j in range(nrows) if rng.random() < 0.2]
                if idx and len(idx) <= nrows - 2:
                    c["filemask"] = idx
    return t


def write_table(table, d):
    path = os.path.join(d, table["file"])
    if table["file"].endswith(".nc"):
        return write_table_nc(table, path)
    if table.get("via_symlink"):
        # the model names its table as "link/../<file>": `link` is a symbolic link to elsewhere/deep, so the operating system
        # finds the table in elsewhere/; a decoy of the same name (other numbers) sits next to the link
        os.makedirs(os.path.join(d, "elsewhere", "deep"), exist_ok=True)
        if not os.path.lexists(os.path.join(d, "link")):
            os.symlink(os.path.join(d, "elsewhere", "deep"), os.path.join(d, "link"))
        names = list(table["cols"])
        with open(path, "w") as f:
            f.write(",".join(names) + "\n")
            for r in range(table["nrows"]):
                f.write(",".join(repr(type(table["cols"][n]["data"][r])(31 + r)) for n in names) + "\n")
        path = os.path.join(d, "elsewhere", table["file"])
    names = list(table["cols"])
    notes = table.get("notes")
    with open(path, "w") as f:
        f.write(",".join(names) + (",note" if notes else "") + "\n")
        for r in range(table["nrows"]):
            if notes:
                # a text column at the end whose quoted fields may hold line breaks (one record, several physical lines)
                if r in (table.get("blank_before") or ()):
                    f.write("\n")
                f.write(",".join(_cell_text(table, table["cols"][n]["data"][r], r) for n in names) + ',"%s"\n' % notes[r % len(notes)])
                continue
            if r in (table.get("blank_before") or ()):
                f.write("\n")          # an empty line between two records (skipped by the reader)
            f.write(",".join(_cell_text(table, table["cols"][n]["data"][r], r) for n in names) + "\n")
    return path


def _cell_text(table, v, r):
    """A cell as text. Tables flagged `bare_whole` write whole decimals the way spreadsheets do (3 instead of 3.0), in the rows
    listed there."""
    if isinstance(v, float) and v == int(v) and abs(v) < 1e15 and r in (table.get("bare_whole") or ()):
        return str(int(v)) if v != 0 or str(v)[0] != "-" else "-0"
    return repr(v)


NAME_POOL = ["A", "a", "B", "b", "C", "D", "E", "F", "G", "H", "Slope", "slope", "Wet", "WET", "Fz", "fz", "Res", "Layer1", "Layer2", "T", "U", "V", "W", "Y", "Z", "k", "K", "m", "M",
             "yield", "class", "from", "pass", "lambda", "def"]       # Python keywords are ordinary result / field names in a command file


def write_table_nc(table, path):
    """The table as a NetCDF dataset: one variable per column over dimensions d0.. (with coordinate variables, so that the
    file can also serve as the dimension template of EEMSWrite)."""
    import numpy
    from netCDF4 import Dataset
    shape = tuple(table.get("shape") or [table["nrows"]])
    with Dataset(path, "w") as ds:
        dims = []
        dimnames = table.get("dimnames") or ["d%d" % i for i in range(len(shape))]
        for i, n in enumerate(shape):
            nm = dimnames[i]
            ds.createDimension(nm, n)
            v = ds.createVariable(nm, "f8", (nm,))
            v[:] = numpy.arange(n) * 10.0
            dims.append(nm)
        for name, c in table["cols"].items():
            v = ds.createVariable(name, "i8" if c["integer"] else "f8", tuple(dims))
            data = numpy.array(c["data"], dtype="int64" if c["integer"] else "float64")
            if c.get("filemask"):
                m = numpy.zeros(len(c["data"]), dtype=bool)
                m[c["filemask"]] = True
                v[:] = numpy.ma.array(data, mask=m).reshape(shape)
            else:
                v[:] = data.reshape(shape)
    return path


def gen_model(rng, n_ops=None, sinks=True, cmds=None, table=None, metadata=False, min_reads=1, pooled_names=True, libs="csv"):
    own_table = table is None
    if table is None:
        table = gen_table(rng) if libs == "csv" else gen_table(rng, shape=rng.choice([(rng.randint(2, 12),), (rng.randint(1, 4), rng.randint(2, 5)), (2, rng.randint(1, 3), rng.randint(1, 3))]))
    commands = []
    pool = {"nonfuzzy": [], "fuzzy": []}
    colvals = {}
    names = list(table["cols"])
    nreads = max(min_reads, rng.randint(1, len(names)))
    for i, col in enumerate(names[:nreads]):
        args = {"InFileName": table["file"], "InFieldName": col}
        if table["missing"] is not None:
            args["MissingVal" if libs == "csv" else "MissingValue"] = table["missing"]
        if table["cols"][col]["integer"]:
            args["DataType"] = "Integer"
        elif rng.random() < 0.5:
            args["DataType"] = "Float"
        if libs != "csv" and all(v >= 0 for v in table["cols"][col]["data"]) and rng.random() < 0.7:
            args["DataType"] = "Positive Integer" if table["cols"][col]["integer"] else "Positive Float"
        if libs == "csv" and rng.random() < 0.2:
            args["ReturnType"] = rng.choice(["Float", "Integer"])      # a declared (unused) parameter of the CSV reader
        rname = "In_X%d" % i
        commands.append({"result": rname, "cmd": "EEMSRead", "args": args})
        pool["nonfuzzy"].append(rname)
        colvals[rname] = [v for v in table["cols"][col]["data"] if v != table["missing"]]
    if libs != "csv" and own_table and rng.random() < 0.4:
        # a variable of fuzzy values read as such (DataType = "Fuzzy"): cells a little beyond -1 / +1, inside the 1 % band the
        # reader accepts, are limited to -1 / +1 by the read
        data = [rng.choice([-1.015625, -1.0078125, -1.0, -0.5, -0.25, 0.0, 0.25, 0.75, 1.0, 1.0125, 1.015625, 1.0009765625]) for _ in range(table["nrows"])]
        data[0], data[1 % len(data)] = rng.choice([1.0125, -1.015625, 0.5]), -0.25
        table["cols"]["FZ"] = {"data": data, "integer": False}
        commands.append({"result": "In_FZ", "cmd": "EEMSRead", "args": {"InFileName": table["file"], "InFieldName": "FZ", "DataType": "Fuzzy"}})
        pool["nonfuzzy"].append("In_FZ")      # (the reading command is not declared fuzzy: its result feeds non-fuzzy inputs)
        colvals["In_FZ"] = list(data)
    n_ops = n_ops if n_ops is not None else rng.randint(2, 12)
    choices = list(cmds or cmdgen.ALL)
    # result names come from a small pool shared by all models of the process (so the same name denotes different kinds of
    # results in successive programs) and contain pairs that differ only in letter case
    name_pool = [n for n in NAME_POOL]
    rng.shuffle(name_pool)
    for k in range(n_ops):
        usable = [c for c in choices if (c in arr.FUZZY_INPUT and pool["fuzzy"]) or (c not in arr.FUZZY_INPUT)]
        if not pool["fuzzy"] and rng.random() < 0.5:
            usable = [c for c in usable if c in arr.FUZZY_OUTPUT] or usable
        cmd = rng.choice(usable)
        src = pool["fuzzy"] if cmd in arr.FUZZY_INPUT else pool["nonfuzzy"]
        if cmd == "Copy" and pool["fuzzy"] and rng.random() < 0.5:
            src = pool["fuzzy"]     # "any data result may feed any data input of compatible fuzziness": Copy declares none
        style = arr.INPUT_STYLE[cmd]
        args = {}
        if style == "one":
            args["InFieldName"] = rng.choice(src)
            n_in, first = 1, args["InFieldName"]
        elif style == "ab":
            args["A"], args["B"] = rng.choice(src), rng.choice(src)
            n_in, first = 2, args["A"]
        else:
            n_in = rng.choice([1, 2, 2, 3, 4])
            if cmd == "FuzzyXOr":
                n_in = max(2, n_in)
            args["InFieldNames"] = [rng.choice(src) for _ in range(n_in)]
            first = args["InFieldNames"][0]
        args.update(cmdgen.gen_params(rng, cmd, n_in, colvals.get(first)))
        name = name_pool.pop() if (pooled_names and name_pool) else "%s_%d" % (cmd[:6], k)
        commands.append({"result": name, "cmd": cmd, "args": args})
        pool["fuzzy" if cmd in arr.FUZZY_OUTPUT else "nonfuzzy"].append(name)
    if sinks and rng.random() < 0.7:
        allres = pool["fuzzy"] + pool["nonfuzzy"]
        k = rng.randint(1, min(3, len(allres)))
        wargs = {"OutFileName": "out.csv" if libs == "csv" else "out.nc", "OutFieldNames": list(dict.fromkeys(rng.choice(allres) for _ in range(k)))}
        if libs != "csv":
            wargs.update({"DimensionFileName": table["file"], "DimensionFieldName": names[0]})
        commands.append({"result": "Out", "cmd": "EEMSWrite", "args": wargs})
    if sinks and rng.random() < 0.3:
        allres = pool["fuzzy"] + pool["nonfuzzy"]
        commands.append({"result": "Printed", "cmd": "PrintVars", "args": {"InFieldNames": [rng.choice(allres)], "OutFileName": "vars.txt"}})
    if metadata:
        for c in commands:
            if rng.random() < 0.4:
                c["args"]["Metadata"] = {"DisplayName": rng.choice(["Layer one", "x", "Slope (deg)", "form\x0cfeed", "nel\x85 ls\u2028 ps\u2029", "vt\x0b fs\x1c", 'q"uote', "back\\slash", "Distance to roads\n(metres)", "two lines\nR = Sum("]),
                                         "Color": rng.choice(["Blue", "#ff0000"])}
    m = {"table": table, "commands": commands}
    if libs != "csv":
        m["libs"] = "nc"
    return m


def model_libs(model):
    return arr.NC_LIBS if model.get("libs") == "nc" else arr.CSV_LIBS


def permuted(model, rng):
    m = dict(model)
    cmds = list(model["commands"])
    rng.shuffle(cmds)
    m["commands"] = cmds
    return m


# ---------------------------------------------------------------- rendering through the syntax AST
_kinds_cache = {}


def param_kinds(libs=arr.CSV_LIBS):
    """{command: {param: kind}} from the libraries' declarations."""
    key = tuple(libs)
    if key in _kinds_cache:
        return _kinds_cache[key]
    from mpilot import params as P
    prog = arr.new_program(libs)
    out = {}
    for name, cls in prog.command_library.items():
        d = {}
        for pname, p in cls.inputs.items():
            d[pname] = kind_of(p, P)
        out[name] = d
    _kinds_cache[key] = out
    return out


def kind_of(p, P):
    if isinstance(p, P.ResultParameter):
        return "result"
    if isinstance(p, P.ListParameter):
        return "list:" + kind_of(p.value_type, P)
    if isinstance(p, P.PathParameter):
        return "path"
    if isinstance(p, P.DataTypeParameter):
        return "datatype"
    if isinstance(p, P.StringParameter):
        return "string"
    if isinstance(p, P.NumberParameter):
        return "number"
    if isinstance(p, P.BooleanParameter):
        return "boolean"
    if isinstance(p, P.TupleParameter):
        return "tuple"
    return "any"


def number_ast(v):
    if isinstance(v, bool):
        return {"t": "ustr", "v": str(v), "cls": "word"}
    if isinstance(v, int):
        return {"t": "int", "v": v, "text": str(v)}
    return {"t": "float", "v": float(v), "text": repr(float(v))}


def value_ast(v, kind, rng=None):
    if kind == "result":
        return {"t": "ustr", "v": v, "cls": "word"}
    if kind.startswith("list:"):
        return {"t": "list", "items": [value_ast(x, kind[5:], rng) for x in v], "trail": bool(v) and rng is not None and rng.random() < 0.2}
    if kind in ("path", "string", "datatype"):
        q = '"' if rng is None else rng.choice(['"', "'"])
        if rng is not None and kind != "path" and syntax.IDENT.match(str(v)) and rng.random() < 0.4:
            return {"t": "ustr", "v": str(v), "cls": "word"}
        return {"t": "qstr", "v": str(v), "q": q}
    if kind == "number":
        return number_ast(v)
    if kind == "boolean":
        return {"t": "ustr", "v": "True" if v else "False", "cls": "word"}
    if kind == "tuple" and isinstance(v, list) and not v:
        return {"t": "list", "items": [], "trail": False}      # the empty metadata value is written []
    if kind == "tuple":
        return {"t": "tuple", "pairs": [[{"v": k, "q": '"'}, {"t": "qstr", "v": str(x), "q": '"'}] for k, x in v.items()], "trail": False}
    if isinstance(v, list):
        return {"t": "list", "items": [value_ast(x, "any", rng) for x in v], "trail": False}
    if isinstance(v, (int, float)):
        return number_ast(v)
    return {"t": "qstr", "v": str(v), "q": '"'}


def to_ast(model, rng=None, libs=None):
    libs = libs or model_libs(model)
    kinds = param_kinds(libs)
    cmds = []
    for c in model["commands"]:
        ks = kinds.get(c["cmd"], {})
        alias = c.get("kind_alias", {})
        args = [{"name": k, "value": c.get("raw_ast", {}).get(k) or value_ast(v, ks.get(alias.get(k, k), "any"), rng)} for k, v in c["args"].items()]
        cmds.append({"result": c["result"], "command": c["cmd"], "args": args, "trail": False})
    return {"commands": cmds}


def to_text(model, rng=None, style="canon", libs=None, **kw):
    ast = to_ast(model, rng, libs)
    text = syntax.render(ast, rng if style != "canon" else None, style, **kw)
    return text, ast


# ---------------------------------------------------------------- loading / running
def load(model, d, text=None, libs=None):
    """Program.from_source on the rendered model inside scratch dir d (the table is written there)."""
    from mpilot.program import Program
    libs = libs or model_libs(model)
    write_table(model["table"], d)
    if text is None:
        text, _ = to_text(model, libs=libs)
    return Program.from_source(text, libraries=libs, working_dir=d)


def build_api(model, d, libs=None, write=True):
    """The same model built through the programming interface (Program.add_command with Python values)."""
    import copy
    from mpilot.program import Program
    libs = libs or model_libs(model)
    if write:
        write_table(model["table"], d)
    prog = Program(libraries=libs, working_dir=d)
    for c in model["commands"]:
        cls = prog.find_command_class(c["cmd"])
        if cls is None:
            from mpilot.exceptions import CommandDoesNotExist
            raise CommandDoesNotExist(c["cmd"])      # what from_source does for an unknown name
        prog.add_command(cls, c["result"], copy.deepcopy(c["args"]))
    return prog


# ---------------------------------------------------------------- reference interpreter
class Poison(object):
    """Result of a node whose reference is undefined (don't-care) - and of everything downstream."""
    def __init__(self, why):
        self.why = why


def ref_eval(model):
    """{result name: (cells, scale) | Poison | None (non-data sink)} evaluated from the table alone."""
    table = model["table"]
    by_name = {c["result"]: c for c in model["commands"]}
    memo = {}

    def ev(name, stack=()):
        if name in memo:
            return memo[name]
        if name in stack:
            memo[name] = Poison("cycle")
            return memo[name]
        c = by_name[name]
        cmd, args = c["cmd"], c["args"]
        if cmd == "EEMSRead":
            col = table["cols"][args["InFieldName"]]
            integer = args.get("DataType") == "Integer"
            miss = args.get("MissingVal")
            cells = []
            for v in col["data"]:
                vv = int(v) if integer else float(v)
                cells.append(None if (miss is not None and vv == (int(miss) if integer else float(miss))) else Fraction(vv))
            memo[name] = (cells, 1.0)
            return memo[name]
        if cmd not in ref.MODELS:
            memo[name] = None
            return None
        style = arr.INPUT_STYLE[cmd]
        deps = [args["InFieldName"]] if style == "one" else [args["A"], args["B"]] if style == "ab" else list(args["InFieldNames"])
        ins = []
        for dname in deps:
            r = ev(dname, stack + (name,))
            if isinstance(r, Poison) or r is None:
                memo[name] = Poison("input %s undefined" % dname)
                return memo[name]
            ins.append(r[0])
        params = {k: v for k, v in args.items() if k not in ("InFieldName", "InFieldNames", "A", "B", "Metadata")}
        try:
            cells, scale = ref.MODELS[cmd](ins, params)
            # float-valued intermediate results: compare downstream with tolerance (cells stay exact when possible)
            memo[name] = ([None if v is None else (v if isinstance(v, Fraction) else Fraction(v)) for v in cells], scale)
        except ref.Undefined as e:
            memo[name] = Poison(str(e))
        except (ZeroDivisionError, OverflowError, ValueError) as e:
            memo[name] = Poison("reference arithmetic: %s" % type(e).__name__)
        return memo[name]

    for c in model["commands"]:
        ev(c["result"])
    return memo


def deps_of(c):
    a = c["args"]
    style = arr.INPUT_STYLE.get(c["cmd"])
    if c["cmd"] == "EEMSWrite":
        return list(a["OutFieldNames"])
    if c["cmd"] == "PrintVars":
        return list(a["InFieldNames"])
    if style == "one":
        return [a["InFieldName"]]
    if style == "ab":
        return [a["A"], a["B"]]
    if style == "list":
        return list(a["InFieldNames"])
    return []
