"""C01 - every command executes exactly once, fed by its finished dependencies.

Monitors: execute-boundary recorder (per-instance wrappers) and Command.result read recorder; an online life-cycle automaton
per command instance NEW -enter-> RUNNING -exit-> FINISHED; offline checkers over the event log: exactly one enter/exit pair
per command, every read returns the value the target's execute returned and completes after that execute exited, every final
value equals the reference evaluation of the dependency graph (injective nested tuples of the probe library), and the
post-run history (run(), result reads, metadata, to_string(), validate_params) adds zero execute events.
"""
import itertools
import os
import random

import numpy

from mpv import arr, models, trace

ANCHORS = ['mpilot/program.py:Program.run', 'mpilot/commands.py:Command.result', 'mpilot/commands.py:Command.run', 'mpilot/params.py:ResultParameter.clean', 'mpilot/params.py:ListParameter.clean', 'mpilot/utils.py:flatten']   # repository functions the workload must enter (reported as anchors_reached / anchors_missed)
LEVEL = "exploration"
RULE = ("(i) all 64 edge subsets of the 4-node topological order x 24 textual orders x 3 reference styles (quick: 1 in 6); (ii) random DAGs "
        "of 1-14 probe commands (fan-in <=5, repeated references, list / nested-list references, string parameters that collide with "
        "result names, side-effect-only sinks returning None, forward references), several programs per process; (iii) random EEMS models; "
        "each followed by a random history of 0-8 run()/result/metadata/to_string/validate_params steps; distinct by (n, edge count, "
        "styles used, has-sink, has-colliding-strings, history step kinds)")
REQUIRED_COUNTERS = ["user_classes_named_like_stock_commands", "odd_result_programs", "edited_programs_run", "foreign_reference_programs", "programs_run", "execute_events", "read_events", "history_steps", "reference_values_compared", "flatten_contract_evaluations", "retry_programs", "grown_programs", "api_built_programs", "inside_execute_records_compared", "large_result_programs", "deep_chain_programs", "program_copies_checked", "programs_evaluated_through_their_commands_only"]
EXHAUSTIVE_NOTE = "thorough tier enumerates all 64 x 24 x 3 four-command programs"
ASSUMPTIONS = ["a chain of %d direct references must run under the default recursion limit (the pinned tree manages about 330; deeper chains are left to C13: whatever happens there must be an MPilot error)" % 210,
               "programs that fail to run are judged elsewhere (C12-C14) unless the program is valid by construction",
               "the order in which independent commands run is not judged", "equality, not identity, of fed values is demanded"]


_flat = {"evals": 0, "bad": []}


def prepare(ctx):
    """Recording contract on the flattening of nested reference lists (the name bound in mpilot.program)."""
    try:
        import mpilot.program as MP
        orig = MP.flatten
    except Exception:
        return

    def own(li):
        out = []
        for x in li:
            if isinstance(x, (list, tuple)):
                out.extend(own(x))
            else:
                out.append(x)
        return out

    def flatten(li):
        got = list(orig(li))
        _flat["evals"] += 1
        want = own(li)
        if len(got) != len(want) or any(a is not b for a, b in zip(got, want)):
            _flat["bad"].append((repr(li)[:200], repr(got)[:200]))
        return iter(got)

    MP.flatten = flatten


def finish(ctx):
    ctx.count("flatten_contract_evaluations", _flat["evals"])
    if _flat["bad"]:
        ctx.fail("contract:flatten-is-not-depth-first-flattening", {"input": _flat["bad"][0][0], "got": _flat["bad"][0][1]}, {"kind": "contract"})


# ---------------------------------------------------------------- abstract DAG programs over vprobe
def gen_dag(rng, n=None, flaky=False):
    n = n or rng.randint(1, 14)
    nodes = []
    for i in range(n):
        name = "N%d" % i
        if i > 0 and rng.random() < 0.06:
            nodes.append({"name": name, "kind": "BoolSrc", "V": rng.randint(0, 9)})      # a boolean mask: data, though not numeric
            continue
        if i == 0 or rng.random() < 0.2:
            nodes.append({"name": name, "kind": "Src", "V": rng.randint(0, 10 ** 6)})
            if rng.random() < 0.15:
                nodes[-1]["Q"] = rng.choice(["nan", "inf", "-inf", "1e999", "2.5", "0"])
            continue
        prev = ["N%d" % j for j in range(i)]
        nums = [nd["name"] for nd in nodes if nd["kind"] == "Num"]
        if rng.random() < 0.1:
            nodes.append({"name": name, "kind": "Num", "V": rng.choice([5, 7, 12, 2.5])})
            continue
        if nums and rng.random() < 0.2:
            node = {"name": name, "kind": "TypedOp"}
            for k in rng.sample(["S", "N", "Any"], rng.randint(1, 3)):
                node[k] = rng.choice(nums)
            if rng.random() < 0.4:
                node["LS"] = [rng.choice(nums) for _ in range(rng.randint(1, 2))]
            nodes.append(node)
            continue
        if rng.random() < 0.12:
            nodes.append({"name": name, "kind": "Sink", "L": [rng.choice(prev) for _ in range(rng.randint(1, 3))]})
            continue
        if flaky and not any(nd["kind"] == "Flaky" for nd in nodes) and rng.random() < 0.35:
            nodes.append({"name": name, "kind": "Flaky", "L": [rng.choice(prev) for _ in range(rng.randint(0, 2))]})
            continue
        node = {"name": name, "kind": "Op"}
        k = rng.randint(1, 5)
        refs = [rng.choice(prev) for _ in range(k)]
        style = rng.choice(["direct", "list", "nested", "mixed", "mixed"])
        if style == "direct":
            node["A"] = refs[0]
            if k > 1:
                node["B"] = refs[1]
            if k > 2:
                node["L"] = refs[2:]
        elif style == "list":
            node["L"] = refs
        elif style == "nested":
            if rng.random() < 0.5:
                node["LL"] = [refs[:1], refs[1:]] if k > 1 else [refs]
            else:
                node["N3"] = [[refs[:1]], [refs[1:]]] if k > 1 else [[refs]]
        else:
            node["A"] = refs[0]
            if k > 1:
                node["L"] = [refs[1], refs[1]] if rng.random() < 0.3 else refs[1:2]
            if k > 2:
                node["LL"] = [refs[2:], []] if rng.random() < 0.3 else [refs[2:]]
        if rng.random() < 0.25:
            node["Tag"] = rng.choice(prev + [name, "N%d" % (n - 1), "free text"])
        if rng.random() < 0.25:
            node["Labels"] = [rng.choice(["Low", "High", "N%d" % rng.randrange(n), "N%d" % (n - 1)]) for _ in range(rng.randint(1, 3))]
        if rng.random() < 0.12:
            # numbers that do not enter the result, written as text the number parameter converts (also not-a-number / infinite)
            node["Q"] = rng.choice(["nan", "inf", "-inf", "1e999", "2.5", "0"])
        if rng.random() < 0.08:
            node["QL"] = [rng.choice(["nan", "1", "0.5", "inf"]) for _ in range(rng.randint(1, 3))]
        nodes.append(node)
    # every boolean mask gets consumers that declare they need data (several of them: the producer is validated again by
    # each consumer that comes after it has finished)
    k = len(nodes)
    for nd in [x for x in nodes if x["kind"] == "BoolSrc"]:
        for _ in range(rng.randint(2, 3)):
            nodes.append({"name": "N%d" % k, "kind": "DataOp", "D": nd["name"]} if rng.random() < 0.6 else {"name": "N%d" % k, "kind": "DataOp", "LD": [nd["name"], nd["name"]]})
            k += 1
    return nodes


def four_node(edges, style):
    nodes = []
    for i in range(4):
        refs = ["N%d" % j for (j, k) in edges if k == i]
        name = "N%d" % i
        if not refs:
            nodes.append({"name": name, "kind": "Src", "V": 100 + i})
        elif style == 0:
            node = {"name": name, "kind": "Op", "A": refs[0]}
            if len(refs) > 1:
                node["B"] = refs[1]
            if len(refs) > 2:
                node["L"] = refs[2:]
            nodes.append(node)
        elif style == 1:
            nodes.append({"name": name, "kind": "Op", "L": refs})
        else:
            nodes.append({"name": name, "kind": "Op", "LL": [refs[:1], refs[1:]]})
    return nodes


def _fmt(v):
    if isinstance(v, list):
        return "[" + ", ".join(_fmt(x) for x in v) + "]"
    return str(v)


def to_text(nodes, order):
    lines = []
    for i in order:
        nd = nodes[i]
        if nd["kind"] == "Src":
            lines.append("%s = Src(V = %d%s)" % (nd["name"], nd["V"], ", Q = %s" % nd["Q"] if "Q" in nd else ""))
        elif nd["kind"] == "BoolSrc":
            lines.append("%s = BoolSrc(V = %d)" % (nd["name"], nd["V"]))
        elif nd["kind"] == "DataOp":
            lines.append("%s = DataOp(%s)" % (nd["name"], "D = %s" % nd["D"] if "D" in nd else "LD = %s" % _fmt(nd["LD"])))
        elif nd["kind"] == "Sink":
            lines.append("%s = Sink(L = %s)" % (nd["name"], _fmt(nd["L"])))
        elif nd["kind"] == "Flaky":
            lines.append("%s = Flaky(L = %s%s)" % (nd["name"], _fmt(nd["L"]), ', Metadata = [DisplayName: "flaky input"]' if len(nd["L"]) % 2 == 0 else ""))
        elif nd["kind"] == "Num":
            lines.append("%s = Num(V = %s)" % (nd["name"], nd["V"]))
        elif nd["kind"] == "TypedOp":
            lines.append("%s = TypedOp(%s)" % (nd["name"], ", ".join("%s = %s" % (k, _fmt(nd[k])) for k in ("S", "N", "LS", "Any") if k in nd)))
        else:
            args = []
            for k in ("A", "B", "L", "LL", "N3"):
                if k in nd:
                    args.append("%s = %s" % (k, _fmt(nd[k])))
            if "Tag" in nd:
                args.append('Tag = "%s"' % nd["Tag"])
            if "Labels" in nd:
                args.append("Labels = [%s]" % ", ".join('"%s"' % x if " " in x else x for x in nd["Labels"]))
            if "Q" in nd:
                args.append("Q = %s" % nd["Q"])
            if "QL" in nd:
                args.append("QL = [%s]" % ", ".join(nd["QL"]))
            lines.append("%s = Op(%s)" % (nd["name"], ", ".join(args)))
    return "\n".join(lines)


def reference(nodes):
    by = {nd["name"]: nd for nd in nodes}
    memo = {}

    def val(name):
        if name not in memo:
            nd = by[name]
            if nd["kind"] == "Src":
                memo[name] = ("src", name, nd["V"])
            elif nd["kind"] == "BoolSrc":
                memo[name] = ("bools", (True, False, bool(nd["V"] % 2)))
            elif nd["kind"] == "DataOp":
                memo[name] = ("dataop", name, (("D", val(nd["D"])),) if "D" in nd else (("LD", deep(nd["LD"])),))
            elif nd["kind"] == "Sink":
                memo[name] = None
            elif nd["kind"] == "Flaky":
                memo[name] = ("flaky", name, (("L", deep(nd["L"])),))
            elif nd["kind"] == "Num":
                memo[name] = nd["V"]
            elif nd["kind"] == "TypedOp":
                kw = {}
                for k in ("S", "N", "Any"):
                    if k in nd:
                        kw[k] = val(nd[k])
                if "LS" in nd:
                    kw["LS"] = deep(nd["LS"])
                memo[name] = ("typed", name, tuple((k, kw[k]) for k in sorted(kw)))
            else:
                kw = {}
                for k in ("A", "B"):
                    if k in nd:
                        kw[k] = val(nd[k])
                for k in ("L", "LL", "N3"):
                    if k in nd:
                        kw[k] = deep(nd[k])
                if "Tag" in nd:
                    kw["Tag"] = nd["Tag"]
                if "Labels" in nd:
                    kw["Labels"] = tuple(nd["Labels"])
                memo[name] = ("op", name, tuple((k, kw[k]) for k in sorted(kw)))
        return memo[name]

    def deep(x):
        if isinstance(x, list):
            return tuple(deep(i) for i in x)
        return val(x)

    for nd in nodes:
        val(nd["name"])
    return memo


def cases(ctx):
    rng = ctx.rng("cases")
    idx = 0
    pairs = [(a, b) for a in range(4) for b in range(a + 1, 4)]
    for mask in range(64):
        edges = [pairs[i] for i in range(6) if mask >> i & 1]
        for order in itertools.permutations(range(4)):
            for style in range(3):
                if ctx.mine(idx) and (not ctx.quick or (idx // ctx.nshards) % 6 == 0):
                    yield {"kind": "dag", "nodes": four_node(edges, style), "order": list(order), "history": _gen_history(rng, 4), "exhaustive": True}
                idx += 1
    for i in range(ctx.n(700, 40000)):
        nodes = gen_dag(rng)
        order = list(range(len(nodes)))
        rng.shuffle(order)
        yield {"kind": "dag", "nodes": nodes, "order": order, "history": _gen_history(rng, len(nodes))}
    for i in range(ctx.n(150, 8000)):
        nodes = gen_dag(rng, n=rng.randint(3, 10), flaky=True)
        if not any(nd["kind"] == "Flaky" for nd in nodes):
            continue
        order = list(range(len(nodes)))
        rng.shuffle(order)
        yield {"kind": "retry", "nodes": nodes, "order": order, "history": _gen_history(rng, len(nodes))}
    for i in range(ctx.n(150, 8000)):
        nodes = gen_dag(rng, n=rng.randint(2, 8))
        order = list(range(len(nodes)))
        rng.shuffle(order)
        extra = []
        for k in range(rng.randint(1, 3)):
            extra.append({"name": "X%d" % k, "kind": "Op", "L": [rng.choice([nd["name"] for nd in nodes] + [e["name"] for e in extra]) for _ in range(rng.randint(1, 3))]})
        yield {"kind": "grow", "nodes": nodes, "order": order, "extra": extra, "history": _gen_history(rng, len(nodes))}
    for i in range(ctx.n(200, 10000)):
        # the same kind of program built through add_command, references given as result names or as Command objects
        nodes = gen_dag(rng, n=rng.randint(2, 10))
        yield {"kind": "apidag", "nodes": nodes, "history": _gen_history(rng, len(nodes)), "rseed": rng.randrange(10 ** 9)}
    for i in range(ctx.n(12, 300)):
        yield {"kind": "shadow", "which": ["Sum", "Copy", "EEMSRead"][(i + ctx.shard) % 3], "order": rng.sample(range(4), 4), "twice": rng.random() < 0.5, "stock_first": rng.random() < 0.5}
    ODD = ["generator", "generator-function-call", "iterator", "map", "dict", "callable", "class", "empty-list", "empty-tuple", "zero", "empty-string", "false",
           "command-class", "exception-object", "file-like", "none"]
    for i in range(ctx.n(32, 800)):
        ks = [ODD[(i * ctx.nshards + ctx.shard + j * 5) % len(ODD)] for j in range(rng.randint(1, 3))]
        yield {"kind": "oddresult", "kinds": ks, "consumer": rng.choice(["A", "L", "both"]), "reverse": rng.random() < 0.5, "api": rng.random() < 0.4, "read_first": rng.random() < 0.3}
    # results of tens of megabytes (a raster of more than a million float64 cells) as intermediate results
    for i in range(ctx.n(2, 12)):
        k = rng.randint(3, 6)
        nodes = [{"name": "B0", "Cells": rng.choice([2 ** 20 + 1, 1200000, 2 ** 21])}]
        for j in range(1, k):
            nodes.append({"name": "B%d" % j, "Cells": nodes[0]["Cells"], "L": sorted(set(rng.choice(["B%d" % x for x in range(j)]) for _ in range(rng.randint(1, 2))))})
        order = list(range(k))
        rng.shuffle(order)
        yield {"kind": "bigdag", "nodes": nodes, "order": order, "history": [[rng.choice(["read", "read", "run", "copy"]), rng.randrange(k)] for _ in range(rng.randint(2, 5))]}
    # a long chain of direct references (each command reads its predecessor), in a process of its own without any recorder
    for i in range(ctx.n(1, 4)):
        yield {"kind": "chain", "depth": DEEP_CHAIN, "rseed": rng.randrange(10 ** 9), "style": "direct"}
    # programs built through add_command from argument objects shared with another program, and with command objects that are
    # not this program's own (another program's command of the same name, a stand-alone finished command)
    for i in range(ctx.n(40, 2400)):
        yield {"kind": "foreign", "rseed": rng.randrange(10 ** 9), "variant": i % 4}
    for i in range(ctx.n(40, 2400)):
        yield {"kind": "edited", "rseed": rng.randrange(10 ** 9), "variant": i % 3}
    for i in range(ctx.n(250, 12000)):
        m = models.gen_model(rng, n_ops=rng.randint(1, 10), sinks=True, metadata=rng.random() < 0.3, libs="nc" if i % 3 == 0 else "csv")
        m = models.permuted(m, rng)
        yield {"kind": "eems", "model": m, "history": _gen_history(rng, len(m["commands"]))}


def _gen_history(rng, n):
    steps = []
    for _ in range(rng.choice([0, 1, 2, 3, 5, 8])):
        k = rng.choice(["run", "run", "read", "read", "read", "metadata", "to_string", "validate", "copy"])
        steps.append([k, rng.randrange(n)])
    return steps


def _nb(v):
    """Boolean masks spelled out (probe results are compared with ==)."""
    return ("bools", tuple(bool(x) for x in v)) if isinstance(v, numpy.ndarray) and v.dtype == bool else v


# ---------------------------------------------------------------- offline checkers
def _veq(a, b):
    if isinstance(a, numpy.ndarray) or isinstance(b, numpy.ndarray):
        return isinstance(a, numpy.ndarray) and isinstance(b, numpy.ndarray) and arr.digest(a) == arr.digest(b)
    return a == b


def check_log(ctx, log, names, tag, case_detail):
    """Exactly-once + life-cycle automaton + finished-before-use over one event log. Returns {name: returned value}."""
    state = {}
    returned = {}
    produced_digest = {}
    for e in log:
        k = e["k"]
        if k == "exec_enter":
            ctx.count("execute_events")
            st = state.get(e["name"], "NEW")
            if st != "NEW":
                ctx.fail("%s:lifecycle:%s-entered-again" % (tag, st.lower()), dict(case_detail, command=e["name"], seq=e["seq"]))
                return None
            state[e["name"]] = "RUNNING"
        elif k == "exec_exit":
            if state.get(e["name"]) != "RUNNING":
                ctx.fail("%s:lifecycle:exit-without-enter" % tag, dict(case_detail, command=e["name"]))
                return None
            state[e["name"]] = "FINISHED"
            returned[e["name"]] = e["value"]
            produced_digest[e["name"]] = e.get("vdigest")
        elif k == "exec_raise":
            state[e["name"]] = "FAILED"
        elif k == "read_done":
            ctx.count("read_events")
            tgt = e["target"]
            if tgt in names:
                if state.get(tgt) != "FINISHED":
                    ctx.fail("%s:read-before-finished" % tag, dict(case_detail, reader=e["reader"], target=tgt, target_state=state.get(tgt, "NEW")))
                    return None
                if e.get("vdigest") is not None and produced_digest.get(tgt) is not None and e["vdigest"] != produced_digest[tgt]:
                    # the array handed to this reader is not what the producer returned when it finished (altered in between)
                    ctx.fail("%s:reader-fed-a-result-altered-after-it-was-produced" % tag, dict(case_detail, reader=e["reader"], target=tgt))
                    return None
                if not _veq(e["value"], returned.get(tgt)):
                    ctx.fail("%s:reader-fed-wrong-value" % tag, dict(case_detail, reader=e["reader"], target=tgt, got=repr(e["value"])[:200], want=repr(returned.get(tgt))[:200]))
                    return None
    for n in names:
        if state.get(n, "NEW") != "FINISHED":
            ctx.fail("%s:not-executed-by-run" % tag, dict(case_detail, command=n, state=state.get(n, "NEW"), executed=sorted(state)))
            return None
    return returned


def run_history(ctx, prog, names, returned, history, tag, case_detail):
    """Post-run history: nothing may execute, every re-read equals the first value."""
    kinds = []
    for kind, i in history:
        name = names[i % len(names)]
        cmd = prog.commands[name]
        log = trace.start()
        try:
            if kind == "run":
                prog.run()
            elif kind == "read":
                v = cmd.result
                if not _veq(v, returned[name]):
                    ctx.fail("%s:history:re-read-differs" % tag, dict(case_detail, command=name, got=repr(v)[:200], want=repr(returned[name])[:200]))
            elif kind == "metadata":
                cmd.metadata
            elif kind == "copy":
                # a deep copy of the program that has run: its results are there (equal to the original's), reading them
                # executes nothing, and a run of the copy has nothing left to do
                trace.stop()
                clone = trace.clone_program(prog)
                log = trace.start()
                trace.attach(clone)
                for n2 in names:
                    v2 = clone.commands[n2].result
                    if not _veq(v2, returned[n2]):
                        ctx.fail("%s:history:copy-of-the-program-holds-another-result" % tag, dict(case_detail, command=n2, got=repr(v2)[:200], want=repr(returned[n2])[:200]))
                        return kinds
                clone.run()
                ctx.count("program_copies_checked")
            elif kind == "to_string":
                prog.to_string()
            else:
                cmd.validate_params({a.name: a.value for a in cmd.arguments})
        except Exception as e:
            trace.stop()
            ctx.fail("%s:history:%s-raises-%s" % (tag, kind, type(e).__name__), dict(case_detail, command=name, error=repr(e)[:200]))
            return kinds
        finally:
            trace.stop()
        ctx.count("history_steps")
        kinds.append(kind)
        execs = [e["name"] for e in log if e["k"] == "exec_enter"]
        if execs:
            ctx.fail("%s:history:%s-executes-again" % (tag, kind), dict(case_detail, step=kind, on=name, executed=execs[:6],
                                                                         returns_none=[n for n in execs if returned.get(n) is None][:3]))
            return kinds
    return kinds


def run_oddresult(ctx, case):
    """Whatever object a command's execute() returns is its result: consumers and readers get that very object, and every
    command still executes exactly once."""
    import vprobe
    from mpilot.program import Program
    ks = case["kinds"]
    lines = ['P%d = OddSrc(K = "%s")' % (i, k) for i, k in enumerate(ks)]
    names = ["P%d" % i for i in range(len(ks))]
    cons = []
    if case["consumer"] in ("A", "both"):
        cons.append("CA = OddOp(A = %s)" % names[0])
    if case["consumer"] in ("L", "both"):
        cons.append("CL = OddOp(L = [%s])" % ", ".join(names + names[:1]))
    lines = (cons + lines) if case["reverse"] else (lines + cons)
    text = "\n".join(lines)
    ctx.feature(("oddresult", tuple(ks), case["consumer"], case["reverse"], case["api"], case["read_first"]))
    del vprobe.EXEC_LOG[:]
    vprobe.ODD_PRODUCED.clear()
    vprobe.ODD_RECEIVED.clear()
    try:
        prog = Program.from_source(text, libraries=("vprobe",))
        if case["api"]:
            built = Program(libraries=("vprobe",))
            for name, c in prog.commands.items():
                built.add_command(type(c), name, {a.name: a.value for a in c.arguments})
            prog = built
        if case["read_first"]:
            prog.commands[names[-1]].result
        prog.run()
    except Exception as e:
        ctx.fail("oddresult:raises-%s:%s" % (type(e).__name__, ks[0]), {"error": repr(e)[:200], "text": text})
        return
    ctx.count("programs_run")
    ctx.count("odd_result_programs")
    log = list(vprobe.EXEC_LOG)
    want_names = names + [c.split(" ")[0] for c in cons]
    if sorted(log) != sorted(want_names):
        ctx.fail("oddresult:not-exactly-once:%s" % ks[0], {"executed": log, "commands": want_names, "text": text})
        return
    for i, nm in enumerate(names):
        ctx.count("reference_values_compared")
        if prog.commands[nm].result is not vprobe.ODD_PRODUCED.get(nm):
            ctx.fail("oddresult:result-is-not-what-execute-returned:%s" % ks[i], {"result": repr(prog.commands[nm].result)[:80], "returned": repr(vprobe.ODD_PRODUCED.get(nm))[:80], "text": text})
            return
    for cname, got in vprobe.ODD_RECEIVED.items():
        for src, obj in got:
            ctx.count("reference_values_compared")
            if obj is not vprobe.ODD_PRODUCED.get(src):
                ctx.fail("oddresult:consumer-fed-something-else:%s" % ks[names.index(src)], {"consumer": cname, "producer": src, "got": repr(obj)[:80], "returned": repr(vprobe.ODD_PRODUCED.get(src))[:80], "text": text})
                return


def run_shadow(ctx, case):
    """A class of the user's own that carries the name of a stock command, handed to add_command: that class is the command
    that is added and it executes exactly once."""
    import vshadow
    from mpilot.program import Program
    from mpilot.libraries.eems import basic
    which = case["which"]
    cls = getattr(vshadow, which)
    steps = [(vshadow.ShadowField, "First", {"Values": [1, 2, 3]}), (vshadow.ShadowField, "Second", {"Values": [10, 20, 30]})]
    if which == "Sum":
        steps.append((cls, "Total", {"InFieldNames": ["First", "Second"]}))
    elif which == "Copy":
        steps.append((cls, "Total", {"InFieldName": "Second"}))
    else:
        steps.append((cls, "Total", {"InFieldName": "whatever"}))
    steps.append((basic.AMinusB, "Rest", {"A": "Total", "B": "First"}))
    steps = [steps[i] for i in case["order"]]
    ctx.feature(("shadow", which, tuple(case["order"]), case["twice"], case["stock_first"]))
    del vshadow.EXEC_LOG[:]
    try:
        if case["stock_first"]:
            Program().find_command_class(which)
        prog = Program()
        for c, name, args in steps:
            prog.add_command(c, name, args)
        prog.run()
        if case["twice"]:
            prog.run()
        for c in prog.commands.values():
            c.result
    except Exception as e:
        ctx.fail("shadow:raises-%s:%s" % (type(e).__name__, which), {"error": repr(e)[:200]})
        return
    ctx.count("programs_run")
    ctx.count("user_classes_named_like_stock_commands")
    if type(prog.commands["Total"]) is not cls:
        ctx.fail("shadow:another-class-was-added:%s" % which, {"given": "%s.%s" % (cls.__module__, cls.__name__), "added": "%s.%s" % (type(prog.commands["Total"]).__module__, type(prog.commands["Total"]).__name__)})
        return
    if sorted(vshadow.EXEC_LOG) != ["First", "Second", "Total"]:
        ctx.fail("shadow:not-exactly-once:%s" % which, {"executed": list(vshadow.EXEC_LOG)})


def run_case(ctx, case):
    if case.get("kind") == "shadow":
        return run_shadow(ctx, case)
    if case.get("kind") == "oddresult":
        return run_oddresult(ctx, case)
    from mpilot.program import Program
    if case["kind"] == "contract":
        return
    if case["kind"] == "eems":
        return run_eems(ctx, case)
    if case["kind"] == "retry":
        return run_retry(ctx, case)
    if case["kind"] == "grow":
        return run_grow(ctx, case)
    if case["kind"] == "bigdag":
        return run_bigdag(ctx, case)
    if case["kind"] == "chain":
        return run_chain(ctx, case)
    if case["kind"] == "foreign":
        return run_foreign(ctx, case)
    if case["kind"] == "edited":
        return run_edited(ctx, case)
    nodes = case["nodes"]
    names = [nd["name"] for nd in nodes]
    import vprobe
    if case["kind"] == "apidag":
        text = to_text(nodes, list(range(len(nodes))))
        detail = {"text": text, "built_through": "add_command"}
        ctx.count("programs_run")
        ctx.count("api_built_programs")
        prng = random.Random(case["rseed"])
        try:
            prog = Program(libraries=("vprobe",))

            def refv(x):
                if isinstance(x, list):
                    return [refv(i) for i in x]
                return prog.commands[x] if prng.random() < 0.6 else x      # the Command object itself, or its result name

            for nd in nodes:                 # generated in dependency order
                args = {}
                for k, v in nd.items():
                    if k in ("name", "kind"):
                        continue
                    args[k] = refv(v) if k in ("A", "B", "L", "LL", "N3", "S", "N", "LS", "Any", "D", "LD") else (list(v) if isinstance(v, list) else v)
                prog.add_command(prog.find_command_class(nd["kind"]), nd["name"], args)
        except Exception as e:
            ctx.fail("dag:valid-program-does-not-load:%s" % type(e).__name__, dict(detail, error=repr(e)[:200]))
            return
    else:
        text = to_text(nodes, case["order"])
        detail = {"text": text}
        ctx.count("programs_run")
        try:
            prog = Program.from_source(text, libraries=("vprobe",))
        except Exception as e:
            ctx.fail("dag:valid-program-does-not-load:%s" % type(e).__name__, dict(detail, error=repr(e)[:200]))
            return
    del vprobe.EXEC_LOG[:]
    log = trace.start()
    trace.attach(prog)
    err = None
    orphan = case["kind"] == "dag" and not case.get("exhaustive") and len(text) % 9 == 0
    try:
        if orphan:
            # a helper built the model and handed back only its commands: the Program object itself is gone by the time the
            # results are asked for
            import gc
            ctx.count("programs_evaluated_through_their_commands_only")
            cmds = prog.commands
            del prog
            gc.collect()
            for n_ in names:
                cmds[n_].result
            prog = cmds[names[0]].program if cmds[names[0]].program is not None else None
            if prog is None:
                raise RuntimeError("command lost its program")
        else:
            prog.run()
    except Exception as e:
        err = e
    finally:
        trace.stop()
    if err is not None:
        ctx.fail("dag:valid-program-does-not-run:%s%s" % (type(err).__name__, ":program-object-dropped-by-the-caller" if orphan else ""), dict(detail, error=str(err)[:300]))
        return
    returned = check_log(ctx, log, set(names), "dag", detail)
    if returned is None:
        return
    want = reference(nodes)
    ctx.count("reference_values_compared", len(names))
    for n in names:
        got = _nb(prog.commands[n]._result) if prog.commands[n].is_finished else "<unfinished>"
        if got != want[n] or _nb(returned[n]) != want[n]:
            ctx.fail("dag:value-differs-from-graph-evaluation", dict(detail, command=n, got=repr(got)[:300], want=repr(want[n])[:300]))
            return
    kinds = run_history(ctx, prog, names, returned, case["history"], "dag", detail)
    # the commands' own record of their executions (written inside execute(), so it also sees instances the recorder never
    # wrapped): exactly one entry per command of the program, and consumers were handed the program's own command objects
    ctx.count("inside_execute_records_compared")
    inside = list(vprobe.EXEC_LOG)
    if sorted(inside) != sorted(names):
        from collections import Counter
        cnt = Counter(inside)
        ctx.fail("dag:execute-ran-%s-according-to-the-commands-themselves" % ("more-than-once" if any(v > 1 for v in cnt.values()) else "not-for-every-command"),
                 dict(detail, executions={n: cnt.get(n, 0) for n in names if cnt.get(n, 0) != 1}))
        return
    for e in log:
        if e["k"] == "exec_enter":
            stack = [e["kw"]]
            while stack:
                x = stack.pop()
                if isinstance(x, dict) and "ref" in x:
                    if x["ref"] in prog.commands and x["obj"] != id(prog.commands[x["ref"]]):
                        ctx.fail("dag:consumer-handed-a-command-object-that-is-not-the-program's", dict(detail, consumer=e["name"], reference=x["ref"]))
                        return
                elif isinstance(x, dict):
                    stack.extend(x.values())
                elif isinstance(x, list):
                    stack.extend(x)
    styles = tuple(sorted(set(k for nd in nodes for k in nd if k in ("A", "B", "L", "LL", "N3", "Tag", "Labels"))))
    ctx.feature((len(nodes), sum(1 for e in log if e["k"] == "read_done"), styles, any(nd["kind"] == "Sink" for nd in nodes), tuple(sorted(set(kinds)))))
    if len(ctx.samples) < 4 and len(nodes) >= 4 and case["history"]:
        ctx.sample({"text": text, "events": len(log), "executes": [e["name"] for e in log if e["k"] == "exec_enter"], "history": case["history"]})


DEEP_CHAIN = 210     # the pinned tree runs chains of about 330 direct references under the default recursion limit


def run_foreign(ctx, case):
    from mpilot.program import Program
    from mpilot.commands import Command
    import vprobe
    rng = random.Random(case["rseed"])
    n = rng.randint(2, 4)
    names = rng.sample(["S0", "S1", "Elev", "E", "a", "A", "Slope"], n)
    ctx.count("programs_run", 2)
    ctx.count("foreign_reference_programs")
    ctx.feature(("foreign", case["variant"], n))
    if case["variant"] in (0, 1):
        # two programs from the very same list objects (a module-level list of field names)
        shared = {"L": list(names), "LL": [[names[0]], list(reversed(names))], "A": names[-1]}
        before = repr(shared)
        results = []
        for base in (1, 100):
            p = Program(libraries=("vprobe",))
            for k, nm in enumerate(names):
                p.add_command(p.find_command_class("Src"), nm, {"V": base + k})
            p.add_command(p.find_command_class("Op"), "C", {"L": shared["L"], "LL": shared["LL"], "A": shared["A"]} if case["variant"] == 0 else {"L": shared["L"]})
            del vprobe.EXEC_LOG[:]
            try:
                p.run()
            except Exception as e:
                ctx.fail("shared-argument-lists:valid-program-does-not-run:%s" % type(e).__name__, {"error": str(e)[:200], "program": "second" if base == 100 else "first"})
                return
            if sorted(vprobe.EXEC_LOG) != sorted(names + ["C"]):
                ctx.fail("shared-argument-lists:execute-ran-not-once-per-command", {"executed": list(vprobe.EXEC_LOG), "program": "second" if base == 100 else "first"})
                return
            src = {nm: ("src", nm, base + k) for k, nm in enumerate(names)}
            kw = {"L": tuple(src[x] for x in shared_names(names, "L"))}
            if case["variant"] == 0:
                kw.update({"LL": ((src[names[0]],), tuple(src[x] for x in reversed(names))), "A": src[names[-1]]})
            want = ("op", "C", tuple((k_, kw[k_]) for k_ in sorted(kw)))
            ctx.count("reference_values_compared")
            if p.commands["C"]._result != want:
                ctx.fail("shared-argument-lists:consumer-fed-by-another-program", {"program": "second" if base == 100 else "first", "got": repr(p.commands["C"]._result)[:300], "want": repr(want)[:300]})
                return
        if repr(shared) != before:
            ctx.fail("shared-argument-lists:caller's-lists-altered", {"before": before, "after": repr(shared)[:300]})
        return
    # command objects that are not the consuming program's own
    other = Program(libraries=("vprobe",))
    other.add_command(other.find_command_class("Src"), names[0], {"V": 987654})
    foreign = other.commands[names[0]]
    lone = Command(names[1] if case["variant"] == 3 else "Lone", [], program=None)
    lone.is_finished, lone._result = True, ("lone", 42)
    p = Program(libraries=("vprobe",))
    for k, nm in enumerate(names):
        p.add_command(p.find_command_class("Src"), nm, {"V": 5 + k})
    try:
        p.add_command(p.find_command_class("Op"), "C", {"A": foreign, "L": [lone, foreign, names[0]], "B": lone})
        p.run()
    except Exception as e:
        ctx.fail("foreign-command-object:valid-program-does-not-run:%s" % type(e).__name__, {"error": str(e)[:200], "lone_named_like_a_command_of_the_program": case["variant"] == 3})
        return
    f, l_, own = ("src", names[0], 987654), ("lone", 42), ("src", names[0], 5)
    want = ("op", "C", (("A", f), ("B", l_), ("L", (l_, f, own))))
    ctx.count("reference_values_compared")
    if p.commands["C"]._result != want:
        ctx.fail("foreign-command-object:consumer-fed-by-a-namesake-instead-of-the-object-given", {"got": repr(p.commands["C"]._result)[:300], "want": repr(want)[:300]})


def shared_names(names, key):
    return list(names)


def run_bigdag(ctx, case):
    from mpilot.program import Program
    import vprobe
    nodes = case["nodes"]
    names = [nd["name"] for nd in nodes]
    text = "\n".join("%s = Big(Cells = %d%s)" % (nodes[i]["name"], nodes[i]["Cells"], ", L = [%s]" % ", ".join(nodes[i]["L"]) if nodes[i].get("L") else "") for i in case["order"])
    detail = {"text": text}
    ctx.count("programs_run")
    ctx.count("large_result_programs")
    prog = Program.from_source(text, libraries=("vprobe",))
    del vprobe.EXEC_LOG[:]
    log = trace.start()
    trace.attach(prog)
    try:
        prog.run()
    except Exception as e:
        trace.stop()
        ctx.fail("dag:valid-program-does-not-run:%s" % type(e).__name__, dict(detail, error=str(e)[:300]))
        return
    finally:
        trace.stop()
    returned = check_log(ctx, log, set(names), "dag", detail)
    if returned is None:
        return
    kinds = run_history(ctx, prog, names, returned, case["history"], "dag:large-results", detail)
    if sorted(vprobe.EXEC_LOG) != sorted(names):
        from collections import Counter
        cnt = Counter(vprobe.EXEC_LOG)
        ctx.fail("dag:large-results:execute-ran-again-according-to-the-commands-themselves", dict(detail, executions={n: cnt.get(n, 0) for n in names if cnt.get(n, 0) != 1}))
    ctx.feature(("bigdag", len(nodes), tuple(sorted(set(kinds)))))


CHAIN_SCRIPT = r"""
import sys, json, random
sys.path[:0] = %(path)r
from mpilot.program import Program
from mpilot import params
from mpilot.commands import Command
LOG = []
class Lnk(Command):
    inputs = {"A": params.ResultParameter(required=False)}
    output = params.DataParameter()
    def execute(self, **kwargs):
        LOG.append(self.result_name)
        a = kwargs.get("A")
        return 1 if a is None else a.result + 1
n, seed = %(n)d, %(seed)d
lines = ["N0 = Lnk()"] + ["N%%d = Lnk(A = N%%d)" %% (i, i - 1) for i in range(1, n)]
random.Random(seed).shuffle(lines)
out = {}
try:
    p = Program.from_source("\n".join(lines), libraries=("__main__",))
    p.run()
    out["outcome"] = "ok" if p.commands["N%%d" %% (n - 1)].result == n else "wrong-value"
    out["unfinished"] = [k for k, c in p.commands.items() if not c.is_finished][:5]
except BaseException as e:
    out["outcome"] = type(e).__name__ + ("/" + type(getattr(e, "exc", None)).__name__ if hasattr(e, "exc") else "")
from collections import Counter
cnt = Counter(LOG)
out["not_once"] = {k: cnt.get("N%%d" %% k, 0) for k in range(n) if cnt.get("N%%d" %% k, 0) != 1}
print("CHAINRESULT " + json.dumps(out))
"""


def run_chain(ctx, case):
    import json
    import os
    import subprocess
    import sys
    script = CHAIN_SCRIPT % {"path": [p for p in sys.path if p], "n": case["depth"], "seed": case["rseed"]}
    try:
        r = subprocess.run([sys.executable, "-c", script], capture_output=True, text=True, timeout=300, env=dict(os.environ))
    except subprocess.TimeoutExpired:
        ctx.note_inconclusive("deep-chain child timed out")
        return
    res = None
    for ln in r.stdout.splitlines():
        if ln.startswith("CHAINRESULT "):
            res = json.loads(ln[len("CHAINRESULT "):])
    if res is None:
        ctx.note_inconclusive("deep-chain child failed: %s" % (r.stderr or r.stdout)[-300:])
        return
    ctx.count("programs_run")
    ctx.count("deep_chain_programs")
    ctx.count("execute_events", case["depth"])
    ctx.feature(("chain", case["depth"], case["style"]))
    if res["outcome"] != "ok":
        ctx.fail("chain:%d-commands-deep-does-not-run:%s" % (case["depth"], res["outcome"]), {"depth": case["depth"], "style": case["style"], "executed_other_than_once": len(res["not_once"])})
    elif res["not_once"] or res.get("unfinished"):
        ctx.fail("chain:commands-not-executed-exactly-once", {"depth": case["depth"], "examples": dict(list(res["not_once"].items())[:5]), "unfinished": res.get("unfinished")})


def run_eems(ctx, case):
    model = case["model"]
    d = ctx.scratch()
    names = [c["result"] for c in model["commands"]]
    detail = {"commands": [(c["result"], c["cmd"]) for c in model["commands"]]}
    ctx.count("programs_run")
    try:
        prog = models.load(model, d)
    except Exception as e:
        ctx.fail("eems:valid-model-does-not-load:%s" % type(e).__name__, dict(detail, error=repr(e)[:200]))
        return
    log = trace.start()
    trace.attach(prog)
    err = None
    try:
        prog.run()
    except Exception as e:
        err = e
    finally:
        trace.stop()
    if err is not None:
        from mpilot.exceptions import RecursiveModelStructure
        if isinstance(err, RecursiveModelStructure):
            ctx.fail("eems:acyclic-model-rejected-as-recursive", detail)
        else:
            ctx.dontcare("eems model raised %s (value-dependent)" % type(err).__name__)
        return
    returned = check_log(ctx, log, set(names), "eems", detail)
    if returned is None:
        return
    kinds = run_history(ctx, prog, names, returned, case["history"], "eems", detail)
    ctx.feature(("eems", len(names), tuple(sorted(set(kinds)))))


def run_edited(ctx, case):
    """Programs edited the documented way before they are run (a consumer removed with del program.commands[name]), and a
    model that rewrites the table it reads with the writer listed first: every command of the program executes exactly once,
    fed by finished dependencies."""
    import vprobe
    from mpilot.program import Program
    rng = random.Random(case["rseed"])
    if case["variant"] < 2:
        n = rng.randint(3, 7)
        prog = Program(libraries=("vprobe",))
        names = []
        for i in range(n):
            nm = "N%d" % i
            if i < 2 or rng.random() < 0.3:
                prog.add_command(prog.find_command_class("Src"), nm, {"V": i})
            else:
                prog.add_command(prog.find_command_class("Op"), nm, {"L": rng.sample(names, rng.randint(1, min(3, len(names))))})
            names.append(nm)
        # consumers that are removed again before the run (direct consumers of the sources among them)
        extra = []
        for k in range(rng.randint(1, 3)):
            nm = "X%d" % k
            prog.add_command(prog.find_command_class("Op"), nm, {"A": names[k % 2], "L": [rng.choice(names)]})
            extra.append(nm)
        if case["variant"] == 1:
            prog.add_command(prog.find_command_class("Sink"), "S", {"L": [extra[0]]})
            extra.append("S")
        for nm in reversed(extra):
            del prog.commands[nm]
        ctx.count("programs_run")
        ctx.count("edited_programs_run")
        ctx.feature(("edited", case["variant"], n, len(extra)))
        del vprobe.EXEC_LOG[:]
        try:
            prog.run()
        except Exception as e:
            ctx.fail("edited:valid-program-does-not-run:%s" % type(e).__name__, {"error": str(e)[:200]})
            return
        from collections import Counter
        cnt = Counter(vprobe.EXEC_LOG)
        bad = {nm: cnt.get(nm, 0) for nm in names if cnt.get(nm, 0) != 1}
        if bad or any(nm in cnt for nm in extra):
            ctx.fail("edited:consumer-removed-before-the-run:%s" % ("not-executed-by-run" if any(v == 0 for v in bad.values()) else "executed-more-than-once" if bad else "removed-command-executed"), {"executions": bad, "removed": extra})
        return
    # the table a model reads is the table it writes; the writer stands first in the file
    d = ctx.scratch()
    with open(os.path.join(d, "table.csv"), "w") as f:
        f.write("a,b\n1,10\n2,20\n3,30\n")
    text = ('Out = EEMSWrite(OutFileName = "table.csv", OutFieldNames = [T, A])\nT = Sum(InFieldNames = [A, B])\n'
            'A = EEMSRead(InFileName = "table.csv", InFieldName = a)\nB = EEMSRead(InFileName = "table.csv", InFieldName = b)\n')
    ctx.count("programs_run")
    ctx.count("edited_programs_run")
    ctx.feature(("edited", "in-place-table"))
    try:
        prog = Program.from_source(text, working_dir=d)
        log = trace.start()
        trace.attach(prog)
        try:
            prog.run()
        finally:
            trace.stop()
    except Exception as e:
        ctx.fail("in-place-table:valid-model-does-not-run:%s" % type(e).__name__, {"error": str(e)[:200], "file_now": open(os.path.join(d, "table.csv")).read()[:80]})
        return
    if check_log(ctx, log, {"Out", "T", "A", "B"}, "in-place-table", {"text": text}) is None:
        return
    got = open(os.path.join(d, "table.csv")).read().split()
    if got[:1] != ["T,A"] or len(got) != 4:
        ctx.fail("in-place-table:file-not-rewritten-from-the-values-read", {"file": got[:5]})


def run_retry(ctx, case):
    """A run in which one command fails, the cause is repaired, and the program is run again: afterwards every command has
    executed successfully exactly once (what finished in the first run is not executed again), with the values of the graph."""
    from mpilot.program import Program
    import vprobe
    nodes = case["nodes"]
    text = to_text(nodes, case["order"])
    names = [nd["name"] for nd in nodes]
    detail = {"text": text}
    ctx.count("programs_run")
    ctx.count("retry_programs")
    prog = Program.from_source(text, libraries=("vprobe",))
    vprobe.FLAKY["fail"] = True
    vprobe.FLAKY["exc"] = [IOError, TypeError, ValueError, KeyError][len(text) % 4]
    del vprobe.EXEC_LOG[:]
    log1 = trace.start()
    trace.attach(prog)
    err = None
    try:
        prog.run()
    except Exception as e:
        err = e
    finally:
        trace.stop()
        vprobe.FLAKY["fail"] = False
    from mpilot.exceptions import MPilotError
    if err is None or not isinstance(err, MPilotError):
        ctx.fail("retry:failing-command-not-reported", dict(detail, error=repr(err)[:200]))
        return
    flaky = [nd["name"] for nd in nodes if nd["kind"] == "Flaky"]
    entered = {n: vprobe.EXEC_LOG.count(n) for n in flaky if vprobe.EXEC_LOG.count(n) != 1 and n in vprobe.EXEC_LOG}
    if entered:
        ctx.fail("retry:failing-command-entered-more-than-once-in-one-run", dict(detail, executions=entered, raised=vprobe.FLAKY["exc"].__name__))
        return
    log2 = trace.start()
    try:
        prog.run()
    except Exception as e:
        trace.stop()
        ctx.fail("retry:second-run-fails-%s" % type(e).__name__, dict(detail, error=str(e)[:300]))
        return
    finally:
        trace.stop()
    ok1 = [e["name"] for e in log1 if e["k"] == "exec_exit"]
    ok2 = [e["name"] for e in log2 if e["k"] == "exec_exit"]
    ctx.count("execute_events", len(ok1) + len(ok2))
    for n in names:
        cnt = ok1.count(n) + ok2.count(n)
        if cnt != 1:
            ctx.fail("retry:%s" % ("never-executed-successfully" if cnt == 0 else "executed-again-after-finishing"),
                     dict(detail, command=n, successful_executions=cnt, kind=[nd["kind"] for nd in nodes if nd["name"] == n][0]))
            return
    want = reference(nodes)
    ctx.count("reference_values_compared", len(names))
    for n in names:
        c = prog.commands[n]
        if not c.is_finished or _nb(c._result) != want[n]:
            ctx.fail("retry:value-differs-from-graph-evaluation", dict(detail, command=n, got=repr(c._result)[:200], want=repr(want[n])[:200], finished=c.is_finished))
            return
    ctx.feature(("retry", len(nodes), len(ok1), len(ok2)))


def run_grow(ctx, case):
    """run(), then commands are added through add_command, then run() again: the new commands execute once, fed by the finished
    results of the old ones, and nothing old executes again."""
    from mpilot.program import Program
    nodes = case["nodes"]
    text = to_text(nodes, case["order"])
    names = [nd["name"] for nd in nodes]
    detail = {"text": text, "added": case["extra"]}
    ctx.count("programs_run")
    ctx.count("grown_programs")
    prog = Program.from_source(text, libraries=("vprobe",))
    log1 = trace.start()
    trace.attach(prog)
    try:
        prog.run()
    except Exception as e:
        trace.stop()
        ctx.fail("dag:valid-program-does-not-run:%s" % type(e).__name__, dict(detail, error=str(e)[:300]))
        return
    finally:
        trace.stop()
    cls = prog.find_command_class("Op")
    for e in case["extra"]:
        prog.add_command(cls, e["name"], {"L": list(e["L"])})
    log2 = trace.start()
    trace.attach(prog)
    try:
        prog.run()
    except Exception as e:
        trace.stop()
        ctx.fail("grow:run-after-add_command-fails-%s" % type(e).__name__, dict(detail, error=str(e)[:300]))
        return
    finally:
        trace.stop()
    ex2 = [e["name"] for e in log2 if e["k"] == "exec_enter"]
    ctx.count("execute_events", len(ex2))
    again = [n for n in ex2 if n in names]
    if again:
        ctx.fail("grow:old-command-executed-again", dict(detail, executed=again[:5]))
        return
    want = reference(nodes + case["extra"])
    for e in case["extra"]:
        c = prog.commands[e["name"]]
        if ex2.count(e["name"]) != 1 or not c.is_finished:
            ctx.fail("grow:added-command-not-executed-by-run", dict(detail, command=e["name"], executions=ex2.count(e["name"])))
            return
        if _nb(c._result) != want[e["name"]]:
            ctx.fail("grow:added-command-fed-wrong-values", dict(detail, command=e["name"], got=repr(c._result)[:200], want=repr(want[e["name"]])[:200]))
            return
    ctx.count("reference_values_compared", len(case["extra"]))
    ctx.feature(("grow", len(nodes), len(case["extra"])))
