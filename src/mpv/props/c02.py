"""C02 - model results equal the evaluation of the graph, whatever the file order.

Monitors: a postcondition evaluated at every execute() exit inside the running model: the returned array must match the
independent reference model of that command applied to the inputs the command *actually received* (so a deviation is localised
to the first command that deviates; by induction over the DAG, with C01, the whole model is then right); EEMSRead results are
compared with the table the harness wrote. Metamorphic monitors: the same model under k command permutations (always including
the reverse order = all forward references), with Metadata attached to random commands, and with extra consumers attached to
intermediate results must give bit-identical arrays for every shared result name.
"""
import copy
import random
from fractions import Fraction

import numpy

from mpv import arr, models, ref, trace, cmdgen

ANCHORS = ['mpilot/program.py:Program.from_source', 'mpilot/program.py:Program.run', 'mpilot/commands.py:Command.metadata', 'mpilot/libraries/eems/basic.py:Sum.execute', 'mpilot/libraries/eems/fuzzy.py:FuzzyOr.execute', 'mpilot/libraries/eems/csv/io.py:EEMSRead.execute']   # repository functions the workload must enter (reported as anchors_reached / anchors_missed)
LEVEL = "exploration"
RULE = ("random well-typed EEMS models (3-18 commands over all built-in data commands, CSV tables of 2-14 rows with int and float "
        "columns and missing cells; a ledger forces every command into the sample) x {original, reversed, k random permutations, "
        "metadata variant, extra-consumer variant}; distinct by (sorted command multiset up to 8, depth, max fan-out, table dtype mix, has-missing)")
SCRATCH_PER_CASE = True      # no directory is used beyond the case that asked for it
REQUIRED_COUNTERS = ["reruns_after_a_repaired_failure", "numpy_scalar_parameter_models", "fuzzy_reads_compared", "node_postconditions", "read_results_compared", "variant_runs", "shared_results_compared_bit_exact", "same_path_reruns", "netcdf_models", "csv_models", "eems2_histories"]


def post_merge(counters, tier):
    """Coverage ledger: a built-in data command whose postcondition never ran makes the check inconclusive, not silent."""
    missing = [c for c in cmdgen.ALL if counters.get("commands_covered:" + c, 0) == 0]
    return ["node postcondition never evaluated for: " + ", ".join(missing)] if missing else []

ASSUMPTIONS = ["reference models in mpv/ref.py; nodes whose reference is undefined are not judged (their consumers still are, on the inputs they received)",
               "result dtype is not judged; tolerance 1e-9 x scale against the exact-rational reference"]


def cases(ctx):
    rng = ctx.rng("cases")
    cmds = list(cmdgen.ALL)
    n = ctx.n(320, 16000)
    for i in range(n):
        forced = cmds[(i * ctx.nshards + ctx.shard) % len(cmds)]
        # ledger: `forced` is over-weighted so that every command occurs in the sample (checked by post_merge)
        m = models.gen_model(rng, n_ops=rng.randint(2, 14), sinks=rng.random() < 0.5, cmds=list(cmds) + [forced] * 8 + (["CvtToFuzzy"] * 4 if forced in arr.FUZZY_INPUT else []),
                             libs="nc" if i % 4 == 3 else "csv")
        if i % 4 == 3:
            # a column read as a non-negative whole number, squared and taken off itself: negative whole numbers, never a
            # wrap-around of an unsigned type
            pos = [c["result"] for c in m["commands"] if c["cmd"] == "EEMSRead" and c["args"].get("DataType") == "Positive Integer"]
            if pos:
                at = next(k for k, c in enumerate(m["commands"]) if c["cmd"] != "EEMSRead") if any(c["cmd"] != "EEMSRead" for c in m["commands"]) else len(m["commands"])
                m["commands"][at:at] = [{"result": "PosSq", "cmd": "Multiply", "args": {"InFieldNames": [pos[0], pos[0]]}},
                                        {"result": "PosDif", "cmd": "AMinusB", "args": {"A": pos[0], "B": "PosSq"}}]
        if i % 40 == 5:
            # whole numbers beyond 2^53 that the file holds exactly, cut by a whole threshold between two of them
            base = 2 ** rng.choice([53, 54, 60])
            step = base // 2 ** 52
            vals = [base - step, base, base + step, base + 2 * step, 7]
            rng.shuffle(vals)
            th = base + rng.choice([1, -1]) if step > 1 else base + 1
            m = {"table": {"cols": {"X0": {"data": vals, "integer": True}}, "nrows": len(vals), "missing": None, "file": "in.csv", "step": step},
                 "commands": [{"result": "In_X0", "cmd": "EEMSRead", "args": {"InFileName": "in.csv", "InFieldName": "X0", "DataType": "Integer"}},
                              {"result": "Low", "cmd": "CvtToBinary", "args": {"InFieldName": "In_X0", "Threshold": th, "Direction": "LowToHigh"}},
                              {"result": "High", "cmd": "CvtToBinary", "args": {"InFieldName": "In_X0", "Threshold": th, "Direction": "HighToLow"}},
                              {"result": "Either", "cmd": "FuzzyOr", "args": {"InFieldNames": ["Low", "High"]}}]}
        if i % 4 != 3 and i % 7 == 2:
            # the table is named through a symbolic link and "..": the file the operating system finds there is the input
            m["table"]["via_symlink"] = True
            for c in m["commands"]:
                if c["cmd"] == "EEMSRead":
                    c["args"]["InFileName"] = "link/../" + m["table"]["file"]
        yield {"model": m, "perms": 3 if ctx.quick else 8, "rseed": rng.randrange(10 ** 9)}


def _depth_fanout(model):
    by = {c["result"]: c for c in model["commands"]}
    memo = {}

    def depth(n):
        if n not in memo:
            memo[n] = 0
            memo[n] = 1 + max([depth(d) for d in models.deps_of(by[n]) if d in by] or [0])
        return memo[n]
    fan = {}
    for c in model["commands"]:
        for d in set(models.deps_of(c)):
            fan[d] = fan.get(d, 0) + 1
    return max(depth(n) for n in by), max(fan.values() or [0])


def _np_params(model, rng):
    """The model with number parameters handed over as NumPy scalars of the same value (what a caller taking them from an
    array passes to the programming interface). Returns (model, how many were converted)."""
    out = copy.deepcopy(model)
    n = [0]

    def conv(v):
        if isinstance(v, bool):
            return v
        if isinstance(v, float) and v == v and abs(v) < 1e30:
            for t in rng.sample([numpy.float32, numpy.float64], 2):      # (half precision is not offered: its arithmetic alone loses 1e-3)
                with numpy.errstate(all="ignore"):
                    if float(t(v)) == v:
                        n[0] += 1
                        return t(v)
        if isinstance(v, int) and abs(v) < 2 ** 31 and rng.random() < 0.5:
            n[0] += 1
            return rng.choice([numpy.int64, numpy.int32])(v)
        if isinstance(v, list):
            return [conv(x) for x in v]
        return v
    for c in out["commands"]:
        if c["cmd"] in ("EEMSRead", "EEMSWrite", "PrintVars"):
            continue
        for k, v in list(c["args"].items()):
            if k not in ("InFieldName", "InFieldNames", "A", "B", "Metadata", "OutFileName", "InFileName"):
                c["args"][k] = conv(v)
    return out, n[0]


def _run_variant(ctx, model, d, tag, check_nodes=True, built=None, rel=1e-9):
    """Loads and runs one textual variant with the node postcondition attached. Returns {name: array} or None."""
    by = {c["result"]: c for c in model["commands"]}
    failed = []

    def on_exit(cmd, value):
        c = by.get(cmd.result_name)
        if c is None or not check_nodes:
            return
        name = c["cmd"]
        if name == "EEMSRead":
            col = model["table"]["cols"][c["args"]["InFieldName"]]
            integer = c["args"].get("DataType") in ("Integer", "Positive Integer")
            miss = c["args"].get("MissingVal", c["args"].get("MissingValue"))
            want = []
            fm = set(col.get("filemask") or [])
            for j_, v in enumerate(col["data"]):
                if j_ in fm:
                    want.append(None)        # missing in the file itself
                    continue
                vv = int(v) if integer else float(v)
                if c["args"].get("DataType") == "Fuzzy":
                    vv = min(1.0, max(-1.0, vv))      # read as fuzzy: limited to the fuzzy range
                want.append(None if (miss is not None and vv == (int(miss) if integer else float(miss))) else Fraction(vv))
            ctx.count("read_results_compared")
            if c["args"].get("DataType") == "Fuzzy":
                ctx.count("fuzzy_reads_compared")
            bad = ref.compare(value, want, exact=True) if isinstance(value, numpy.ndarray) else ("non-array", None, repr(value)[:50], None)
            if bad:
                failed.append(("EEMSRead:%s" % bad[0], {"column": c["args"]["InFieldName"], "diff": list(bad), "args": c["args"]}))
            elif integer != (value.dtype.kind in "iu"):
                failed.append(("EEMSRead:element-kind", {"dtype": str(value.dtype), "args": c["args"]}))
            return
        if name not in ref.MODELS:
            return
        deps = models.deps_of(c)
        ins = []
        for dn in deps:
            r = cmd.program.commands[dn]._result
            if not isinstance(r, numpy.ndarray):
                return
            ins.append(arr.frac_cells(r))
        params = {k: v for k, v in c["args"].items() if k not in ("InFieldName", "InFieldNames", "A", "B", "Metadata")}
        try:
            want, scale = ref.MODELS[name](ins, params)
        except ref.Undefined as e:
            ctx.dontcare("%s: %s" % (name, e))
            return
        except (ZeroDivisionError, OverflowError, ValueError) as e:
            ctx.dontcare("%s reference arithmetic %s" % (name, type(e).__name__))
            return
        int_inputs = [cmd.program.commands[dn]._result.dtype.kind in "iu" for dn in deps]
        if any(int_inputs) and ref.partial_overflow(name, ins, params, 2 ** 62):
            ctx.dontcare("%s: an integer (partial) result beyond the int64 range (overflow is out of scope)" % name)
            return
        if isinstance(value, numpy.ndarray) and value.dtype.kind in "iu" and any(w is not None and abs(w) >= 2 ** 62 for w in want):
            ctx.dontcare("%s: integer result beyond the int64 range (overflow is out of scope)" % name)
            return
        ctx.count("node_postconditions")
        ctx.count("commands_covered:" + name)
        if not isinstance(value, numpy.ndarray):
            failed.append(("%s:non-array-result" % name, {"got": repr(value)[:80]}))
            return
        try:
            bad = ref.compare(value, want, scale=scale, rel=rel)
        except OverflowError:
            ctx.dontcare("%s: reference value beyond the float64 range" % name)
            return
        if bad and bad[0] == "non-finite" and any(w is not None and abs(w) > 10 ** 300 for w in want):
            ctx.dontcare("%s: float overflow in a chained model (out of scope)" % name)
            return
        if bad:
            failed.append(("%s:%s" % (name, bad[0]), {"cell": bad[1], "got": bad[2], "want": bad[3], "args": c["args"],
                                                       "inputs": [arr.describe(cmd.program.commands[dn]._result, 10) for dn in deps]}))

    text, _ = models.to_text(model)
    err = None
    log = []
    prog = None
    try:
        prog = models.build_api(built, d) if built is not None else models.load(model, d, text=text)
        log = trace.start(on_exit=on_exit)
        trace.attach(prog)
        try:
            prog.run()
        finally:
            trace.stop()
    except Exception as e:
        err = e
    if err is not None and prog is not None:
        # which command raised? if its reference is undefined on the inputs it received, the failure is don't-care
        raised = [e["name"] for e in log if e["k"] == "exec_raise"]
        c = by.get(raised[0]) if raised else None
        if c is not None and c["cmd"] in ref.MODELS:
            try:
                ins = [arr.frac_cells(prog.commands[dn]._result) for dn in models.deps_of(c)]
                params = {k: v for k, v in c["args"].items() if k not in ("InFieldName", "InFieldNames", "A", "B", "Metadata")}
                ref.MODELS[c["cmd"]](ins, params)
            except ref.Undefined as e:
                ctx.dontcare("%s raises where its reference is undefined (%s)" % (c["cmd"], e))
                return "undefined"
            except Exception:
                pass
    ctx.count("variant_runs")
    for key, det in failed[:1]:
        ctx.fail("node:%s" % key, dict(det, variant=tag, text=text[:1500]))
    if failed:
        return "failed"
    if err is not None:
        return err
    return {n: c._result for n, c in prog.commands.items() if isinstance(c._result, numpy.ndarray)}


def run_case(ctx, case):
    model = case["model"]
    rng = random.Random(case["rseed"])
    depth, fan = _depth_fanout(model)
    t = model["table"]
    ctx.count("netcdf_models" if model.get("libs") == "nc" else "csv_models")
    ctx.feature((model.get("libs", "csv"), len(t.get("shape", [0])), tuple(sorted(c["cmd"] for c in model["commands"]))[:8], depth, fan, tuple(sorted(set(c["integer"] for c in t["cols"].values()))), t["missing"] is not None))
    if case["rseed"] % 5 == 0:
        from mpilot.program import Program
        try:
            Program.from_source('READ(InFileName = "nowhere.csv", InFieldName = Q, NewFieldName = Q2, OutFileName = "x")\nNOT(InFieldName = Q2)', working_dir=ctx.scratch())
        except Exception:
            pass
        ctx.count("eems2_histories")
    base = _run_variant(ctx, model, ctx.scratch(), "original")
    if base in ("failed", "undefined"):
        return
    if isinstance(base, Exception):
        from mpilot.exceptions import MPilotError
        name = type(base).__name__
        inner = type(getattr(base, "exc", None)).__name__ if name == "UnexpectedError" else None
        if name in ("InvalidThresholds", "DuplicateRawValues", "MixedArrayLengths", "InvalidNumberToConsider"):
            ctx.dontcare("model raises value-dependent %s" % name)
        else:
            ctx.fail("model:well-typed-model-fails:%s" % (inner or name), {"error": str(base)[:400], "commands": [(c["result"], c["cmd"]) for c in model["commands"]]})
        return
    variants = []
    rev = dict(model)
    rev["commands"] = list(reversed(model["commands"]))
    variants.append(("reversed", rev))
    for k in range(case["perms"]):
        variants.append(("perm%d" % k, models.permuted(model, rng)))
    meta = copy.deepcopy(model)
    for c in meta["commands"]:
        if rng.random() < 0.5:
            c["args"]["Metadata"] = {"DisplayName": "Layer " + c["result"], "Description": "x, y: [z] # not a comment", "k": "1"}
        elif rng.random() < 0.3:
            c["args"]["Metadata"] = []         # an empty metadata list
    variants.append(("metadata", models.permuted(meta, rng)))
    extra = copy.deepcopy(model)
    datanames = [c["result"] for c in model["commands"] if c["cmd"] in ref.MODELS or c["cmd"] == "EEMSRead"]
    for j in range(rng.randint(1, 3)):
        tgt = rng.choice(datanames)
        extra["commands"].append({"result": "Extra%d" % j, "cmd": "Copy", "args": {"InFieldName": tgt}})
    extra["commands"].append({"result": "ExtraPrint", "cmd": "PrintVars", "args": {"InFieldNames": [rng.choice(datanames)], "OutFileName": "extra_vars.txt"}})
    variants.append(("extra-consumers", models.permuted(extra, rng)))
    # the same command file over a *changed* table written to the same path in the same process: results must follow the
    # file (the node postconditions compare every read with the table as it is now)
    changed = copy.deepcopy(model)
    for c in changed["table"]["cols"].values():
        c["data"] = [(v + changed["table"].get("step", 1) if v != changed["table"]["missing"] else v) for v in reversed(c["data"])]
    same_dir = ctx.scratch()
    first = _run_variant(ctx, model, same_dir, "same-path-first", check_nodes=False)
    second = _run_variant(ctx, changed, same_dir, "same-path-changed-table", check_nodes=True)
    ctx.count("same_path_reruns")
    if second == "failed":
        return
    if case["rseed"] % 3 != 1:
        # built through the programming interface, number parameters given as NumPy scalars of exactly the same value: every
        # node is judged against the reference on the inputs it received (single-precision parameter arithmetic: 1e-5)
        npm, nconv = _np_params(model, rng)
        if nconv:
            ctx.count("numpy_scalar_parameter_models")
            res = _run_variant(ctx, model, ctx.scratch(), "api-numpy-scalar-parameters", check_nodes=True, built=npm, rel=1e-5)
            if res in ("failed", "undefined"):
                return
            if isinstance(res, Exception):
                ctx.fail("variant:api-numpy-scalar-parameters:fails-%s" % type(res).__name__, {"error": str(res)[:300], "args": [repr(c["args"])[:120] for c in npm["commands"] if c["cmd"] not in ("EEMSRead",)][:4]})
                return
    base_d = {n: arr.digest(a) for n, a in base.items()}
    if case["rseed"] % 4 == 2 and model.get("libs", "csv") == "csv":
        # a first run fails inside a reader (a column it needs is not in the file yet); the file is completed; the same program
        # object is run again: its results are those of the model
        from mpilot.program import Program
        d3 = ctx.scratch()
        reads = [c for c in model["commands"] if c["cmd"] == "EEMSRead"]
        col = reads[case["rseed"] % len(reads)]["args"]["InFieldName"]
        t2 = dict(model["table"])
        t2["cols"] = {(k + "_not_yet" if k == col else k): v for k, v in model["table"]["cols"].items()}
        models.write_table(t2, d3)
        text3, _ = models.to_text(model)
        try:
            prog3 = Program.from_source(text3, libraries=models.model_libs(model), working_dir=d3)
            first = None
            try:
                prog3.run()
            except Exception as e:
                first = e
            if first is not None:
                models.write_table(model["table"], d3)
                ctx.count("reruns_after_a_repaired_failure")
                try:
                    prog3.run()
                except Exception as e:
                    ctx.fail("rerun-after-repaired-failure:fails-%s" % type(e).__name__, {"first_error": type(first).__name__, "error": str(e)[:300], "text": text3[:800]})
                    return
                for n, dg in base_d.items():
                    r3 = prog3.commands[n]._result if n in prog3.commands else None
                    if not isinstance(r3, numpy.ndarray) or arr.digest(r3) != dg:
                        ctx.fail("rerun-after-repaired-failure:result-differs", {"result": n, "command": [c["cmd"] for c in model["commands"] if c["result"] == n], "first_error": type(first).__name__,
                                                                                  "got": arr.describe(r3, 8) if isinstance(r3, numpy.ndarray) else repr(r3)[:80], "want": arr.describe(base[n], 8)})
                        return
        except Exception as e:
            ctx.dontcare("rerun case: load raises %s" % type(e).__name__)
    for tag, vm in variants:
        res = _run_variant(ctx, vm, ctx.scratch(), tag, check_nodes=(tag in ("reversed", "extra-consumers")))
        if res in ("failed", "undefined"):
            return
        if isinstance(res, Exception):
            ctx.fail("variant:%s:fails-%s" % (tag.rstrip("0123456789"), type(res).__name__), {"error": str(res)[:300], "order": [c["result"] for c in vm["commands"]]})
            return
        for n, dg in base_d.items():
            ctx.count("shared_results_compared_bit_exact")
            if n not in res or arr.digest(res[n]) != dg:
                ctx.fail("variant:%s:result-differs" % tag.rstrip("0123456789"), {"result": n, "command": [c["cmd"] for c in model["commands"] if c["result"] == n],
                                                                                  "base": arr.describe(base[n], 10), "variant": arr.describe(res[n], 10) if n in res else None,
                                                                                  "order": [c["result"] for c in vm["commands"]]})
                return
    if len(ctx.samples) < 3:
        text, _ = models.to_text(model)
        ctx.sample({"text": text[:1200], "variants": [v[0] for v in variants], "results_compared": len(base_d)})
