"""C03 - missing data stays missing and never leaks into valid results.

Monitors on every execute() result of every data command:
  (a) postcondition  mask(result) >= union of input masks           (missing stays missing)
  (b) postcondition  mask(result) <= union of input masks + cells where the reference says the operation is undefined
  (c) payload-variation metamorphic monitor: the same case run with three different payloads hidden under the masked
      cells must give bit-identical unmasked values and identical masks (and the same outcome class).
Plus the file path: one CSV table written with two different numbers in its missing cells, read with MissingVal and pushed
through a short command chain.
"""
import os

import numpy

from mpv import arr, ref, cmdgen

ANCHORS = ['mpilot/utils.py:insure_fuzzy', 'mpilot/libraries/eems/fuzzy.py:FuzzyXOr.execute', 'mpilot/libraries/eems/fuzzy.py:FuzzySelectedUnion.execute', 'mpilot/libraries/eems/basic.py:NormalizeCurve.execute', 'mpilot/libraries/eems/basic.py:NormalizeMeanToMid.execute', 'mpilot/libraries/eems/basic.py:NormalizeCat.execute', 'mpilot/libraries/eems/csv/io.py:EEMSRead.execute']   # repository functions the workload must enter (reported as anchors_reached / anchors_missed)
LEVEL = "exploration"
RULE = ("every built-in data command x 1..5 inputs x rank 1-3 shapes x int/float dtypes x mask styles (nomask, all-false, random, "
        "single cell, all-but-one, all) x 3 payloads under the mask; CSV cases vary the number stored in missing cells; distinct by "
        "(command, n, rank, dtypes, mask classes, params)")
REQUIRED_COUNTERS = ["fields_with_infinite_cells", "serialised_reads_rerun", "cancelling_weight_cases", "csv_written_file_checks", "netcdf_joint_write_then_reuse_checks", "netcdf_marker_variation_checks", "mask_superset_checks", "mask_exact_checks", "payload_variation_checks", "masked_input_cells", "csv_payload_checks", "follow_up_mask_checks", "netcdf_fill_mask_checks", "large_rasters_checked", "csv_rereads_with_other_marker", "large_files_read", "later_same_family_checks", "printed_fields_compared", "netcdf_write_read_back_checks"]
ASSUMPTIONS = ["what is stored under result masks and fill values are not judged", "NaN/inf and zero-length arrays are never generated",
               "cases where the reference is undefined (constant arrays, equal thresholds, zero weight sums) only get check (a) and (c)"]

PAYLOAD_SETS = ((0, 1e30, -1e30), (-9999, 9999, 5e17), (0, -9999, 1e30), (0, "nan", 1e30), ("nan", -9999, "inf"), (0, 1.7976931348623157e308, -1.7976931348623157e308), (1e308, -9999, -1e308))


def cases(ctx):
    rng = ctx.rng("cases")
    cmds = list(cmdgen.ALL)
    k = 0
    for _ in range(ctx.n(2400, 120000)):
        cmd = cmds[k % len(cmds)] if k < 3 * len(cmds) else rng.choice(cmds)
        k += 1
        dts = arr.DTYPES_Q if ctx.quick or rng.random() < 0.6 else arr.DTYPES_T
        if rng.random() < 0.1 and cmd not in arr.FUZZY_INPUT:
            dts = arr.DTYPES_U + ("int64", "float64")       # unsigned fields (NetCDF variables stored unsigned)
        c = cmdgen.gen_case(rng, cmd, dtypes=dts, max_cells=40)
        # bias towards at least one real mask
        if all(s["mask"] is None or not any(s["mask"]) for s in c["inputs"]) and rng.random() < 0.8:
            s = c["inputs"][rng.randrange(len(c["inputs"]))]
            n = len(s["data"])
            s["mask"] = [rng.random() < 0.35 for _ in range(n)]
            if not any(s["mask"]):
                s["mask"][rng.randrange(n)] = True
            if sum(1 for m in s["mask"] if not m) < 2 and n > 2:
                s["mask"] = [False] * n
                s["mask"][rng.randrange(n)] = True
            # cells that were missing before hold the hidden payload: as valid data they get an ordinary value again
            for i_ in range(n):
                if not s["mask"][i_] and isinstance(s["data"][i_], (int, float)) and abs(s["data"][i_]) > 1e17:
                    s["data"][i_] = 0.5 if cmd in arr.FUZZY_INPUT else (3 if s["dtype"].startswith(("int", "uint")) else 3.5)
        c["kind"] = "array"
        if cmd == "WeightedMean" and rng.random() < 0.25:
            n_ = len(c["inputs"])
            w_ = [rng.choice([1, 2, 0.5, 3]) for _ in range(n_ - 1)]
            c["params"] = dict(c["params"], Weights=(w_ + [-sum(w_)]) if n_ > 1 else [0])
        if rng.random() < 0.15:
            for s_ in c["inputs"]:
                if s_.get("mask") and not s_.get("layout") and rng.random() < 0.7:
                    s_["hard"] = True          # a field whose missing cells are protected by a hard mask
        c["payloads"] = list(rng.choice(PAYLOAD_SETS))
        if len(c["inputs"]) >= 2 and rng.random() < 0.12:
            # the first listed input is a plain array (nothing missing): the missing cells of the others still count
            c["inputs"][0]["kind"] = "plain"
            c["inputs"][0]["mask"] = None
        for s_ in c["inputs"]:
            # whatever is a valid cell now holds an ordinary value (hidden payloads belong under missing cells only)
            for i_, v_ in enumerate(s_["data"]):
                if not (s_["mask"] and s_["mask"][i_]) and isinstance(v_, (int, float)) and abs(v_) > 1e17:
                    s_["data"][i_] = 0.5 if cmd in arr.FUZZY_INPUT else (3 if s_["dtype"].startswith(("int", "uint")) else 3.5)
        yield c
    for _ in range(ctx.n(60, 3000)):
        n = rng.randint(2, 10)
        vals = [arr.lattice_value(rng) for _ in range(n)]
        fill = [rng.random() < 0.3 for _ in range(n)]
        if all(fill):
            fill[0] = False
        if not any(fill):
            fill[-1] = True
        mvv = rng.choice([v for v, f in zip(vals, fill) if not f] + [4242.0])
        if rng.random() < 0.4:
            # some valid cell holds half the marker
            k_ = rng.choice([k for k, f in enumerate(fill) if not f])
            mvv = rng.choice([8.0, -2.0, 0.5, 4242.0])
            vals = [v if v != mvv else v + 1.0 for v in vals]
            vals[k_] = mvv / 2.0
        elif rng.random() < 0.5:
            # some valid cell lies a hair beside the marker: only cells equal to the marker are missing
            k_ = rng.choice([k for k, f in enumerate(fill) if not f])
            mvv = rng.choice([-9999.0, 0.0, 4242.0, 65535.0, 255.0])      # (inside the range the file declares valid)
            vals = [v if v != mvv else v + 1.0 for v in vals]
            vals[k_] = {-9999.0: -9998.95, 0.0: rng.choice([4e-9, 5e-324, -1e-12]), 255.0: 255.001}.get(mvv, mvv * (1 - 1e-7))
        yield {"kind": "ncread", "values": vals, "fill": fill, "missing_value": mvv,
               "marking": rng.choice(["_FillValue", "_FillValue", "missing_value", "valid_range", "valid_min_max"]),
               "chain": rng.choice([["Copy"], ["Sum"], ["Normalize"], ["CvtToFuzzy"], ["Mean"], ["Multiply"]])}
    for _ in range(ctx.n(160, 6000)):
        yield gen_csv_case(rng)
    # what PrintVars writes for a field with missing cells must not depend on the numbers hidden underneath them
    for i in range(ctx.n(4, 60)):
        yield {"kind": "infcells", "cmd": rng.choice(["Copy", "Maximum", "Minimum", "Sum"]), "route": rng.choice(["run", "result"]),
               "data": [[rng.choice([1.5, -2.0, float("inf"), 7.0, float("inf"), 0.0]) for _ in range(6)] for _ in range(rng.randint(1, 3))],
               "masks": [[rng.random() < 0.25 for _ in range(6)] for _ in range(3)]}
        yield {"kind": "print", "cells": rng.choice([6, 40, 999, 1001, 1200, 5000]), "rank2": rng.random() < 0.4, "rseed": rng.randrange(10 ** 9), "to_file": rng.random() < 0.7}
    # CSV tables of 70 000 - 140 000 rows with a missing marker (block-wise readers)
    for i in range(ctx.n(1, 8)):
        yield {"kind": "bigcsv", "nrows": rng.choice([70000, 65537, 140000, 131073]), "rseed": rng.randrange(10 ** 9), "marker": rng.choice([-9999, 0, -9999.0]), "chain": rng.choice(["Copy", "Sum", "Normalize"])}
    from mpv import big
    for i in range(ctx.n(3, 30)):
        j = i * ctx.nshards + ctx.shard
        yield {"kind": "big", "cmd": big.NAMES[(j * 7) % len(big.NAMES)], "shape": list(big.SHAPES[j % len(big.SHAPES)]), "rseed": rng.randrange(10 ** 9)}


def gen_csv_case(rng):
    nrows = rng.randint(2, 12)
    integer = rng.random() < 0.5
    col = [arr.lattice_value(rng, integer=integer) for _ in range(nrows)]
    mask = [rng.random() < 0.4 for _ in range(nrows)]
    if not any(mask):
        mask[rng.randrange(nrows)] = True
    if all(mask):
        mask[0] = False
    chain = rng.choice([["Copy"], ["Sum"], ["Multiply"], ["Normalize"], ["CvtToFuzzy"], ["CvtToFuzzy", "FuzzyNot"], ["Mean"],
                        ["NormalizeCat"], ["CvtToFuzzyCat"], ["NormalizeCurve"], ["CvtToFuzzy", "FuzzyOr"], ["Maximum"], ["WeightedSum"],
                        ["CvtToFuzzyMeanToMid"], ["NormalizeZScore"], ["CvtToFuzzy", "FuzzyXOr"], ["CvtToFuzzy", "FuzzySelectedUnion"]])
    if not integer and rng.random() < 0.4:
        # valid numbers close to - but different from - the markers the two files use
        for i_ in range(nrows):
            if not mask[i_] and rng.random() < 0.3:
                col[i_] = rng.choice([-9998.95, -9999.08, -9999.000001, 77777.5, 77776.9, 4e-09, -2e-12])
    if rng.random() < 0.25:
        # a valid cell holding the number NumPy itself uses as its default fill value (999999 / 1e20): an ordinary value
        free = [i_ for i_ in range(nrows) if not mask[i_]]
        if free:
            col[rng.choice(free)] = 999999 if integer else 1e20
    case = {"kind": "csv", "col": col, "mask": mask, "integer": integer, "chain": chain,
            "other": [arr.lattice_value(rng, integer=integer) for _ in range(nrows)]}
    if not integer and rng.random() < 0.15:
        # markers with more significant digits than a short number format keeps, and a fractional marker handed over as a
        # single-precision NumPy number through the programming interface
        case["markers"] = rng.choice([[-3.4028234663852886e+38, 77777], [1.2345678901234567e+30, -9999], [-999.5, 77777.25]])
        case["np_marker"] = case["markers"][0] == -999.5
    elif rng.random() < 0.25:
        # the file marks missing cells with 0 (declared through MissingVal = 0): no valid cell may then hold 0
        case["col"] = [v if v != 0 else (3 if integer else 3.5) for v in col]
        case["markers"] = [0, 77777] if integer or rng.random() < 0.5 else [0.0, -9999]
    return case


def _union_mask(inputs):
    m = numpy.zeros(inputs[0].shape, dtype=bool)
    for a in inputs:
        m |= numpy.ma.getmaskarray(a)
    return m


def run_ncread(ctx, case):
    """A NetCDF variable with cells the file itself marks missing (_FillValue) read with an additional MissingValue: both
    kinds of cells are missing in the result and in everything computed from it."""
    from netCDF4 import Dataset
    d = ctx.scratch()
    path = os.path.join(d, "in.nc")
    n = len(case["values"])
    marking = case.get("marking", "_FillValue")
    with Dataset(path, "w") as ds:
        ds.createDimension("x", n)
        xv = ds.createVariable("x", "f8", ("x",))
        xv[:] = numpy.arange(n) * 1.0
        if marking == "_FillValue":
            v = ds.createVariable("var", "f8", ("x",), fill_value=-1e30)
            v[:] = numpy.ma.array(numpy.array(case["values"], dtype="f8"), mask=numpy.array(case["fill"]))
        else:
            # the file marks its no-data cells through the missing_value attribute or a valid range instead of _FillValue
            v = ds.createVariable("var", "f8", ("x",), fill_value=False)
            raw = numpy.array([(-77777.0 if f else x) for x, f in zip(case["values"], case["fill"])], dtype="f8")
            if marking == "missing_value":
                v.missing_value = -77777.0
            elif marking == "valid_range":
                v.valid_range = numpy.array([-70000.0, 1e9])
            else:
                v.valid_min = -70000.0
                v.valid_max = 1e9
            v[:] = raw
    mv = case["missing_value"]
    want = [f or (x == mv) for x, f in zip(case["values"], case["fill"])]
    prog = arr.new_program(arr.NC_LIBS, working_dir=d)
    out = arr.invoke(prog, "EEMSRead", "X", {"InFileName": path, "InFieldName": "var", "MissingValue": mv})
    ctx.count("netcdf_fill_mask_checks")
    ctx.feature(("ncread", tuple(case["chain"]), sum(case["fill"]), mv == 4242.0, marking))
    prev = "X"
    for j, cmd in enumerate(case["chain"]):
        if not out.ok:
            break
        p = dict(CHAIN_PARAMS[cmd])
        if arr.INPUT_STYLE[cmd] == "one":
            p["InFieldName"] = prev
        else:
            p["InFieldNames"] = [prev, prev]
        out = arr.invoke(prog, cmd, "S%d" % j, p)
        prev = "S%d" % j
    if out.ok and isinstance(out.value, numpy.ndarray) and case["chain"] == ["Sum"] and marking == "_FillValue":
        # written to a NetCDF file and read back: the result's valid cells stay valid, also where they happen to equal the
        # number the *source* used as its missing marker (Sum doubles every value: the cell holding marker / 2 now holds it)
        ctx.count("netcdf_write_read_back_checks")
        wpath = os.path.join(d, "derived.nc")
        w = arr.invoke(prog, "EEMSWrite", "W", {"OutFileName": wpath, "OutFieldNames": [prev], "DimensionFileName": path, "DimensionFieldName": "var"})
        if not w.ok:
            ctx.note_inconclusive("harness: derived result could not be written: %s" % (w.inner() or w.err))
        else:
            back = arr.invoke(arr.new_program(arr.NC_LIBS, working_dir=d), "EEMSRead", "B", {"InFileName": wpath, "InFieldName": prev})
            ctx.count("netcdf_write_read_back_done")
            if back.ok:
                gm, wm = numpy.ma.getmaskarray(back.value).tolist(), numpy.ma.getmaskarray(out.value).tolist()
                if gm != wm:
                    i = [k for k, (a_, b_) in enumerate(zip(gm, wm)) if a_ != b_][0]
                    ctx.fail("ncread:derived-result-written-and-read-back:%s" % ("valid-cell-missing" if gm[i] else "missing-cell-present"),
                             {"cell": i, "value_there": float(numpy.ma.getdata(out.value)[i]), "source_marker": mv})
                    return
    if out.ok and isinstance(out.value, numpy.ndarray) and prog.commands["X"].is_finished and len(case["values"]) >= 3:
        # the read and another field that is missing elsewhere are written to one file; the read is then used again: it is still
        # missing exactly where it was (writing several fields together makes none of them lose cells)
        ctx.count("netcdf_joint_write_then_reuse_checks")
        xm0 = numpy.ma.getmaskarray(prog.commands["X"]._result).copy()
        other = numpy.ma.array(numpy.arange(n) * 1.5, mask=[(i_ % 3 == 1) for i_ in range(n)])
        arr.standin(prog, "Other", other, fuzzy=False)
        w2 = arr.invoke(prog, "EEMSWrite", "W2", {"OutFileName": os.path.join(d, "joint.nc"), "OutFieldNames": ["X", "Other"], "DimensionFileName": path, "DimensionFieldName": "var"})
        again = arr.invoke(prog, "Copy", "XAgain", {"InFieldName": "X"})
        if w2.ok and again.ok:
            gm = numpy.ma.getmaskarray(again.value)
            if not numpy.array_equal(gm, xm0):
                i = int(numpy.nonzero(gm != xm0)[0][0])
                ctx.fail("ncread:field-written-next-to-another-field:%s-afterwards" % ("valid-cell-missing" if gm[i] else "missing-cell-present"), {"cell": i, "mask_before": xm0.tolist(), "mask_after": gm.tolist()})
                return
    if out.ok and isinstance(out.value, numpy.ndarray) and marking == "_FillValue" and any((x == mv) and not f for x, f in zip(case["values"], case["fill"])):
        # the same table with another number in the cells the MissingValue argument declares missing (54321 instead of the
        # marker used above), read with that number as MissingValue: everything computed from the read is the same
        ctx.count("netcdf_marker_variation_checks")
        path2 = os.path.join(d, "in2.nc")
        with Dataset(path2, "w") as ds:
            ds.createDimension("x", n)
            xv = ds.createVariable("x", "f8", ("x",))
            xv[:] = numpy.arange(n) * 1.0
            v = ds.createVariable("var", "f8", ("x",), fill_value=-1e30)
            v[:] = numpy.ma.array(numpy.array([54321.0 if x == mv else x for x in case["values"]], dtype="f8"), mask=numpy.array(case["fill"]))
        prog2 = arr.new_program(arr.NC_LIBS, working_dir=d)
        out2 = arr.invoke(prog2, "EEMSRead", "X", {"InFileName": path2, "InFieldName": "var", "MissingValue": 54321})
        prev2 = "X"
        for j, cmd in enumerate(case["chain"]):
            if not out2.ok:
                break
            p = dict(CHAIN_PARAMS[cmd])
            if arr.INPUT_STYLE[cmd] == "one":
                p["InFieldName"] = prev2
            else:
                p["InFieldNames"] = [prev2, prev2]
            out2 = arr.invoke(prog2, cmd, "S%d" % j, p)
            prev2 = "S%d" % j
        if not out2.ok:
            ctx.fail("ncread:%s:outcome-depends-on-the-missing-marker" % "+".join(case["chain"]), {"error": repr(out2.exc)[:200], "marker": mv})
            return
        if _vis_digest(out2.value) != _vis_digest(out.value):
            ctx.fail("ncread:%s:result-depends-on-the-number-used-as-missing-marker" % "+".join(case["chain"]), {"marker": mv, "other_marker": 54321, "with_marker": arr.describe(out.value, 8), "with_other": arr.describe(out2.value, 8)})
            return
    xin = prog.commands["X"]._result if prog.commands["X"].is_finished else None
    if isinstance(xin, numpy.ndarray):
        got = numpy.ma.getmaskarray(xin).tolist()
        if got != want:
            ctx.fail("ncread:%s%s" % ("file-missing-cell-present" if any(w and not g for g, w in zip(got, want)) else "valid-cell-missing", "" if marking == "_FillValue" else ":marked-by-" + marking),
                     {"got": got, "want": want, "fill_cells": case["fill"], "missing_value": mv})
            return
    if out.ok and isinstance(out.value, numpy.ndarray):
        rm = numpy.ma.getmaskarray(out.value).tolist()
        if any(w and not g for g, w in zip(rm, want)):
            ctx.fail("ncread:%s:missing-cell-present" % "+".join(case["chain"]), {"result_mask": rm, "want_at_least": want})


def run_big(ctx, case):
    """Rasters of more than a million cells: missing exactly where an input is missing (or the divisor is zero), and the same
    non-missing values whatever is stored underneath the missing cells."""
    from mpv import big
    cmd, shape = case["cmd"], tuple(case["shape"])
    params, fuzzy_in = big.ELEMENTWISE[cmd], cmd in arr.FUZZY_INPUT
    inputs = big.gen_inputs(cmd, shape, case["rseed"], True)
    ctx.feature(("big", cmd, len(shape)))
    union = _union_mask(inputs)
    want = union.copy()
    if cmd == "ADividedByB":
        want |= (numpy.ma.getdata(inputs[1]) == 0)
    ctx.count("masked_input_cells", int(union.sum()))
    digs = []
    for payload in (None, 1e30 if not fuzzy_in else 0.25, float("nan")):
        ins = []
        for a in inputs:
            d = numpy.ma.getdata(a).copy()
            if payload is not None:
                d[numpy.ma.getmaskarray(a)] = payload
            ins.append(numpy.ma.array(d, mask=numpy.ma.getmaskarray(a).copy()))
        out, _ = arr.run_cmd(cmd, ins, params, fuzzy_inputs=fuzzy_in)
        if not out.ok:
            ctx.fail("%s:raises-%s:large-raster" % (cmd, out.inner() or out.err), {"shape": list(shape), "error": repr(out.exc)[:300]})
            return
        res = out.value
        if not isinstance(res, numpy.ndarray) or res.shape != shape:
            ctx.dontcare("result shape differs (C05)")
            return
        rmask = numpy.ma.getmaskarray(res)
        if payload is None:
            ctx.count("mask_superset_checks")
            ctx.count("mask_exact_checks")
            ctx.count("large_rasters_checked")
            if (rmask != want).any():
                i = int(numpy.flatnonzero((rmask != want).ravel())[0])
                ctx.fail("%s:%s:large-raster" % (cmd, "missing-cell-present" if want.ravel()[i] else "valid-cell-missing"), {"cell": i, "cells": int(res.size), "shape": list(shape), "params": params})
                return
        digs.append(_vis_digest(res))
    ctx.count("payload_variation_checks")
    if len(set(digs)) > 1:
        ctx.fail("%s:payload-leaks-into-values:large-raster" % cmd, {"shape": list(shape), "which": [i for i, d in enumerate(digs) if d != digs[0]], "params": params})


def run_print(ctx, case):
    import contextlib
    import io
    rs = numpy.random.RandomState(case["rseed"] % (2 ** 31))
    n = case["cells"]
    shape = (n,) if not case["rank2"] or n % 2 else (2, n // 2)
    data = numpy.round(rs.uniform(-100, 100, size=shape) * 8) / 8.0
    mask = rs.uniform(size=shape) < 0.2
    mask.reshape(-1)[0] = True
    texts = []
    for payload in (-9999.0, 123456.0, 1e30):
        d = data.copy()
        d[mask] = payload
        scratch = ctx.scratch()
        prog = arr.new_program(working_dir=scratch)
        arr.standin(prog, "Field", numpy.ma.array(d, mask=mask.copy()))
        args = {"InFieldNames": ["Field"]}
        if case["to_file"]:
            args["OutFileName"] = os.path.join(scratch, "vars.txt")
        buf = io.StringIO()
        with contextlib.redirect_stdout(buf):
            out = arr.invoke(prog, "PrintVars", "P", args)
        if not out.ok:
            ctx.fail("PrintVars:raises-%s" % (out.inner() or out.err), {"cells": n})
            return
        texts.append(open(args["OutFileName"]).read() if case["to_file"] else buf.getvalue())
    ctx.count("printed_fields_compared")
    ctx.count("payload_variation_checks")
    ctx.feature(("print", n > 1000, case["rank2"], case["to_file"]))
    if len(set(texts)) > 1:
        ctx.fail("PrintVars:payload-leaks-into-the-printed-text", {"cells": n, "shape": list(shape), "to_file": case["to_file"], "hidden_number_visible": any(("9999" in t or "123456" in t or "e+30" in t) for t in texts)})


def run_bigcsv(ctx, case):
    rs = numpy.random.RandomState(case["rseed"] % (2 ** 31))
    n, marker = case["nrows"], case["marker"]
    vals = numpy.round(rs.uniform(1.0, 1000.0, size=n) * 8) / 8.0
    miss = rs.uniform(size=n) < 0.02
    miss[[0, n - 1, 65535, 65536]] = [True, True, False, True]
    d = ctx.scratch()
    path = os.path.join(d, "big.csv")
    with open(path, "w") as f:
        f.write("X\n")
        f.write("\n".join(repr(marker) if m else repr(float(v)) for v, m in zip(vals, miss)) + "\n")
    prog = arr.new_program(working_dir=d)
    out = arr.invoke(prog, "EEMSRead", "X", {"InFileName": path, "InFieldName": "X", "MissingVal": marker})
    ctx.count("large_files_read")
    ctx.count("masked_input_cells", int(miss.sum()))
    ctx.feature(("bigcsv", n > 100000, repr(marker), case["chain"]))
    if out.ok:
        p = dict(CHAIN_PARAMS[case["chain"]])
        p.update({"InFieldName": "X"} if arr.INPUT_STYLE[case["chain"]] == "one" else {"InFieldNames": ["X", "X"]})
        out2 = arr.invoke(prog, case["chain"], "S", p)
    for label, o in (("read", out), (case["chain"], out2 if out.ok else out)):
        if not o.ok:
            ctx.fail("csv:large-file:%s-raises-%s" % (label, o.inner() or o.err), {"rows": n, "error": str(o.exc)[:200]})
            return
        ctx.count("mask_exact_checks")
        got = numpy.ma.getmaskarray(o.value)
        if got.shape != (n,) or (got != miss).any():
            i = int(numpy.flatnonzero(got != miss)[0]) if got.shape == (n,) else None
            ctx.fail("csv:large-file:%s" % ("row-count" if i is None else "missing-cell-present" if miss[i] else "valid-cell-missing"), {"rows": n, "first_row": i, "rows_differing": int((got != miss).sum()) if i is not None else None, "in": label, "marker": marker})
            return


def run_infcells(ctx, case):
    """Present cells that hold an infinity are present cells: the result is missing exactly where an input is."""
    cmd = case["cmd"]
    inputs = [numpy.ma.array(numpy.array(d, dtype="float64"), mask=list(m)) for d, m in zip(case["data"], case["masks"])]
    ctx.feature(("infcells", cmd, len(inputs), case["route"]))
    prog = arr.new_program()
    names = []
    for i, a in enumerate(inputs):
        arr.standin(prog, "I%d" % i, a, fuzzy=False)
        names.append("I%d" % i)
    args = {"InFieldName": names[0]} if arr.INPUT_STYLE[cmd] == "one" else {"InFieldNames": names}
    if arr.INPUT_STYLE[cmd] == "one":
        inputs = inputs[:1]
    out = arr.invoke(prog, cmd, "Res", args, via_run=case["route"] == "run")
    ctx.count("fields_with_infinite_cells")
    if not out.ok:
        ctx.fail("%s:raises-%s:infinite-cells" % (cmd, out.inner() or out.err), {"data": case["data"]})
        return
    union = _union_mask(inputs)
    rmask = numpy.ma.getmaskarray(out.value)
    if (rmask != union).any():
        i = int(numpy.flatnonzero(rmask != union)[0])
        ctx.fail("%s:%s:infinite-cells" % (cmd, "valid-cell-missing" if rmask[i] else "missing-cell-present"), {"cell": i, "inputs_at_cell": [repr(float(numpy.ma.getdata(a)[i])) for a in inputs], "route": case["route"]})
        return
    # ... and stays so for whoever uses the result next
    fo = arr.invoke(prog, "Copy", "After", {"InFieldName": "Res"}, via_run=case["route"] == "run")
    if fo.ok and (numpy.ma.getmaskarray(fo.value) != union).any():
        ctx.fail("%s:copy-of-the-result-differs-in-missing-cells:infinite-cells" % cmd, {"route": case["route"]})


def run_case(ctx, case):
    if case["kind"] == "infcells":
        return run_infcells(ctx, case)
    if case["kind"] == "print":
        return run_print(ctx, case)
    if case["kind"] == "bigcsv":
        return run_bigcsv(ctx, case)
    if case["kind"] == "big":
        return run_big(ctx, case)
    if case["kind"] == "ncread":
        return run_ncread(ctx, case)
    if case["kind"] == "csv":
        return run_csv(ctx, case)
    cmd, params = case["cmd"], case["params"]
    fuzzy_in = cmd in arr.FUZZY_INPUT
    ctx.feature(cmdgen.features(case) + (case["inputs"][0].get("kind", "ma"),))
    digests, outcomes = [], []
    first = None
    for pi, payload in enumerate(case["payloads"]):
        specs = [arr.with_payload(s, payload if not fuzzy_in else payload) for s in case["inputs"]]
        inputs = [arr.build(s) for s in specs]
        out, prog_ = arr.run_cmd(cmd, inputs, params, fuzzy_inputs=fuzzy_in)
        outcomes.append(out.err and (out.inner() or out.err))
        if out.ok and isinstance(out.value, numpy.ndarray):
            digests.append(arr.digest(numpy.ma.asarray(out.value)) if False else _vis_digest(out.value))
        else:
            digests.append(None)
        if pi == 0:
            first = (inputs, out, prog_)
    inputs, out = first[0], first[1]
    union = _union_mask(inputs)
    ctx.count("masked_input_cells", int(union.sum()))
    if out.ok:
        res = out.value
        if not isinstance(res, numpy.ndarray) or res.shape != inputs[0].shape:
            ctx.dontcare("result shape differs (C05)")
        else:
            rmask = numpy.ma.getmaskarray(res)
            ctx.count("mask_superset_checks")
            leak = union & ~rmask
            if leak.any():
                i = int(numpy.flatnonzero(leak)[0])
                ctx.fail("%s:missing-cell-present" % cmd, {"cell": i, "result_type": type(res).__name__, "value_there": numpy.ma.getdata(res).ravel()[i].item(),
                                                          "params": params, "n_inputs": len(inputs)})
            else:
                if cmd == "WeightedMean" and sum(params.get("Weights") or [1]) == 0:
                    # weights that cancel: the mean is a division by zero in every cell - missing everywhere, never a number
                    ctx.count("cancelling_weight_cases")
                    if not rmask.all():
                        i = int(numpy.flatnonzero(~rmask)[0])
                        ctx.fail("WeightedMean:weights-summing-to-zero:cell-present", {"cell": i, "value_there": repr(numpy.ma.getdata(res).ravel()[i].item()), "params": params})
                        return
                try:
                    want, _ = ref.MODELS[cmd]([arr.frac_cells(a) for a in inputs], params)
                except ref.Undefined as e:
                    ctx.dontcare("%s: %s" % (cmd, e))
                    want = None
                if want is not None:
                    ctx.count("mask_exact_checks")
                    wmask = numpy.array([w is None for w in want], dtype=bool).reshape(res.shape)
                    extra = rmask & ~wmask
                    if extra.any():
                        i = int(numpy.flatnonzero(extra)[0])
                        ctx.fail("%s:valid-cell-missing" % cmd, {"cell": i, "params": params, "inputs_at_cell": [arr.cells(a)[i] for a in inputs]})
            if len(ctx.samples) < 4 and union.any():
                ctx.sample({"cmd": cmd, "params": params, "inputs": [arr.describe(a, 8) for a in inputs], "result": arr.describe(res, 8), "payloads": case["payloads"]})
    # another command of the same family on *other* fields of the same shape and count (everything missing there), evaluated
    # after this one: the finished result keeps its missing cells and values
    if out.ok and fuzzy_in and isinstance(out.value, numpy.ndarray) and len(inputs) >= 2 and arr.INPUT_STYLE.get(cmd) == "list":
        prog1 = first[2]
        keep = _vis_digest(out.value)
        znames = []
        for k, a in enumerate(inputs):
            z = numpy.ma.array(numpy.zeros(a.shape, dtype=numpy.ma.getdata(a).dtype), mask=numpy.ones(a.shape, bool))
            arr.standin(prog1, "Zz%d" % k, z, fuzzy=True)
            znames.append("Zz%d" % k)
        for later, lp in (("FuzzyXOr", {}), ("FuzzySelectedUnion", {"TruestOrFalsest": "Truest", "NumberToConsider": 1}), ("FuzzySelectedUnion", {"TruestOrFalsest": "Falsest", "NumberToConsider": len(inputs)})):
            arr.invoke(prog1, later, "Later_%s_%d" % (later, len(lp)), dict(lp, InFieldNames=list(znames)))
        ctx.count("later_same_family_checks")
        if _vis_digest(out.value) != keep:
            ctx.fail("%s:finished-result-changed-by-a-later-command-on-other-fields" % cmd, {"params": params, "n_inputs": len(inputs), "now_missing": int(numpy.ma.getmaskarray(out.value).sum())})
    # a later command on the same inputs: missing exactly where that input was missing (per the case's specification)
    if out.ok and len(inputs) >= 1:
        prog0 = first[2]
        for k, spec0 in enumerate(case["inputs"][:3]):
            ctx.count("follow_up_mask_checks")
            nm = arr.STANDIN_NAMES[k] if k < len(arr.STANDIN_NAMES) else "In%d" % k
            fo = arr.invoke(prog0, "FuzzyNot" if fuzzy_in else "Copy", "Follow%d" % k, {"InFieldName": nm})
            want_mask = list(spec0["mask"]) if spec0["mask"] is not None else [False] * len(spec0["data"])
            if fo.ok and isinstance(fo.value, numpy.ndarray):
                got_mask = numpy.ma.getmaskarray(fo.value).ravel().tolist()
                if got_mask != want_mask:
                    extra = [i for i, (g, w) in enumerate(zip(got_mask, want_mask)) if g and not w]
                    ctx.fail("%s:later-result-on-its-input-%s" % (cmd, "missing-where-input-present" if extra else "present-where-input-missing"),
                             {"input": k, "cells": (extra or [i for i, (g, w) in enumerate(zip(got_mask, want_mask)) if w and not g])[:5], "params": params, "n_inputs": len(inputs)})
                    break
    # (c) payload independence
    ctx.count("payload_variation_checks")
    if len(set(outcomes)) > 1:
        ctx.fail("%s:payload-changes-outcome" % cmd, {"outcomes": outcomes, "payloads": case["payloads"], "params": params})
    elif out.ok and len(set(digests)) > 1:
        ctx.fail("%s:payload-leaks-into-values" % cmd, {"payloads": case["payloads"], "params": params, "n_inputs": len(inputs),
                                                         "which": [i for i, d in enumerate(digests) if d != digests[0]]})


def _spell(marker, k, integer):
    """The marker as other tools write the same number into a table of decimals (-9999.0, -9999.00, -9.999e3, ...)."""
    if integer or abs(float(marker)) >= 1e15 or float(marker) != int(marker):
        return repr(marker)
    m = int(marker)
    forms = [repr(marker), "%d.0" % m, "%d.00" % m, " %d" % m, "%.10e" % m if m else "0e0", "%d." % m, "+%d" % m if m > 0 else "%d.000" % m]
    return forms[k % len(forms)]


def _vis_digest(res):
    """mask + bits of the unmasked values (arr.digest without type/dtype), so payload-independent by construction."""
    import hashlib
    m = numpy.ma.getmaskarray(res)
    d = numpy.ma.getdata(res)
    vis = numpy.where(m, numpy.zeros((), dtype=d.dtype), d)
    h = hashlib.sha1()
    h.update(repr(res.shape).encode())
    h.update(numpy.ascontiguousarray(m).tobytes())
    h.update(numpy.ascontiguousarray(vis).tobytes())
    return h.hexdigest()


CHAIN_PARAMS = {
    "Copy": {}, "Sum": {}, "Multiply": {}, "Mean": {}, "Maximum": {}, "Normalize": {}, "CvtToFuzzy": {}, "FuzzyNot": {}, "FuzzyOr": {},
    "FuzzyXOr": {}, "NormalizeZScore": {"TrueThresholdZScore": 1, "FalseThresholdZScore": -1},
    "NormalizeCat": {"RawValues": [0, 1, 2], "NormalValues": [5, 6, 7], "DefaultNormalValue": -3},
    "CvtToFuzzyCat": {"RawValues": [0, 1, 2], "FuzzyValues": [-1, 0, 1], "DefaultFuzzyValue": 0.5},
    "NormalizeCurve": {"RawValues": [-10, 0, 10], "NormalValues": [0, 5, 1]},
    "WeightedSum": {"Weights": [2, 0.5]}, "CvtToFuzzyMeanToMid": {"IgnoreZeros": False, "FuzzyValues": [-1, -0.5, 0, 0.5, 1]},
    "FuzzySelectedUnion": {"TruestOrFalsest": "Truest", "NumberToConsider": 1},
}


def run_csv(ctx, case):
    """The same table written with two different missing markers (each declared through MissingVal): the arrays read differ
    only in the number hidden under the missing cells, so every downstream result must be identical."""
    ctx.feature(("csv", tuple(case["chain"]), case["integer"], sum(case["mask"]), "zero-marker" if case.get("markers") else "marker"))
    ctx.count("csv_payload_checks")
    digs, outcomes = [], []
    for marker in case.get("markers") or (-9999, 77777):
        d = ctx.scratch()
        path = os.path.join(d, "in.csv")
        with open(path, "w") as f:
            f.write("X,Y\n")
            for v, m, o in zip(case["col"], case["mask"], case["other"]):
                f.write("%s,%s\n" % (_spell(marker, len(repr(v)) + len(repr(o)), case["integer"]) if m else repr(v), repr(o)))
        prog = arr.new_program(working_dir=d)
        args = {"InFileName": path, "InFieldName": "X", "MissingVal": marker, "DataType": "Integer" if case["integer"] else "Float"}
        if case.get("np_marker") and float(numpy.float32(marker)) == float(marker):
            args["MissingVal"] = numpy.float32(marker)
        out = arr.invoke(prog, "EEMSRead", "X", args)
        if out.ok and not case.get("np_marker") and marker == (case.get("markers") or (-9999, 77777))[0]:
            # the program written out and loaded again reads the same cells as missing (the marker survives the round trip)
            from mpilot.program import Program as _P
            ctx.count("serialised_reads_rerun")
            try:
                p2 = _P.from_source(prog.to_string(), working_dir=d)
                xm2 = numpy.ma.getmaskarray(p2.commands["X"].result).tolist()
            except Exception as e:
                xm2 = "raises " + type(e).__name__
            if xm2 != case["mask"]:
                ctx.fail("csv:read-mask-wrong:after-the-program-was-written-out-and-loaded-again", {"got": xm2, "want": case["mask"], "marker": marker})
                return
        prev, prev_f = "X", False
        for j, cmd in enumerate(case["chain"]):
            if not out.ok:
                break
            nm = "S%d" % j
            p = dict(CHAIN_PARAMS[cmd])
            style = arr.INPUT_STYLE[cmd]
            if style == "one":
                p["InFieldName"] = prev
            else:
                p["InFieldNames"] = [prev, prev] if cmd in ("WeightedSum", "FuzzyXOr") else [prev]
            out = arr.invoke(prog, cmd, nm, p)
            prev = nm
        outcomes.append(out.err and (out.inner() or out.err))
        if out.ok:
            res = out.value
            xin = prog.commands["X"].result
            xm = numpy.ma.getmaskarray(xin)
            if xm.tolist() != case["mask"]:
                ctx.fail("csv:read-mask-wrong%s" % (":marker-zero" if marker == 0 else ""), {"got": xm.tolist(), "want": case["mask"], "marker": marker})
                return
            rm = numpy.ma.getmaskarray(res)
            if (xm & ~rm).any():
                ctx.fail("csv:%s:missing-cell-present" % "+".join(case["chain"]), {"result": arr.describe(res), "mask_in": case["mask"]})
                return
            digs.append(_vis_digest(res))
            if marker == (case.get("markers") or (-9999, 77777))[0]:
                # the column as read, written to a CSV file next to the other column: its valid cells are written as numbers
                # (their own), whatever they happen to equal
                import csv as _csv
                arr.invoke(prog, "EEMSRead", "Y", {"InFileName": path, "InFieldName": "Y", "DataType": "Integer" if case["integer"] else "Float"})
                w = arr.invoke(prog, "EEMSWrite", "W", {"OutFileName": os.path.join(d, "written.csv"), "OutFieldNames": ["X", "Y"]})
                ctx.count("csv_written_file_checks")
                if w.ok:
                    with open(os.path.join(d, "written.csv"), newline="") as fh:
                        rows = [r for r in _csv.reader(fh) if r][1:]
                    for i_, (row, v, m) in enumerate(zip(rows, case["col"], case["mask"])):
                        if m:
                            continue
                        try:
                            ok_ = float(row[0]) == float(v)
                        except (ValueError, IndexError):
                            ok_ = False
                        if not ok_:
                            ctx.fail("csv:written-file:valid-cell-not-written-as-its-number", {"row": i_, "cell_text": row[0] if row else None, "value": v})
                            return
            # the same file and column read again in this process with another missing marker (a valid value of the column),
            # and with none: each read is missing exactly where the file holds *its* marker
            valid = [v for v, m in zip(case["col"], case["mask"]) if not m]
            for other in ([valid[0]] if valid else []) + [None]:
                args2 = {"InFileName": path, "InFieldName": "X", "DataType": "Integer" if case["integer"] else "Float"}
                if other is not None:
                    args2["MissingVal"] = other
                o2 = arr.invoke(arr.new_program(working_dir=d), "EEMSRead", "X", args2)
                ctx.count("csv_rereads_with_other_marker")
                if o2.ok:
                    want2 = [False if other is None else ((marker if m else v) == other) for v, m in zip(case["col"], case["mask"])]
                    got2 = numpy.ma.getmaskarray(o2.value).tolist()
                    if got2 != want2:
                        ctx.fail("csv:reread-with-another-missing-marker:mask-of-the-earlier-read", {"got": got2, "want": want2, "first_marker": marker, "second_marker": other})
                        return
    if len(set(outcomes)) > 1 or len(set(digs)) > 1:
        ctx.fail("csv:%s:payload-leaks" % "+".join(case["chain"]), {"outcomes": outcomes})
