"""C04 - fuzzy results always lie in [-1, +1].

Monitor: range postcondition on the result of every fuzzy-producing command (NaN counts as outside), driven with hostile
parameters (thresholds/weights/category/curve values far outside the fuzzy range, reversed, nearly equal) and hostile finite
data; an icontract postcondition on mpilot.utils.insure_fuzzy is attached as a diagnostic (its evaluation count is reported).
The range is re-checked at a quiescent point after further commands consumed the result.
"""
import math

import numpy

from mpv import arr, cmdgen

ANCHORS = ['mpilot/utils.py:insure_fuzzy', 'mpilot/libraries/eems/fuzzy.py:FuzzyXOr.execute', 'mpilot/libraries/eems/fuzzy.py:CvtToFuzzy.execute', 'mpilot/libraries/eems/fuzzy.py:FuzzyWeightedUnion.execute', 'mpilot/libraries/eems/fuzzy.py:CvtToFuzzyCat.execute']   # repository functions the workload must enter (reported as anchors_reached / anchors_missed)
LEVEL = "exploration"
RULE = ("the 14 fuzzy-producing commands x hostile parameter sets x hostile finite inputs (lattice, wild floats 1e-9..1e9, "
        "int64/float64/float32/int32/int16) x shapes rank 1-3 x masks (any finite number or NaN stored underneath them); rasters of 1-2.1 million cells; distinct by (command, n, rank, dtypes, mask class, parameter-"
        "shape class)")
REQUIRED_COUNTERS = ["range_postconditions", "fuzzy_cells_checked", "quiescent_rechecks", "model_runs", "large_rasters_checked", "program_copies_checked"]
ASSUMPTIONS = ["inputs finite, magnitudes in 1e-9..1e9 or the dyadic lattice; control points closer than 1e-9 relative (slope overflow) "
               "are not generated", "parameter sets for which the command raises one of its specific errors are not judged",
               "integer-typed fuzzy layers hold -1 / 0 / 1 only"]

WILD = [0.0, 1e-9, -1e-9, 1 / 3.0, -1 / 3.0, math.pi, -math.pi, 1e6, -1e6, 1e9, -1e9, 2.5, -7.75, 100.0, 0.1, 0.7]
FUZZY_WILD = [-1.0, 1.0, 0.0, 1 / 3.0, -1 / 3.0, 0.999999999, -0.999999999, 1e-9, 0.1, -0.7, 0.5]
CONSUMERS = ["CvtFromFuzzy", "FuzzyNot", "FuzzyOr", "FuzzyAnd", "FuzzyUnion", "FuzzyXOr", "FuzzySelectedUnion", "FuzzyWeightedUnion"]


def cases(ctx):
    rng = ctx.rng("cases")
    cmds = sorted(arr.FUZZY_OUTPUT)
    k = 0
    for _ in range(ctx.n(4000, 200000)):
        cmd = cmds[k % len(cmds)]
        k += 1
        c = cmdgen.gen_case(rng, cmd, dtypes=arr.DTYPES_T, max_cells=40, hostile=rng.random() < 0.8)
        wild = rng.random() < 0.5
        if wild:
            for s in c["inputs"]:
                if s["dtype"].startswith("float"):
                    pool = FUZZY_WILD if cmd in arr.FUZZY_INPUT else WILD
                    s["data"] = [rng.choice(pool) for _ in s["data"]]
                    if s["dtype"] == "float32":
                        s["data"] = [float(numpy.float32(v)) for v in s["data"]]
        if cmd in ("CvtToFuzzy",) and rng.random() < 0.5:
            # thresholds strictly inside the data range: the raw linear map leaves [-1,1] and must be clamped
            vals = sorted(set(v for s in c["inputs"] for v, m in zip(s["data"], s["mask"] or [False] * len(s["data"])) if not m))
            if len(vals) >= 2:
                mid = (vals[0] + vals[-1]) / 2.0
                q = (vals[-1] - vals[0]) / 8.0
                c["params"] = {"TrueThreshold": mid + q, "FalseThreshold": mid - q} if rng.random() < 0.5 else {"TrueThreshold": mid - q, "FalseThreshold": mid + q}
        if cmd == "FuzzyWeightedUnion" and rng.random() < 0.3:
            c["params"]["Weights"] = [rng.choice([-1, 2, 3, -0.5, 5]) for _ in c["inputs"]]
        if cmd == "FuzzyWeightedUnion" and len(c["inputs"]) >= 2 and rng.random() < 0.15:
            # weights that cancel, over fields that agree (0 / 0 at valid cells): whatever comes out, no NaN and nothing outside the range
            n_ = len(c["inputs"])
            c["params"]["Weights"] = ([1, -1] if n_ == 2 else [2] + [-1, -1] + [0] * (n_ - 3))
            import copy as _copy
            c["inputs"] = [_copy.deepcopy(c["inputs"][0]) for _ in range(n_)]
        if cmd in arr.FUZZY_INPUT and rng.random() < 0.12:
            # crisp layers stored as small (also unsigned) integers: 0 / 1, and -1 where the type has it
            dt_ = rng.choice(["uint8", "uint16", "uint32", "uint64", "int8", "int16"])
            for s_ in c["inputs"]:
                s_["dtype"] = dt_
                s_["data"] = [rng.choice([0, 1, 1] if dt_.startswith("u") else [-1, 0, 1]) for _ in s_["data"]]
        elif cmd in ("FuzzyUnion", "FuzzyOr", "FuzzyAnd", "FuzzyNot") and rng.random() < 0.08:
            # layers flagged fuzzy holding finite numbers near the end of the double range, of either sign (sums of finite
            # numbers may overflow to an infinity, which is limited like any number; they never give NaN)
            for s_ in c["inputs"]:
                if s_["dtype"] == "float64":
                    s_["data"] = [rng.choice([1.5e308, -1.5e308, 1e308, -1.7e308, 0.5, -1.0]) for _ in s_["data"]]
            if len(c["inputs"]) >= 2 and c["inputs"][0]["dtype"] == c["inputs"][1]["dtype"] == "float64":
                c["inputs"][0]["data"][0], c["inputs"][1]["data"][0] = 1.5e308, -1.5e308
        elif cmd in arr.FUZZY_INPUT and rng.random() < 0.07:
            # whole-number layers flagged fuzzy that hold the ends of their type's range
            dt_ = rng.choice(["int8", "int16", "int32", "int64"])
            lo_, hi_ = int(numpy.iinfo(dt_).min), int(numpy.iinfo(dt_).max)
            for s_ in c["inputs"]:
                s_["dtype"] = dt_
                s_["data"] = [rng.choice([lo_, lo_, hi_, -1, 0, 1]) for _ in s_["data"]]
            c["inputs"][0]["data"][0] = lo_
        elif cmd in arr.FUZZY_INPUT and rng.random() < 0.1:
            # layers flagged fuzzy whose values lie outside the range (rounding noise of another tool, or plain wrong): whatever
            # the operator makes of them, what it returns is fuzzy
            for s_ in c["inputs"]:
                if s_["dtype"].startswith("float"):
                    s_["data"] = [v * rng.choice([1, 1, 1.015, 5, -40]) if isinstance(v, (int, float)) else v for v in s_["data"]]
                    if rng.random() < 0.4:
                        # ... among them the very number NumPy uses as its default fill value
                        free_ = [i_ for i_ in range(len(s_["data"])) if not (s_["mask"] and s_["mask"][i_])]
                        if free_:
                            s_["data"][rng.choice(free_)] = rng.choice([1e20, -1e20, 2e20])
        if cmd == "CvtToFuzzyCat" and rng.random() < 0.2 and c["params"].get("FuzzyValues"):
            # fuzzy values far outside the range, the default fill value 1e20 among them: limited like any other number
            c["params"] = dict(c["params"], FuzzyValues=[rng.choice([1e20, v_, 999999, -1e20]) for v_ in c["params"]["FuzzyValues"]], DefaultFuzzyValue=rng.choice([1e20, 0.5, 999999]))
        if cmd in ("FuzzyOr", "FuzzyAnd", "FuzzyNot") and rng.random() < 0.08:
            # crisp integer layers holding the integer fill value 999999 in a valid cell
            for s_ in c["inputs"]:
                s_["dtype"] = "int64"
                s_["data"] = [rng.choice([0, 1, -1, 999999]) for _ in s_["data"]]
        if cmd == "CvtToFuzzy" and rng.random() < 0.12:
            # finite data at the limits of double precision: a spread beyond the double range with thresholds left out, and whole
            # thresholds beyond 2^53 that are different integers but the same double
            for s_ in c["inputs"]:
                if s_["dtype"] == "float64":
                    if rng.random() < 0.6:
                        s_["data"] = [rng.choice([-1e308, 1e308, 0.0, 5e307, -1.7e308, 1.7976931348623157e308]) for _ in s_["data"]]
                        c["params"] = {k_: v_ for k_, v_ in c["params"].items() if k_ == "Direction"}
                        if rng.random() < 0.3:
                            c["params"].update({"TrueThreshold": 1e308, "FalseThreshold": -1e308})
                    else:
                        s_["data"] = [rng.choice([9007199254740992.0, 9007199254740994.0, 0.0, 9007199254740996.0]) for _ in s_["data"]]
                        c["params"] = {"TrueThreshold": 9007199254740993, "FalseThreshold": 9007199254740992}
        if cmd in ("CvtToFuzzyZScore", "CvtToFuzzyCurveZScore") and rng.random() < 0.3:
            # data whose mean is huge compared with its spread (time stamps, projected coordinates), and constant fields of a
            # number that has no exact binary form: whatever the statistics come to, the result is fuzzy or missing
            for s_ in c["inputs"]:
                if s_["dtype"] == "float64":
                    kind_ = rng.random()
                    s_["data"] = ([1.7e9 + rng.randint(0, 8) for _ in s_["data"]] if kind_ < 0.5 else [rng.choice([0.1, 0.3, 1e-3])] * len(s_["data"]) if kind_ < 0.75
                                  else [4.0e6 + rng.randint(0, 3) * 0.1 for _ in s_["data"]])
        if rng.random() < 0.15:
            # NaN stored underneath the missing cells of float inputs (masked_invalid data, NaN fill values)
            c["inputs"] = [arr.with_payload(s_, "nan") for s_ in c["inputs"]]
        c["wild"] = wild
        c["consumer"] = rng.choice(CONSUMERS)
        yield c
    # rasters of more than a million cells (block-wise / size-dependent code paths), checked vectorised
    for i in range(ctx.n(3, 16)):
        j = i * ctx.nshards + ctx.shard
        yield {"kind": "big", "cmd": BIG_CMDS[j % len(BIG_CMDS)], "shape": list(BIG_SHAPES[(j // len(BIG_CMDS) + j) % len(BIG_SHAPES)]), "rseed": rng.randrange(10 ** 9),
               "masked": j % 3 != 0}
    from mpv import models
    for i in range(ctx.n(300, 15000)):
        yield {"kind": "model", "model": models.gen_model(rng, n_ops=rng.randint(2, 12), sinks=rng.random() < 0.5, libs="nc" if i % 3 == 0 else "csv",
                                                            cmds=list(cmdgen.ALL) + sorted(arr.FUZZY_OUTPUT) * 2)}


BIG_CMDS = ["CvtToFuzzy", "FuzzyWeightedUnion", "CvtToFuzzyCurve", "CvtToFuzzyZScore", "CvtToFuzzyCat", "CvtToFuzzyMeanToMid"]
BIG_SHAPES = [(1100, 1000), (2 ** 20 + 1,), (3, 700, 500), (2 ** 21,), (1500, 1400), (2 ** 20 + 2 ** 19,), (1025, 1024)]


def run_big(ctx, case):
    cmd, shape = case["cmd"], tuple(case["shape"])
    rs = numpy.random.RandomState(case["rseed"] % (2 ** 31))
    fuzzy_in = cmd in arr.FUZZY_INPUT
    n_in = 3 if fuzzy_in else 1
    inputs = []
    for _ in range(n_in):
        data = rs.uniform(-1.0, 1.0, size=shape) if fuzzy_in else numpy.round(rs.uniform(-1000.0, 1000.0, size=shape), 3)
        if cmd == "CvtToFuzzyCat":
            data = rs.randint(0, 6, size=shape).astype("float64")
        inputs.append(numpy.ma.array(data, mask=(rs.uniform(size=shape) < 0.1)) if case["masked"] else numpy.ma.array(data))
    params = {"CvtToFuzzy": {"TrueThreshold": 250.5, "FalseThreshold": -100},
              "FuzzyWeightedUnion": {"Weights": [3, -1, 0.5]},
              "CvtToFuzzyCurve": {"RawValues": [-500, 0, 400], "FuzzyValues": [-7, 3.5, 12]},
              "CvtToFuzzyZScore": {"TrueThresholdZScore": 0.25, "FalseThresholdZScore": -0.5},
              "CvtToFuzzyCat": {"RawValues": [0, 1, 2, 3], "FuzzyValues": [-5, 0.5, 1e6, -1.5], "DefaultFuzzyValue": 9},
              "CvtToFuzzyMeanToMid": {"IgnoreZeros": False, "FuzzyValues": [-4, -0.5, 0, 0.5, 4]}}[cmd]
    ctx.feature(("big", cmd, len(shape), int(numpy.prod(shape)) % (2 ** 20) == 0, case["masked"]))
    out, prog = arr.run_cmd(cmd, inputs, params, fuzzy_inputs=fuzzy_in)
    if not out.ok:
        ctx.dontcare("%s raises %s on a large raster" % (cmd, out.inner() or out.err))
        return
    res = out.value
    ctx.count("range_postconditions")
    ctx.count("large_rasters_checked")
    ctx.count("fuzzy_cells_checked", int(getattr(res, "size", 0)))
    bad = _range_bad(res)
    if bad:
        m = numpy.ma.getmaskarray(res)
        d = numpy.ma.getdata(res)
        off = numpy.flatnonzero(((d > 1.0) | (d < -1.0) | numpy.isnan(d)).ravel() & ~m.ravel())
        ctx.fail("%s:%s:large-raster" % (cmd, bad[0]), {"range": bad[1], "shape": list(shape), "cells": int(res.size), "first_bad_cell": int(off[0]) if off.size else None,
                                                        "bad_cells": int(off.size), "params": params})


_contract = {"evals": 0, "installed": False, "violations": []}


def prepare(ctx):
    """Diagnostic icontract postcondition on insure_fuzzy (the names bound in basic/fuzzy/netcdf.io are re-bound too)."""
    try:
        import icontract
        import mpilot.utils as U
        import mpilot.libraries.eems.basic as B
        import mpilot.libraries.eems.fuzzy as Fz
    except Exception as e:  # diagnostic only
        ctx.dontcare("insure_fuzzy contract not installed: %s" % type(e).__name__)
        return

    class ClampBroken(Exception):
        pass

    def within(arr, fuzzy_min, fuzzy_max, result):
        _contract["evals"] += 1
        d = numpy.ma.getdata(result)[~numpy.ma.getmaskarray(result)]
        ok = bool(((d >= min(fuzzy_min, fuzzy_max)) & (d <= max(fuzzy_min, fuzzy_max))).all()) if fuzzy_min <= fuzzy_max else True
        if not ok:
            _contract["violations"].append((float(d.min()), float(d.max())))
        return True   # record, never abort what it observes

    wrapped = icontract.ensure(within, error=ClampBroken)(U.insure_fuzzy)
    U.insure_fuzzy = wrapped
    for mod in (B, Fz):
        if getattr(mod, "insure_fuzzy", None) is not None:
            mod.insure_fuzzy = wrapped
    _contract["installed"] = True


def finish(ctx):
    ctx.count("insure_fuzzy_contract_evaluations", _contract["evals"])
    ctx.count("insure_fuzzy_contract_flagged", len(_contract["violations"]))


def _range_bad(res):
    if not isinstance(res, numpy.ndarray):
        return ("non-array", repr(res)[:80])
    m = numpy.ma.getmaskarray(res)
    d = numpy.ma.getdata(res)[~m]
    if d.size == 0:
        return None
    d = d.astype("float64")
    if numpy.isnan(d).any():
        return ("nan", None)
    if d.max() > 1.0 or d.min() < -1.0:
        return ("out-of-range", [float(d.min()), float(d.max())])
    return None


def _pclass(params):
    out = []
    for k, v in sorted(params.items()):
        if isinstance(v, list):
            out.append((k, len(v), any(abs(float(x)) > 1 for x in v if not isinstance(x, str))))
        elif isinstance(v, (int, float)) and not isinstance(v, bool):
            out.append((k, abs(float(v)) > 1))
        else:
            out.append((k, str(v)))
    return tuple(out)


def run_model(ctx, case):
    from mpv import models, trace
    model = case["model"]
    d = ctx.scratch()
    try:
        prog = models.load(model, d)
    except Exception as e:
        ctx.dontcare("model does not load: %s" % type(e).__name__)
        return
    fuzzy_results = []

    def on_exit(cmd, value):
        if getattr(cmd, "is_fuzzy", False):
            ctx.count("range_postconditions")
            ctx.count("fuzzy_cells_checked", int(getattr(value, "size", 0)))
            fuzzy_results.append(cmd)
            bad = _range_bad(value)
            if bad:
                ctx.fail("%s:%s:in-model" % (type(cmd).__name__, bad[0]), {"range": bad[1], "command": cmd.result_name})

    trace.start(on_exit=on_exit)
    trace.attach(prog)
    try:
        prog.run()
    except Exception as e:
        ctx.dontcare("model raises %s" % type(e).__name__)
    finally:
        trace.stop()
    ctx.count("model_runs")
    ctx.feature(("model", model.get("libs", "csv"), tuple(sorted(set(type(c).__name__ for c in fuzzy_results)))[:6]))
    for c in fuzzy_results:     # quiescent re-check after everything downstream ran
        ctx.count("quiescent_rechecks")
        bad = _range_bad(c._result)
        if bad:
            ctx.fail("%s:%s-after-run:in-model" % (type(c).__name__, bad[0]), {"range": bad[1], "command": c.result_name})
            break
    if fuzzy_results and len(model["commands"]) % 3 == 0:
        # the fuzzy results as a deep copy of the finished program holds them
        try:
            clone = trace.clone_program(prog)
        except Exception as e:
            ctx.dontcare("program cannot be deep-copied: %s" % type(e).__name__)
            return
        ctx.count("program_copies_checked")
        for c in fuzzy_results:
            cc = clone.commands.get(c.result_name)
            if cc is None or not cc.is_finished:
                continue
            ctx.count("quiescent_rechecks")
            bad = _range_bad(cc.result)
            if bad:
                ctx.fail("%s:%s:in-a-copy-of-the-program" % (type(c).__name__, bad[0]), {"range": bad[1], "command": c.result_name})
                break


def run_case(ctx, case):
    if case.get("kind") == "model":
        return run_model(ctx, case)
    if case.get("kind") == "big":
        return run_big(ctx, case)
    cmd, params = case["cmd"], case["params"]
    inputs = [arr.build(s) for s in case["inputs"]]
    fuzzy_in = cmd in arr.FUZZY_INPUT
    ctx.feature((cmd, len(inputs), len(case["inputs"][0]["shape"]), tuple(sorted(set(s["dtype"] for s in case["inputs"]))),
                 any(s["mask"] and any(s["mask"]) for s in case["inputs"]), _pclass(params), case.get("wild")))
    out, prog = arr.run_cmd(cmd, inputs, params, fuzzy_inputs=fuzzy_in)
    if not out.ok:
        ctx.dontcare("%s raises %s" % (cmd, out.inner() or out.err))
        return
    res = out.value
    ctx.count("range_postconditions")
    ctx.count("fuzzy_cells_checked", int(getattr(res, "size", 0)))
    bad = _range_bad(res)
    dclass = "float32" if any(s["dtype"] == "float32" for s in case["inputs"]) else "std"
    if bad:
        ctx.fail("%s:%s:%s" % (cmd, bad[0], dclass), {"range": bad[1], "params": params, "dtypes": [s["dtype"] for s in case["inputs"]]})
        return
    if len(ctx.samples) < 4 and case.get("wild"):
        ctx.sample({"cmd": cmd, "params": params, "inputs": [arr.describe(a, 6) for a in inputs], "result": arr.describe(res, 6)})
    if cmd in ("FuzzySelectedUnion", "FuzzyXOr") and isinstance(res, numpy.ndarray) and res.dtype.kind == "f":
        # another command of the same family over other fields of the same number, shape and type that are missing everywhere
        # (their cells hold the fill value underneath): the first result is still fuzzy afterwards
        n_ = max(2, len(inputs)) if cmd == "FuzzyXOr" else len(inputs)
        blanks = []
        for k_ in range(n_):
            src_ = inputs[k_ % len(inputs)]
            blanks.append(numpy.ma.array(numpy.full(src_.shape, 1e20, dtype=src_.dtype if src_.dtype.kind == "f" else "float64"), mask=numpy.ones(src_.shape, dtype=bool)))
        for later in ("FuzzySelectedUnion", "FuzzyXOr"):
            if later == "FuzzyXOr" and n_ < 2:
                continue
            lp = {"TruestOrFalsest": "Truest", "NumberToConsider": 1} if later == "FuzzySelectedUnion" else {}
            arr.run_cmd(later, blanks, lp, fuzzy_inputs=True)
        ctx.count("quiescent_rechecks")
        bad = _range_bad(res)
        if bad:
            ctx.fail("%s:%s-after-a-later-command-of-the-same-family-on-other-fields" % (cmd, bad[0]), {"range": bad[1], "params": params})
            return
    # quiescent re-check: a later consumer must not push the finished fuzzy result out of range
    cons = case.get("consumer")
    if cons and isinstance(res, numpy.ndarray):
        prog.commands["Res"].is_fuzzy = True
        p = {}
        if cons == "CvtFromFuzzy":
            p = {"InFieldName": "Res", "TrueThreshold": 100, "FalseThreshold": 0}
        elif cons == "FuzzyNot":
            p = {"InFieldName": "Res"}
        elif cons == "FuzzySelectedUnion":
            p = {"InFieldNames": ["Res"], "TruestOrFalsest": "Truest", "NumberToConsider": 1}
        elif cons == "FuzzyWeightedUnion":
            p = {"InFieldNames": ["Res", "Res"], "Weights": [3, -1]}
        elif cons == "FuzzyXOr":
            p = {"InFieldNames": ["Res", "Res"]}
        else:
            p = {"InFieldNames": ["Res"]}
        c_out = arr.invoke(prog, cons, "Cons", p)
        ctx.count("quiescent_rechecks")
        bad = _range_bad(res)
        if bad:
            ctx.fail("%s:%s-after-%s" % (cmd, bad[0], cons), {"range": bad[1], "params": params})
        elif c_out.ok and cons != "CvtFromFuzzy":
            bad = _range_bad(c_out.value)
            if bad:
                ctx.fail("%s:%s:std" % (cons, bad[0]), {"range": bad[1], "producer": cmd})
