"""C05 - results keep the input shape; cells are computed independently.

Monitors: shape postcondition on every data command result; metamorphic monitors f(pi . x) == pi . f(x) for a common random
permutation pi of the cells of all inputs, and f(reshape x) == reshape f(x) for every rank-1/2/3 factorisation of the same cells.
Element-wise commands and min/max/mean statistics: bit-identical on the dyadic lattice; z-score commands: 1e-9 tolerance.
"""
import os

import numpy

from mpv import arr, cmdgen

ANCHORS = ['mpilot/libraries/eems/fuzzy.py:FuzzyXOr.execute', 'mpilot/libraries/eems/fuzzy.py:FuzzySelectedUnion.execute', 'mpilot/libraries/eems/mixins.py:SameArrayShapeMixin.validate_array_shapes', 'mpilot/libraries/eems/basic.py:NormalizeCurveZScore.execute']   # repository functions the workload must enter (reported as anchors_reached / anchors_missed)
LEVEL = "exploration"
RULE = ("every built-in data command x shapes of rank 1-3 incl. length-1 axes x common cell permutation x reshape to another rank; "
        "element-wise commands on rasters of 1-2.1 million cells compared window by window with the command run on the window alone; "
        "distinct by (command, n, source shape rank, target rank, has length-1 axis, dtypes, mask class)")
SCRATCH_PER_CASE = True      # no directory is used beyond the case that asked for it
REQUIRED_COUNTERS = ["large_variables_read_in_two_layouts", "shape_postconditions", "permutation_checks", "reshape_checks", "layout_checks", "model_reshape_checks", "large_rasters_checked", "window_checks", "direct_execute_cases", "same_path_rearrangements", "few_row_models", "written_files_compared"]
ASSUMPTIONS = ["z-score commands compared with 1e-9 tolerance (float summation order), all others bit-exact on the dyadic lattice",
               "commands raising the same specific error on both sides are not judged"]


def factorisations(n, rng):
    shapes = [(n,), (n, 1), (1, n), (1, n, 1)]
    for a in range(2, n):
        if n % a == 0:
            shapes.append((a, n // a))
            b = n // a
            for c in range(2, b):
                if b % c == 0:
                    shapes.append((a, c, b // c))
            shapes.append((a, 1, n // a))
    return shapes


def cases(ctx):
    rng = ctx.rng("cases")
    cmds = list(cmdgen.ALL)
    k = 0
    for _ in range(ctx.n(2400, 120000)):
        cmd = cmds[k % len(cmds)]
        k += 1
        c = cmdgen.gen_case(rng, cmd, dtypes=arr.DTYPES_Q, max_cells=48, offset=cmd in cmdgen.STATS and rng.random() < 0.2)
        n = len(c["inputs"][0]["data"])
        perm = list(range(n))
        rng.shuffle(perm)
        c["perm"] = perm
        c["reshape"] = list(rng.choice(factorisations(n, rng)))
        yield c
    from mpv import big, models
    for i in range(ctx.n(3, 30)):
        yield {"kind": "big", "cmd": big.NAMES[(i * ctx.nshards + ctx.shard) % len(big.NAMES)], "shape": list(big.SHAPES[(i + ctx.shard) % len(big.SHAPES)]),
               "rseed": rng.randrange(10 ** 9), "masked": i % 4 != 3}
    # a NetCDF variable of more than 2^20 cells stored as a grid and as a vector, both read with a MissingValue that occurs all
    # over the variable: the same cells are missing in both
    for i in range(ctx.n(2, 12)):
        j = i * ctx.nshards + ctx.shard
        yield {"kind": "bigread", "shape": [[1500, 1000], [1100, 1025], [3, 700, 501], [2049, 600]][j % 4], "rseed": rng.randrange(10 ** 9), "integer": j % 3 == 2}
    # CSV tables of one, two and zero rows: every result is a vector of that many cells
    for i in range(ctx.n(12, 600)):
        nrows = [1, 1, 2, 1, 3, 6, 12][i % 7]
        safe_ = [c for c in cmdgen.ALL if c not in cmdgen.STATS and "MeanToMid" not in c and "Curve" not in c]
        m = models.gen_model(rng, n_ops=rng.randint(1, 6), sinks=rng.random() < 0.6, table=models.gen_table(rng, nrows=nrows, exotic_names=False), cmds=safe_)
        if nrows >= 2 and i % 2:
            m["table"]["blank_before"] = sorted(set([1, nrows // 2, nrows - 1]))      # empty lines between the records
        if nrows >= 2 and i % 4 == 1:
            m["table"]["notes"] = ["plain", "two\nlines", "three\nphysical\nlines", "a, comma"]      # quoted fields of another column holding line breaks
        if nrows >= 2 and i % 3 == 0:
            # whole decimals written without a decimal point in the first row only, fractions in other rows
            m["table"]["bare_whole"] = [0]
            for c_ in m["table"]["cols"].values():
                if not c_["integer"] and c_["data"][0] != m["table"]["missing"]:
                    c_["data"][0] = float(rng.choice([3, -2, 7]))
                    c_["data"][1] = rng.choice([0.25, -0.5, 2.75])
        yield {"kind": "csvrows", "model": m, "nrows": nrows}
    for i in range(ctx.n(3, 30)):
        j = i * ctx.nshards + ctx.shard
        yield {"kind": "bigstat", "cmd": BIGSTAT[j % len(BIGSTAT)], "shape": list(big.SHAPES[(j // 2) % len(big.SHAPES)]), "rseed": rng.randrange(10 ** 9),
               "mask": ["band-first", "random", "band-last", "none", "band-first"][j % 5], "gradient": j % 2 == 0}
    from mpv import models
    for i in range(ctx.n(200, 10000)):
        n = rng.choice([4, 6, 8, 12, 16, 24])
        fs = factorisations(n, rng)
        # commands whose whole-array statistics are sums (z-scores, mean-to-mid) are left to the array-level relation above:
        # the summation order of a float reduction legitimately depends on the rank, and their outputs feed discontinuous
        # comparisons; every other command must be bit-identical
        safe = [c for c in cmdgen.ALL if c not in cmdgen.ZSCORE and "MeanToMid" not in c]
        m = models.gen_model(rng, n_ops=rng.randint(2, 10), sinks=rng.random() < 0.5, libs="nc", table=models.gen_table(rng, shape=(n,)), cmds=safe)
        m["libs"] = "nc"
        yield {"kind": "model", "model": m, "shape_a": [n], "shape_b": list(rng.choice([f for f in fs if len(f) > 1]))}


# commands whose result depends on whole-array statistics (minimum / maximum / mean / standard deviation)
BIGSTAT = [("Normalize", {}), ("CvtToFuzzy", {}), ("CvtToFuzzy", {"Direction": "HighToLow"}), ("CvtToFuzzy", {"TrueThreshold": 400}), ("NormalizeMeanToMid", {"IgnoreZeros": False, "NormalValues": [0, 1, 2, 3, 4]}),
           ("CvtToFuzzyMeanToMid", {"IgnoreZeros": True, "FuzzyValues": [-1, -0.5, 0, 0.5, 1]}), ("NormalizeZScore", {"TrueThresholdZScore": 1, "FalseThresholdZScore": -1}),
           ("CvtToFuzzyZScore", {"TrueThresholdZScore": 0.5, "FalseThresholdZScore": -0.75}), ("Normalize", {"StartVal": 2, "EndVal": 10})]


def run_csvrows(ctx, case):
    from mpv import models
    model, n = case["model"], case["nrows"]
    d = ctx.scratch()
    ctx.count("few_row_models")
    ctx.feature(("csvrows", n, tuple(sorted(set(c["cmd"] for c in model["commands"])))[:5]))
    try:
        prog = models.load(model, d)
    except Exception as e:
        ctx.dontcare("model does not load: %s" % type(e).__name__)
        return
    try:
        prog.run()
    except Exception as e:
        inner = type(getattr(e, "exc", None)).__name__ if type(e).__name__ == "UnexpectedError" else None
        if inner:
            # a table of one row is a table: nothing in the model may choke on a one-cell vector
            bad = [c["cmd"] for c in model["commands"]]
            ctx.fail("model-over-%s-row-table:raises-UnexpectedError/%s" % ("a-one" if n == 1 else "a-few", inner), {"rows": n, "commands": bad[:8], "error": str(e)[:200]})
        else:
            ctx.dontcare("few-row model raises %s" % type(e).__name__)
        return
    for cm in model["commands"]:
        # every column read holds the numbers of the table, whichever row they stand in
        if cm["cmd"] == "EEMSRead" and isinstance(prog.commands[cm["result"]]._result, numpy.ndarray):
            col = model["table"]["cols"][cm["args"]["InFieldName"]]
            got = prog.commands[cm["result"]]._result
            miss = cm["args"].get("MissingVal")
            for j_, v_ in enumerate(col["data"]):
                if miss is not None and float(v_) == float(miss):
                    continue
                if j_ < got.size and (numpy.ma.getmaskarray(got).reshape(-1)[j_] or float(numpy.ma.getdata(got).reshape(-1)[j_]) != float(v_)):
                    ctx.fail("EEMSRead:cells-not-independent:value-depends-on-the-other-rows-of-the-table", {"row": j_, "got": repr(numpy.ma.getdata(got).reshape(-1)[j_].item()), "want": v_, "first_row_text": models._cell_text(model["table"], col["data"][0], 0)})
                    return
    for name, c in prog.commands.items():
        r = c._result
        if isinstance(r, numpy.ndarray):
            ctx.count("shape_postconditions")
            if tuple(r.shape) != (n,):
                ctx.fail("%s:shape:table-of-%d-row%s" % (type(c).__name__, n, "" if n == 1 else "s"), {"result": name, "got": list(r.shape), "want": [n]})
                return


def run_bigstat(ctx, case):
    """Whole-array statistics on a raster of more than a million cells, with a no-data band at either end: the same cells in
    reverse order (and the rows of the grid in reverse order) must give the same results, cell for cell."""
    (cmd, params), shape = case["cmd"], tuple(case["shape"])
    rs = numpy.random.RandomState(case["rseed"] % (2 ** 31))
    n = int(numpy.prod(shape))
    data = numpy.round(rs.uniform(-1000.0, 1000.0, size=n) * 8) / 8.0
    if case["gradient"]:
        data = numpy.sort(data)
    mask = numpy.zeros(n, bool)
    band = 300000 + int(rs.randint(0, 5000))
    if case["mask"] == "band-first":
        mask[:band] = True
    elif case["mask"] == "band-last":
        mask[-band:] = True
    elif case["mask"] == "random":
        mask = rs.uniform(size=n) < 0.1
    ctx.feature(("bigstat", cmd, tuple(sorted(params)), len(shape), case["mask"], case["gradient"]))

    def run(d, m):
        a = numpy.ma.array(d.reshape(shape).copy(), mask=m.reshape(shape).copy()) if case["mask"] != "none" else numpy.ma.array(d.reshape(shape).copy())
        return arr.run_cmd(cmd, [a], params)[0]
    base = run(data, mask)
    ctx.count("large_rasters_checked")
    variants = [("reversed-cells", data[::-1], mask[::-1], lambda r: r.reshape(-1)[::-1])]
    if len(shape) >= 2:
        rows = numpy.arange(n).reshape(shape)[::-1].reshape(-1)        # the grid's first-axis slices in reverse order
        inv = numpy.argsort(rows)
        variants.append(("reversed-rows", data[rows], mask[rows], lambda r: r.reshape(-1)[inv]))
    for label, d2, m2, back in variants:
        other = run(d2, m2)
        ctx.count("permutation_checks")
        if base.ok != other.ok or (not base.ok and type(base.exc) is not type(other.exc)):
            ctx.fail("%s:permutation-changes-outcome:large-raster" % cmd, {"variant": label, "base": base.err and (base.inner() or base.err), "other": other.err and (other.inner() or other.err), "shape": list(shape), "mask": case["mask"]})
            return
        if not base.ok:
            continue
        if not isinstance(base.value, numpy.ndarray) or base.value.shape != shape or other.value.shape != shape:
            ctx.fail("%s:shape:large-raster" % cmd, {"got": list(getattr(base.value, "shape", [])), "want": list(shape)})
            return
        bm, bd = numpy.ma.getmaskarray(base.value).reshape(-1), numpy.ma.getdata(base.value).reshape(-1)
        om, od = back(numpy.ma.getmaskarray(other.value)), back(numpy.ma.getdata(other.value))
        if (bm != om).any():
            i = int(numpy.flatnonzero(bm != om)[0])
            ctx.fail("%s:cells-not-independent:large-raster:missing-cells-differ" % cmd, {"variant": label, "cell": i, "cells_differing": int((bm != om).sum()), "shape": list(shape), "mask": case["mask"], "params": params})
            return
        tol = 1e-9 if cmd in cmdgen.ZSCORE else 0.0
        with numpy.errstate(invalid="ignore"):
            bad = (numpy.abs(bd - od) > tol * numpy.maximum(1.0, numpy.abs(bd))) & ~bm
            bad |= (numpy.isnan(bd) != numpy.isnan(od)) & ~bm
        if bad.any():
            i = int(numpy.flatnonzero(bad)[0])
            ctx.fail("%s:cells-not-independent:large-raster:value-differs" % cmd, {"variant": label, "cell": i, "base": float(bd[i]), "other": float(od[i]), "cells_differing": int(bad.sum()), "shape": list(shape), "mask": case["mask"], "params": params})
            return


def run_big(ctx, case):
    """A raster of more than a million cells: the result has its shape, and any window of its cells equals what the command
    computes for that window alone (cells are computed independently, whatever the size of the array they sit in)."""
    from mpv import big
    cmd, shape = case["cmd"], tuple(case["shape"])
    params = big.ELEMENTWISE[cmd]
    fuzzy_in = cmd in arr.FUZZY_INPUT
    inputs = big.gen_inputs(cmd, shape, case["rseed"], case["masked"])
    ctx.feature(("big", cmd, len(shape), case["masked"]))
    out, _ = arr.run_cmd(cmd, inputs, params, fuzzy_inputs=fuzzy_in)
    if not out.ok:
        ctx.fail("%s:raises-%s:large-raster" % (cmd, out.inner() or out.err), {"shape": list(shape), "error": repr(out.exc)[:300]})
        return
    res = out.value
    ctx.count("shape_postconditions")
    ctx.count("large_rasters_checked")
    if not isinstance(res, numpy.ndarray) or tuple(res.shape) != shape:
        ctx.fail("%s:shape:large-raster" % cmd, {"got": list(getattr(res, "shape", [])), "want": list(shape)})
        return
    n = int(numpy.prod(shape))
    rm, rd = numpy.ma.getmaskarray(res).ravel(), numpy.ma.getdata(res).ravel()
    for (a, b) in big.windows(n, case["rseed"]):
        sub = [numpy.ma.array(numpy.ma.getdata(x).ravel()[a:b].copy(), mask=numpy.ma.getmaskarray(x).ravel()[a:b].copy()) for x in inputs]
        so, _ = arr.run_cmd(cmd, sub, params, fuzzy_inputs=fuzzy_in)
        ctx.count("window_checks")
        if not so.ok:
            ctx.fail("%s:window-raises-%s" % (cmd, so.inner() or so.err), {"window": [a, b]})
            return
        sm, sd = numpy.ma.getmaskarray(so.value), numpy.ma.getdata(so.value)
        if (sm != rm[a:b]).any():
            i = int(numpy.flatnonzero(sm != rm[a:b])[0])
            ctx.fail("%s:cells-not-independent:large-raster:missing-cells-differ" % cmd, {"cell": a + i, "in_raster": bool(rm[a + i]), "alone": bool(sm[i]), "shape": list(shape)})
            return
        ok = (sd == rd[a:b]) | sm
        if not ok.all():
            i = int(numpy.flatnonzero(~ok)[0])
            ctx.fail("%s:cells-not-independent:large-raster:value-differs" % cmd, {"cell": a + i, "in_raster": float(rd[a + i]), "alone": float(sd[i]), "shape": list(shape), "cells": n})
            return


def run_model(ctx, case):
    """The same NetCDF table stored as a vector and as a grid of another rank: every result of the same model must hold
    the same cells in the same order, in the shape of its inputs."""
    import copy
    from mpv import models
    model = case["model"]
    variants = []
    dirs = []
    written = []
    for shape in (case["shape_a"], case["shape_b"]):
        m = copy.deepcopy(model)
        m["table"]["shape"] = list(shape)
        m["table"].pop("dimnames", None)
        if len(shape) >= 2 and len(model["commands"]) % 2 == 0:
            # axes carrying geographic-looking names in either order: the order of the axes is the stored one
            m["table"]["dimnames"] = ["time", "band"][:len(shape) - 2] + [["lon", "lat"], ["x", "y"], ["lat", "lon"], ["col", "row"]][len(model["commands"]) // 2 % 4]
        d = ctx.scratch()
        dirs.append(d)
        try:
            prog = models.load(m, d)
            prog.run()
            variants.append((shape, {n: c._result for n, c in prog.commands.items() if isinstance(c._result, numpy.ndarray)}, None))
            written.append(_read_written(os.path.join(d, "out.nc")))
        except Exception as e:
            variants.append((shape, None, e))
    ctx.count("model_reshape_checks")
    ctx.feature(("model", len(case["shape_a"]), len(case["shape_b"]), tuple(sorted(set(c["cmd"] for c in model["commands"])))[:5]))
    (sa, ra, ea), (sb, rb, eb) = variants
    if (ea is None) != (eb is None) or (ea is not None and type(ea) is not type(eb)):
        ctx.fail("model:reshape-changes-outcome", {"shape_a": sa, "shape_b": sb, "a": repr(ea)[:200], "b": repr(eb)[:200]})
        return
    if ea is not None:
        ctx.dontcare("model raises %s for both shapes" % type(ea).__name__)
        return
    by = {c["result"]: c["cmd"] for c in model["commands"]}
    for n, a in ra.items():
        b = rb.get(n)
        if tuple(a.shape) != tuple(sa) or b is None or tuple(b.shape) != tuple(sb):
            ctx.fail("%s:shape:in-model" % by.get(n, "?"), {"result": n, "got": [list(a.shape), list(getattr(b, "shape", []))], "want": [list(sa), list(sb)]})
            return
        dd = _same(by.get(n, ""), a, b)
        if dd:
            ctx.fail("%s:cells-not-independent:reshape:in-model" % by.get(n, "?"), {"result": n, "diff": dd, "shape_a": sa, "shape_b": sb})
            return
    # what the model *wrote* (its EEMSWrite file), cell for cell, for the vector and for the grid
    if len(written) == 2 and written[0] is not None and written[1] is not None:
        ctx.count("written_files_compared")
        for vname, (wm, wd) in written[0].items():
            if vname not in written[1]:
                ctx.fail("EEMSWrite:written-file-differs-between-shapes:variable-missing", {"variable": vname})
                return
            wm2, wd2 = written[1][vname]
            if wm != wm2 or any(x != y for x, y, m_ in zip(wd, wd2, wm) if not m_):
                i = [k for k, (a_, b_) in enumerate(zip(wm, wm2)) if a_ != b_]
                ctx.fail("EEMSWrite:written-file-differs-between-shapes:%s" % ("missing-cells" if i else "values"), {"variable": vname, "cells": i[:5], "shape_a": sa, "shape_b": sb})
                return
    # the input file regenerated *in place* with its cells in reverse order (same path, same size in bytes), the model loaded
    # and run again in this process: every result follows the rearrangement
    m = copy.deepcopy(model)
    m["table"]["shape"] = list(sa)
    for c in m["table"]["cols"].values():
        c["data"] = list(reversed(c["data"]))
        if c.get("filemask"):
            c["filemask"] = [len(c["data"]) - 1 - j for j in c["filemask"]]      # the file's own missing cells move along
    ctx.count("same_path_rearrangements")
    try:
        prog = models.load(m, dirs[0])
        prog.run()
        rc = {n: c._result for n, c in prog.commands.items() if isinstance(c._result, numpy.ndarray)}
    except Exception as e:
        ctx.fail("model:rearranged-input-at-the-same-path-changes-outcome", {"error": repr(e)[:200], "shape": sa})
        return
    for n, a in ra.items():
        c = rc.get(n)
        if c is None or tuple(c.shape) != tuple(sa):
            ctx.fail("%s:shape:in-model" % by.get(n, "?"), {"result": n, "got": list(getattr(c, "shape", [])), "want": list(sa)})
            return
        back = numpy.ma.array(numpy.ma.getdata(c).reshape(-1)[::-1].reshape(sa), mask=numpy.ma.getmaskarray(c).reshape(-1)[::-1].reshape(sa))
        dd = _same(by.get(n, ""), a, back)
        if dd:
            ctx.fail("%s:cells-not-independent:input-file-rearranged-in-place:in-model" % by.get(n, "?"), {"result": n, "diff": dd, "shape": sa})
            return


def _read_written(path):
    """{variable: (mask cells, data cells)} of the result variables of a written NetCDF file, or None."""
    if not os.path.exists(path):
        return None
    from netCDF4 import Dataset
    out = {}
    with Dataset(path) as ds:
        for name, v in ds.variables.items():
            if name in ds.dimensions or v.ndim == 0:
                continue
            a = numpy.ma.asarray(v[:])
            out[name] = (numpy.ma.getmaskarray(a).reshape(-1).tolist(), numpy.ma.getdata(a).reshape(-1).tolist())
    return out


def _same(cmd, a, b):
    ca, cb = arr.cells(a), arr.cells(b)
    if len(ca) != len(cb):
        return ("cell-count", len(ca), len(cb))
    tol = 1e-9 if cmd in cmdgen.ZSCORE else 0.0
    for i, (x, y) in enumerate(zip(ca, cb)):
        if (x is None) != (y is None):
            return ("mask", i, x, y)
        if x is None:
            continue
        if tol == 0.0:
            if x != y:
                return ("value", i, x, y)
        elif abs(x - y) > tol * max(1.0, abs(x)):
            return ("value", i, x, y)
    return None


def run_bigread(ctx, case):
    from netCDF4 import Dataset
    shape = tuple(case["shape"])
    n = int(numpy.prod(shape))
    rs = numpy.random.RandomState(case["rseed"] % (2 ** 31))
    data = rs.randint(0, 40, size=n).astype("int64" if case["integer"] else "float64")      # few distinct values: the marker occurs everywhere
    d = ctx.scratch()
    for name, shp in (("grid.nc", shape), ("flat.nc", (n,))):
        with Dataset(os.path.join(d, name), "w") as ds:
            dims = []
            for i, e in enumerate(shp):
                ds.createDimension("d%d" % i, e)
                dims.append("d%d" % i)
            v = ds.createVariable("var", "i8" if case["integer"] else "f8", tuple(dims))
            v[:] = data.reshape(shp)
    marker = int(data[n - 7])
    ctx.count("large_variables_read_in_two_layouts")
    ctx.feature(("bigread", len(shape), case["integer"]))
    res = {}
    for name in ("grid.nc", "flat.nc"):
        o = arr.invoke(arr.new_program(arr.NC_LIBS, working_dir=d), "EEMSRead", "R", {"InFileName": name, "InFieldName": "var", "MissingValue": marker, "DataType": "Integer" if case["integer"] else "Float"})
        if not o.ok:
            ctx.fail("EEMSRead:raises-%s:large-variable" % (o.inner() or o.err), {"file": name, "shape": list(shape)})
            return
        res[name] = o.value
    if tuple(res["grid.nc"].shape) != shape or tuple(res["flat.nc"].shape) != (n,):
        ctx.fail("EEMSRead:shape:large-variable", {"got": [list(res["grid.nc"].shape), list(res["flat.nc"].shape)], "want": [list(shape), [n]]})
        return
    ga, fa = res["grid.nc"].reshape(-1), res["flat.nc"]
    gm, fm = numpy.ma.getmaskarray(ga), numpy.ma.getmaskarray(fa)
    want = data == marker
    if not numpy.array_equal(gm, fm) or not numpy.array_equal(gm, want):
        bad = gm != (fm if not numpy.array_equal(gm, fm) else want)
        ctx.fail("EEMSRead:cells-not-independent:grid-and-vector-of-a-large-variable-differ", {"cells_differing": int(bad.sum()), "first": int(numpy.nonzero(bad)[0][0]), "shape": list(shape)})
        return
    if not numpy.array_equal(numpy.ma.getdata(ga)[~gm], data[~gm]) or not numpy.array_equal(numpy.ma.getdata(fa)[~fm], data[~fm]):
        ctx.fail("EEMSRead:value:large-variable", {"shape": list(shape)})


def run_case(ctx, case):
    if case.get("kind") == "bigread":
        return run_bigread(ctx, case)
    if case.get("kind") == "model":
        return run_model(ctx, case)
    if case.get("kind") == "big":
        return run_big(ctx, case)
    if case.get("kind") == "bigstat":
        return run_bigstat(ctx, case)
    if case.get("kind") == "csvrows":
        return run_csvrows(ctx, case)
    cmd, params = case["cmd"], case["params"]
    fuzzy_in = cmd in arr.FUZZY_INPUT
    base_specs = case["inputs"]
    shape = tuple(base_specs[0]["shape"])
    ctx.feature((cmd, len(base_specs), len(shape), len(case["reshape"]), 1 in shape, tuple(sorted(set(s["dtype"] for s in base_specs))),
                 any(s["mask"] and any(s["mask"]) for s in base_specs)))
    inputs = [arr.build(s) for s in base_specs]
    run = arr.run_cmd
    if sum(case["perm"][:4]) % 7 == 0:
        # driven the way the repository's tests drive commands: execute() called directly, the same parameter objects every time
        run = arr.run_direct
        ctx.count("direct_execute_cases")
    out, _ = run(cmd, inputs, params, fuzzy_inputs=fuzzy_in)
    rk = "rank%d" % len(shape)
    if out.ok:
        ctx.count("shape_postconditions")
        res = out.value
        if not isinstance(res, numpy.ndarray) or tuple(res.shape) != shape:
            ctx.fail("%s:shape:%s" % (cmd, rk), {"got": list(getattr(res, "shape", [])), "want": list(shape), "n_inputs": len(inputs), "params": params})
            return
    # permutation of the cells of all inputs
    perm = case["perm"]

    def permuted(s):
        t = dict(s)
        t["data"] = [s["data"][j] for j in perm]
        t["mask"] = None if s["mask"] is None else [s["mask"][j] for j in perm]
        return t

    pin = [arr.build(permuted(s)) for s in base_specs]
    pout, _ = run(cmd, pin, params, fuzzy_inputs=fuzzy_in)
    ctx.count("permutation_checks")
    if out.ok != pout.ok or (not out.ok and type(out.exc) is not type(pout.exc)):
        ctx.fail("%s:permutation-changes-outcome" % cmd, {"base": out.err and (out.inner() or out.err), "permuted": pout.err and (pout.inner() or pout.err), "params": params})
    elif out.ok:
        base_flat = numpy.ma.asarray(out.value).reshape(-1)
        expect = base_flat[numpy.array(perm)] if len(perm) else base_flat
        if not isinstance(pout.value, numpy.ndarray) or pout.value.shape != shape:
            ctx.fail("%s:shape:%s" % (cmd, rk), {"got": list(getattr(pout.value, "shape", [])), "want": list(shape)})
        else:
            d = _same(cmd, expect, pout.value)
            if d:
                ctx.fail("%s:cells-not-independent:permutation:%s" % (cmd, rk), {"diff": d, "params": params, "shape": list(shape)})
    # memory layout: the same cells held Fortran-ordered / as a transposed view must give the same result
    if len(shape) >= 2:
        def relaid(a, how):
            d = numpy.ma.getdata(a)
            m = numpy.ma.getmaskarray(a)
            if how == "F":
                d2, m2 = numpy.asfortranarray(d), numpy.asfortranarray(m)
            elif how.startswith("axes"):
                # the same cells stored with two axes swapped: neither row-major nor column-major
                ax = {"axes102": (1, 0, 2), "axes021": (0, 2, 1)}[how] + tuple(range(3, d.ndim))
                inv = tuple(numpy.argsort(ax))
                d2 = numpy.ascontiguousarray(d.transpose(ax)).transpose(inv)
                m2 = numpy.ascontiguousarray(m.transpose(ax)).transpose(inv)
            else:
                d2 = numpy.ascontiguousarray(d.T).T
                m2 = numpy.ascontiguousarray(m.T).T
            return numpy.ma.array(d2, mask=m2) if a.mask is not numpy.ma.nomask else numpy.ma.array(d2)
        how = "F" if sum(case["perm"][:3]) % 2 == 0 else "T-view"
        if len(shape) >= 3 and sum(case["perm"][:5]) % 3 != 0:
            how = ["axes102", "axes021"][sum(case["perm"][:4]) % 2]
        lin = [relaid(a, how) for a in inputs]
        lout, _ = run(cmd, lin, params, fuzzy_inputs=fuzzy_in)
        ctx.count("layout_checks")
        if out.ok != lout.ok:
            ctx.fail("%s:memory-layout-changes-outcome" % cmd, {"layout": how, "base": out.err, "relaid": lout.err and (lout.inner() or lout.err)})
        elif out.ok:
            if not isinstance(lout.value, numpy.ndarray) or tuple(lout.value.shape) != shape:
                ctx.fail("%s:shape:%s" % (cmd, rk), {"got": list(getattr(lout.value, "shape", [])), "want": list(shape), "layout": how})
            else:
                dd = _same(cmd, out.value, lout.value)
                if dd:
                    ctx.fail("%s:cells-not-independent:memory-layout:%s" % (cmd, rk), {"diff": dd, "layout": how, "params": params, "shape": list(shape)})
    # reshape
    new = tuple(case["reshape"])

    def reshaped(s):
        t = dict(s)
        t["shape"] = list(new)
        return t

    rin = [arr.build(reshaped(s)) for s in base_specs]
    rout, _ = run(cmd, rin, params, fuzzy_inputs=fuzzy_in)
    ctx.count("reshape_checks")
    nk = "rank%d" % len(new)
    if out.ok != rout.ok or (not out.ok and type(out.exc) is not type(rout.exc)):
        ctx.fail("%s:reshape-changes-outcome:%s" % (cmd, nk), {"base": out.err and (out.inner() or out.err), "reshaped": rout.err and (rout.inner() or rout.err),
                                                               "from": list(shape), "to": list(new), "params": params})
    elif out.ok:
        if not isinstance(rout.value, numpy.ndarray) or tuple(rout.value.shape) != new:
            ctx.fail("%s:shape:%s" % (cmd, nk), {"got": list(getattr(rout.value, "shape", [])), "want": list(new), "n_inputs": len(rin)})
        else:
            d = _same(cmd, out.value, rout.value)
            if d:
                ctx.fail("%s:cells-not-independent:reshape:%s" % (cmd, nk), {"diff": d, "params": params, "from": list(shape), "to": list(new)})
            elif len(ctx.samples) < 4:
                ctx.sample({"cmd": cmd, "params": params, "shape": list(shape), "reshaped_to": list(new), "perm_head": perm[:8],
                            "result": arr.describe(out.value, 8)})
