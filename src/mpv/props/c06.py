"""C06 - fuzzy-logic operators compute the EEMS definitions and obey their algebra.

Monitor: postcondition on the result of every operator call (exact-rational reference per cell)
plus metamorphic law checks on the same inputs. Exhaustive over the product lattice
{-1,-7/8,..,1,missing}^n for n<=3 (each lattice point is one array cell), sampled for n=4,5.
"""
import itertools
from fractions import Fraction

import numpy

from mpv import arr, ref

ANCHORS = ['mpilot/libraries/eems/fuzzy.py:FuzzyOr.execute', 'mpilot/libraries/eems/fuzzy.py:FuzzyAnd.execute', 'mpilot/libraries/eems/fuzzy.py:FuzzyNot.execute', 'mpilot/libraries/eems/fuzzy.py:FuzzyUnion.execute', 'mpilot/libraries/eems/fuzzy.py:FuzzyWeightedUnion.execute', 'mpilot/libraries/eems/fuzzy.py:FuzzySelectedUnion.execute', 'mpilot/libraries/eems/fuzzy.py:FuzzyXOr.execute']   # repository functions the workload must enter (reported as anchors_reached / anchors_missed)
LEVEL = "exploration"
RULE = ("operator x parameter x input-order x layout cases; n<=3 inputs enumerate the complete 18^n value/missing lattice as "
        "array cells (rank 2-3 shapes also with inputs in Fortran-order / strided / negative-stride memory), n=4,5 sample cell tuples; a case is distinct by (operator, n, params, layout rank, order class)")
REQUIRED_COUNTERS = ["operators_in_written_out_programs", "operators_in_command_files", "other_case_spellings_of_the_choice", "inherited_fuzziness_producer_cases", "category_producer_cases", "direct_execute_calls", "command_object_input_calls", "ref_postconditions", "law_checks", "cells_compared", "repeated_field_cases", "mixed_dtype_cases", "saturated_field_cases", "memory_layout_cases", "plain_ndarray_cases", "large_rasters_checked", "real_producer_cases", "program_copies_checked"]
EXHAUSTIVE_NOTE = "complete {17 fuzzy values + missing}^n lattice for n = 1, 2, 3 in both tiers"
ASSUMPTIONS = ["reference models in mpv/ref.py (exact rationals) are the EEMS definitions as stated in the property",
               "numpy masked-array primitives are trusted", "FuzzyXOr with one input, k outside 1..n and zero weight sums are don't-care"]

VALUES = [i / 8.0 for i in range(-8, 9)] + [None]
OPS = ["FuzzyOr", "FuzzyAnd", "FuzzyUnion", "FuzzyXOr", "FuzzySelectedUnion", "FuzzyWeightedUnion", "FuzzyNot"]
BIT_EXACT_ORDER = ("FuzzyOr", "FuzzyAnd", "FuzzySelectedUnion", "FuzzyXOr")


def lattice_columns(n):
    cols = [[] for _ in range(n)]
    for tup in itertools.product(VALUES, repeat=n):
        for i, v in enumerate(tup):
            cols[i].append(v)
    return cols


def sampled_columns(rng, n, count):
    return [[rng.choice(VALUES) for _ in range(count)] for _ in range(n)]


def build_inputs(cols, shape, payload=0.0, dtypes=None, mem=None, plain=()):
    out = []
    for k, col in enumerate(cols):
        if k in plain:
            out.append(numpy.array(col, dtype="float64").reshape(shape))
            continue
        dt = dtypes[k] if dtypes else "float64"
        pl = payload if not dt.startswith("int") else 0
        data = numpy.array([pl if v is None else v for v in col], dtype=dt).reshape(shape)
        mask = numpy.array([v is None for v in col], dtype=bool).reshape(shape)
        if mem and mem[k]:
            # the same cells held in another memory layout (Fortran order, strided view, negative stride)
            out.append(numpy.ma.array(arr._relayout(data, mem[k]), mask=arr._relayout(mask, mem[k]), copy=False))
        else:
            out.append(numpy.ma.array(data, mask=mask))
    return out


def param_sets(rng, op, n, quick):
    if op == "FuzzySelectedUnion":
        return [{"TruestOrFalsest": w, "NumberToConsider": k} for w in ("Truest", "Falsest") for k in range(1, n + 1)]
    if op == "FuzzyWeightedUnion":
        sets = [[1] * n, [rng.randint(1, 9) for _ in range(n)], [rng.randint(1, 32) / 8.0 for _ in range(n)]]
        if n > 1:
            w = [rng.randint(1, 9) for _ in range(n)]
            w[rng.randrange(n)] = 0
            sets.append(w)
            sets.append([rng.choice([1, 2.5]) for _ in range(n)])
        # weights are relative: tiny ones and ones with many decimals are as good as any
        sets.append([rng.choice([2e-7, 6e-7, 1e-7, 3e-7]) for _ in range(n)])
        sets.append([rng.choice([0.1234567, 0.7654321, 1.0 / 3, 0.1 + 0.2]) for _ in range(n)])
        return [{"Weights": w} for w in sets]
    return [{}]


def layouts(total, n):
    if n == 1:
        return [(total,), (total, 1), (2, 3, 3)]
    if n == 2:
        return [(total,), (18, 18), (2, 9, 18), (1, total), (18, 1, 18)]         # grids with an axis of length one among them
    if n == 3:
        return [(total,), (324, 18), (18, 18, 18), (total, 1)]
    return [(total,)]


def cases(ctx):
    rng = ctx.rng("cases")
    idx = 0
    # exhaustive lattice n = 1..3
    for n in (1, 2, 3):
        total = 18 ** n
        for op in OPS:
            if (op == "FuzzyNot") != (n == 1) and op == "FuzzyNot":
                continue
            for params in param_sets(rng, op, n, ctx.quick):
                orders = list(itertools.permutations(range(n)))
                for li, shape in enumerate(layouts(total, n)):
                    for order in (orders if li == 0 else [orders[-1]]):
                        if ctx.mine(idx):
                            yield {"kind": "lattice", "n": n, "op": op, "params": params, "shape": list(shape), "order": list(order)}
                        idx += 1
                        if li > 0:
                            mem = [rng.choice(arr.LAYOUTS + (None,)) for _ in range(n)]
                            if not any(mem):
                                mem[rng.randrange(n)] = rng.choice(arr.LAYOUTS)
                            if ctx.mine(idx):
                                yield {"kind": "lattice", "n": n, "op": op, "params": params, "shape": list(shape), "order": list(order), "mem": mem}
                            idx += 1
    # repeated fields ([A, A, B]) and mixed element types (crisp integer -1/0/1 fields, float32 fields) in any order
    for r in range(ctx.n(40, 2000)):
        n = rng.choice([2, 3, 3, 4])
        op = rng.choice([o for o in OPS if o != "FuzzyNot"])
        refs = [rng.randrange(n - 1) for _ in range(n)]
        refs[rng.randrange(n)] = refs[0]
        ps = param_sets(rng, op, n, ctx.quick)
        yield {"kind": "sampled", "n": n, "op": op, "params": rng.choice(ps), "shape": [400], "order": list(range(n)), "count": 400, "rseed": rng.randrange(10 ** 9), "refs": refs}
    for r in range(ctx.n(40, 2000)):
        n = rng.choice([2, 3, 4])
        op = rng.choice([o for o in OPS if o != "FuzzyNot"])
        dts = [rng.choice(["int64", "float32", "float64", "float64", "int8", "int32"]) for _ in range(n)]
        if len(set(dts)) == 1 and dts[0] == "float64":
            dts[0] = rng.choice(["int64", "float32", "int8"])
        if r % 5 == 0:
            dts = [rng.choice(["int64", "int8", "int16"])] * n          # crisp layers only, all of one integer type
        order = list(range(n))
        rng.shuffle(order)
        ps = param_sets(rng, op, n, ctx.quick)
        prm = rng.choice(ps)
        if op == "FuzzyWeightedUnion" and any(d in ("int8", "int16") for d in dts) and rng.random() < 0.6:
            prm = {"Weights": [float(rng.choice([60, 40, 30, 100, 7])) for _ in range(n)]}      # whole-valued decimals: decimals all the same
        if r % 10 == 5:
            # crisp layers of one narrow whole-number type, whole-valued decimal weights whose sum does not fit that type
            dts = [rng.choice(["int8", "int8", "int16"])] * n
            op, prm = "FuzzyWeightedUnion", {"Weights": [float(w_) * (300 if dts[0] == "int16" else 1) for w_ in [100, 60, 40, 30][:n]]}
        if r % 10 == 0:
            # crisp whole-number layers only, weights that are not whole numbers
            op, prm = "FuzzyWeightedUnion", {"Weights": [rng.choice([1.5, 0.5, 0.25, 0.75, 2.5]) for _ in range(n)]}
        yield {"kind": "sampled", "n": n, "op": op, "params": prm, "shape": [400], "order": order, "count": 400, "rseed": rng.randrange(10 ** 9), "dtypes": dts}
    for r in range(ctx.n(6, 300)):
        n = rng.choice([2, 3])
        ws = [[2e-7, 6e-7, 1e-7], [0.1234567, 0.7654321, 0.5], [1e-9, 3e-9, 5e-9], [1.0 / 3, 2.0 / 3, 1.0 / 7], [0.0000004, 0.9999996, 0.3]][r % 5][:n]
        yield {"kind": "savedweights", "n": n, "params": {"Weights": ws},
               "cols": [[rng.choice([-1.0, -0.5, 0.0, 0.25, 0.75, 1.0, None]) for _ in range(12)] for _ in range(n)]}
    # a field that is fully true (or fully false) everywhere, listed before fields with missing cells
    for r in range(ctx.n(24, 1000)):
        n = rng.choice([2, 3, 4])
        op = rng.choice(["FuzzyOr", "FuzzyAnd", "FuzzyOr", "FuzzyAnd", "FuzzyUnion", "FuzzySelectedUnion", "FuzzyXOr"])
        ps = param_sets(rng, op, n, ctx.quick)
        yield {"kind": "sampled", "n": n, "op": op, "params": rng.choice(ps), "shape": [300], "order": list(range(n)), "count": 300, "rseed": rng.randrange(10 ** 9),
               "saturate": rng.choice([1.0, -1.0]), "saturate_pos": rng.randrange(n)}
    # the operators on rasters of 2^18 .. 2^19 cells and a bit (block-wise code paths), judged through the algebra, vectorised
    for r in range(ctx.n(2, 16)):
        j = r * ctx.nshards + ctx.shard
        yield {"kind": "biglaw", "n": rng.choice([2, 3, 4]), "shape": list([(300000,), (2 ** 18 + 1,), (600, 550), (2 ** 19 + 7,), (3, 333, 301), (2 ** 18,)][j % 6]), "rseed": rng.randrange(10 ** 9)}
    # fields produced by real commands (FuzzyNot of a stand-in), also a single one; and the operator in a deep copy of the
    # program whose input fields were replaced
    for r in range(ctx.n(60, 3000)):
        n = rng.choice([1, 1, 2, 3])
        op = rng.choice([o for o in OPS if o != "FuzzyNot" and (n > 1 or o != "FuzzyXOr")])
        ps = param_sets(rng, op, n, ctx.quick)
        yield {"kind": "sampled", "n": n, "op": op, "params": rng.choice(ps), "shape": [200], "order": list(range(n)), "count": 200, "rseed": rng.randrange(10 ** 9),
               "real_producers": True, "in_copy": rng.random() < 0.5}
    # one of the fields has no valid cell at all; and crisp fields made by CvtToFuzzyCat from whole-number fuzzy values
    for r in range(ctx.n(30, 1500)):
        n = rng.choice([1, 2, 3])
        op = rng.choice([o for o in OPS if (o == "FuzzyNot") == (n == 1) or (n == 1 and o in ("FuzzyOr", "FuzzyAnd", "FuzzyUnion"))])
        if op == "FuzzyXOr" and n < 2:
            op = "FuzzyOr"
        ps = param_sets(rng, op, n, ctx.quick)
        yield {"kind": "sampled", "n": n, "op": op, "params": rng.choice(ps), "shape": [60], "order": list(range(n)), "count": 60, "rseed": rng.randrange(10 ** 9), "all_missing": rng.randrange(n)}
        n2 = rng.choice([1, 2, 3])
        op2 = rng.choice([o for o in OPS if o != "FuzzyNot" and (n2 > 1 or o != "FuzzyXOr")])
        yield {"kind": "sampled", "n": n2, "op": op2, "params": rng.choice(param_sets(rng, op2, n2, ctx.quick)), "shape": [60], "order": list(range(n2)), "count": 60, "rseed": rng.randrange(10 ** 9),
               "real_producers": True, "in_copy": False, "cat_producers": True}
    # sampled n = 4, 5
    reps = ctx.n(24, 400)
    count = 1500 if ctx.quick else 20000
    for r in range(reps):
        n = rng.choice([4, 5])
        op = rng.choice([o for o in OPS if o != "FuzzyNot"])
        ps = param_sets(rng, op, n, ctx.quick)
        order = list(range(n))
        rng.shuffle(order)
        shape = rng.choice([(count,), (count // 50, 50), (count // 100, 10, 10)])
        c = {"kind": "sampled", "n": n, "op": op, "params": rng.choice(ps), "shape": list(shape), "order": order,
             "count": count, "rseed": rng.randrange(10 ** 9)}
        if rng.random() < 0.5:
            c["mem"] = [rng.choice(arr.LAYOUTS + (None,)) for _ in range(n)]
        yield c
    # plain ndarrays (nothing missing) among masked fields, in any position; weights given as NumPy scalars
    for r in range(ctx.n(40, 2000)):
        n = rng.choice([2, 3, 3, 4])
        op = rng.choice([o for o in OPS if o != "FuzzyNot"])
        order = list(range(n))
        rng.shuffle(order)
        ps = param_sets(rng, op, n, ctx.quick)
        c = {"kind": "sampled", "n": n, "op": op, "params": rng.choice(ps), "shape": [300], "order": order, "count": 300, "rseed": rng.randrange(10 ** 9),
             "plain": sorted(rng.sample(range(n), rng.randint(1, n - 1)))}
        if op == "FuzzyWeightedUnion" and rng.random() < 0.7:
            c["weights_as"] = rng.choice(["float32", "float32", "float64", "int64"])
            c["params"] = {"Weights": [rng.choice([1, 2, 3, 5]) if c["weights_as"].startswith("int") else rng.choice([0.5, 1.5, 2.25, 3.0, 0.75]) for _ in range(n)]}
        yield c


def _columns(case):
    if case["kind"] == "lattice":
        return lattice_columns(case["n"])
    if case["kind"] == "sampled":
        import random
        cols = sampled_columns(random.Random(case["rseed"]), case["n"], case["count"])
        if case.get("saturate") is not None:
            cols[case["saturate_pos"]] = [case["saturate"]] * case["count"]
        if case.get("all_missing") is not None:
            cols[case["all_missing"]] = [None] * case["count"]         # a field without a single valid cell
        if case.get("cat_producers"):
            cols = [[None if v is None else (1.0 if v > 0 else 0.0) for v in c] for c in cols]      # crisp: undetermined / fully true
        for k, dt in enumerate(case.get("dtypes") or []):
            if dt.startswith("int"):     # crisp fields: fully false / undetermined / fully true
                cols[k] = [None if v is None else float(round(v)) for v in cols[k]]
        for k in case.get("plain") or []:
            cols[k] = [0.125 if v is None else v for v in cols[k]]       # a plain ndarray has nothing missing
        return cols
    return [[None if v is None else float(v) for v in col] for col in case["cols"]]


def _weights_for(params, order):
    p = dict(params)
    if "Weights" in p:
        p["Weights"] = [params["Weights"][i] for i in order]
    return p


def _weights_as(params, how):
    """The same weights handed over as NumPy scalars (what the programming interface may be given)."""
    if not how or "Weights" not in params:
        return params
    conv = {"float32": numpy.float32, "float64": numpy.float64, "int64": numpy.int64}[how]
    p = dict(params)
    p["Weights"] = [conv(w) for w in params["Weights"]]
    return p


def _call(op, inputs, params, refs=None):
    out, prog = arr.run_cmd(op, inputs, params, fuzzy_inputs=True, refs=refs, objects="own")     # a quarter: fields handed over as command objects
    if getattr(prog, "_mpv_object_mode", False):
        _objmode["n"] += 1
    return out


_objmode = {"n": 0}


def _rank_key(shape):
    return "rank%d" % len(shape)


def _one_cell_case(case, cols, i):
    return {"kind": "explicit", "n": case["n"], "op": case["op"], "params": case["params"], "shape": [1],
            "order": case["order"], "cols": [[c[i]] for c in cols]}


def run_biglaw(ctx, case):
    import random as _r
    n, shape = case["n"], tuple(case["shape"])
    rs = numpy.random.RandomState(case["rseed"] % (2 ** 31))
    inputs = []
    for k in range(n):
        data = numpy.round(rs.uniform(-1, 1, size=shape) * 8) / 8.0
        inputs.append(numpy.ma.array(data, mask=(rs.uniform(size=shape) < 0.05)))
    union = numpy.zeros(shape, bool)
    for a in inputs:
        union |= numpy.ma.getmaskarray(a)
    stack = numpy.stack([numpy.ma.getdata(a) for a in inputs])
    want = {"FuzzyOr": stack.max(axis=0), "FuzzyAnd": stack.min(axis=0), "FuzzyUnion": stack.mean(axis=0)}
    ctx.feature(("biglaw", n, len(shape), int(numpy.prod(shape)) % (2 ** 18) == 0))
    ctx.count("operator_calls", 7)
    ctx.count("large_rasters_checked")
    calls = [("FuzzyOr", {}, "FuzzyOr"), ("FuzzyAnd", {}, "FuzzyAnd"), ("FuzzyUnion", {}, "FuzzyUnion"),
             ("FuzzySelectedUnion", {"TruestOrFalsest": "Truest", "NumberToConsider": 1}, "FuzzyOr"), ("FuzzySelectedUnion", {"TruestOrFalsest": "Falsest", "NumberToConsider": 1}, "FuzzyAnd"),
             ("FuzzySelectedUnion", {"TruestOrFalsest": "Truest", "NumberToConsider": n}, "FuzzyUnion"), ("FuzzyWeightedUnion", {"Weights": [2] * n}, "FuzzyUnion")]
    for op, params, like in calls:
        out = _call(op, inputs, params)
        if not out.ok:
            ctx.fail("%s:raises-%s:large-raster" % (op, out.inner() or out.err), {"shape": list(shape), "n": n})
            return
        res = out.value
        ctx.count("law_checks")
        ctx.count("cells_compared", int(res.size))
        rm, rd = numpy.ma.getmaskarray(res), numpy.ma.getdata(res)
        if tuple(res.shape) != shape or (rm != union).any():
            i = int(numpy.flatnonzero((rm != union).ravel())[0]) if tuple(res.shape) == shape else None
            ctx.fail("%s:%s:large-raster" % (op, "shape" if i is None else "missing-cell-present" if union.ravel()[i] else "valid-cell-missing"), {"cell": i, "cells": int(numpy.prod(shape)), "shape": list(shape), "params": params})
            return
        bad = (numpy.abs(rd - want[like]) > 1e-12) & ~union
        if bad.any():
            i = int(numpy.flatnonzero(bad.ravel())[0])
            ctx.fail("%s:value:large-raster" % op, {"cell": i, "got": float(rd.ravel()[i]), "want": float(want[like].ravel()[i]), "shape": list(shape), "params": params})
            return


def finish(ctx):
    ctx.count("command_object_input_calls", _objmode["n"])


def run_case(ctx, case):
    if case["kind"] == "biglaw":
        return run_biglaw(ctx, case)
    if case["kind"] == "savedweights":
        # the weighted union in a program that was written out and loaded again: weights are relative, tiny ones and ones with
        # many decimals count in full
        cols = [[None if v is None else Fraction(v) for v in c] for c in case["cols"]]
        want, scale = ref.MODELS["FuzzyWeightedUnion"](cols, case["params"])
        ctx.feature(("savedweights", case["n"], repr(case["params"]["Weights"])[:40]))
        _run_text(ctx, "FuzzyWeightedUnion", case["n"], case["params"], cols, want, scale, force_style=3)
        return
    op, n, params, shape, order = case["op"], case["n"], case["params"], tuple(case["shape"]), case["order"]
    cols = _columns(case)
    total = len(cols[0])
    if case["kind"] == "explicit":
        shape = (total,)
    refs, dtypes = case.get("refs"), case.get("dtypes")
    ocols = [cols[i] for i in order]
    oparams = _weights_for(params, order)
    odt = [dtypes[i] for i in order] if dtypes else None
    mem = case.get("mem")
    if mem:
        ctx.count("memory_layout_cases")
    plain = [order.index(k) for k in case.get("plain") or []]
    if plain:
        ctx.count("plain_ndarray_cases")
    inputs = build_inputs(ocols, shape, payload=ctx.rng("payload", op, n).choice([0.0, 1e30, -1e30, 0.5]), dtypes=odt, mem=[mem[i] for i in order] if mem else None, plain=plain)
    call_params = _weights_as(oparams, case.get("weights_as"))
    if not dtypes and not mem and total % 3 == 0:
        # complete fields (no missing cell) that carry a fill value which is itself a fuzzy value occurring in the data
        for k_, a_ in enumerate(inputs):
            if isinstance(a_, numpy.ma.MaskedArray) and not numpy.ma.getmaskarray(a_).any():
                a_.fill_value = [0.0, -1.0, 1.0, 0.5][(k_ + total) % 4]
    if case.get("real_producers"):
        return _run_real(ctx, case, op, n, oparams, ocols, inputs, shape)
    if refs:
        ctx.count("repeated_field_cases")
        ocols = [ocols[i] for i in refs]
    if dtypes:
        ctx.count("mixed_dtype_cases")
    ctx.feature((op, n, tuple(sorted((k, str(v)) for k, v in params.items())), len(shape), "identity" if order == sorted(order) else "permuted", bool(refs), tuple(odt or ()), tuple(m or "C" for m in mem) if mem else (), tuple(plain), case.get("weights_as")))
    ctx.count("operator_calls")
    fcols = [[None if v is None else Fraction(v) for v in c] for c in ocols]
    try:
        want, scale = ref.MODELS[op](fcols, oparams)
    except ref.Undefined as e:
        ctx.dontcare("%s: %s" % (op, e))
        out = _call(op, inputs, call_params, refs)
        return
    out = _call(op, inputs, call_params, refs)
    rk = _rank_key(shape)
    if not out.ok:
        ctx.fail("%s:raises-%s:%s" % (op, out.inner() or out.err, rk), {"error": repr(out.exc)[:300], "n": n, "params": params, "shape": list(shape)},
                 case if case["kind"] != "explicit" else case)
        return
    res = out.value
    if not isinstance(res, numpy.ndarray) or tuple(res.shape) != shape:
        ctx.fail("%s:shape:%s" % (op, rk), {"got_shape": list(getattr(res, "shape", [])), "want_shape": list(shape), "n": n})
        return
    ctx.count("ref_postconditions")
    ctx.count("cells_compared", total)
    bad = ref.compare(res, want, scale=scale, rel=1e-6 if (dtypes and "float32" in dtypes) or case.get("weights_as") == "float32" else 1e-12)
    if bad:
        kind, i, g, w = bad
        small = _one_cell_case(case, cols, i) if i is not None and not refs and not dtypes else case
        nclass = ("n%d" % n if n <= 2 else "n>=3") + (":non-contiguous-input" if mem else "") + (":plain-ndarray-among-inputs" if plain else "") + (":weights-as-%s" % case["weights_as"] if case.get("weights_as") else "")
        ctx.fail("%s:%s:%s:%s" % (op, kind, nclass, rk),
                 {"cell_inputs": [c[i] for c in ocols] if i is not None else None, "got": g, "want": w, "params": oparams, "shape": list(shape)}, small)
        return
    if op == "FuzzySelectedUnion" and not refs and (total + n) % 2 == 0:
        # the choice written in another letter case: refused, or taken for what it says - never for the opposite
        word = params["TruestOrFalsest"]
        alt = dict(call_params, TruestOrFalsest=[word.lower(), word.upper(), word.swapcase()][(total + n) % 3])
        aout = _call(op, inputs, alt, refs)
        ctx.count("other_case_spellings_of_the_choice")
        if aout.ok:
            bad = ref.compare(aout.value, want, scale=scale, rel=1e-6 if (dtypes and "float32" in dtypes) else 1e-12)
            if bad:
                ctx.fail("FuzzySelectedUnion:%s:TruestOrFalsest-written-in-another-case-is-taken-for-something-else" % bad[0], {"written": alt["TruestOrFalsest"], "cell": bad[1], "got": bad[2], "want": bad[3], "k": params["NumberToConsider"], "n": n})
                return
        elif aout.err != "InvalidTruestOrFalsest":
            ctx.fail("FuzzySelectedUnion:other-case-spelling-raises-%s" % (aout.inner() or aout.err), {"written": alt["TruestOrFalsest"]})
            return
    if not refs and not dtypes and not mem and not plain and len(shape) == 1 and total <= 400 and (total + 2 * n + len(op)) % 4 == 0:
        if _run_text(ctx, op, n, oparams, ocols, want, scale) is False:
            return
    if not refs and (total + n + len(op)) % 3 == 0:
        # the operator driven the way the repository's tests drive it (execute() on stand-in producers), the fields given as a
        # tuple / an iterator / a generator: the same result
        for seq in ("tuple", "iter", "gen", None):
            dout, _ = arr.run_direct(op, inputs, call_params, fuzzy_inputs=True, seq=seq)
            ctx.count("direct_execute_calls")
            if not dout.ok:
                ctx.fail("%s:direct-execute-raises-%s:%s" % (op, type(dout.exc).__name__, "fields-as-" + str(seq)), {"error": repr(dout.exc)[:200], "n": n})
                return
            if arr.digest(numpy.ma.asarray(dout.value)) != arr.digest(numpy.ma.asarray(res)):
                ctx.fail("%s:direct-execute-differs:fields-as-%s" % (op, seq), {"n": n, "params": oparams, "got": arr.describe(dout.value, 8), "want": arr.describe(res, 8)})
                return
    if len(ctx.samples) < 3 and case["kind"] == "lattice" and n == 2:
        ctx.sample({"case": {k: v for k, v in case.items()}, "cells": total, "first_cells": [[c[j] for c in ocols] for j in (0, 17, 100)],
                    "results": [arr.cells(res)[j] for j in (0, 17, 100)]})

    # ---- metamorphic laws on the same inputs (identity order is the base)
    if order != sorted(order) and not refs:
        base_inputs = build_inputs(cols, shape, dtypes=dtypes)
        base = _call(op, base_inputs, params)
        ctx.count("law_checks")
        if base.ok:
            if op in BIT_EXACT_ORDER:
                same = arr.digest(numpy.ma.asarray(base.value)) == arr.digest(numpy.ma.asarray(res))
            else:
                # (single-precision fields are combined in single precision: the order of the fields moves the result by rounding)
                same = ref.compare(res, [None if c is None else Fraction(c) for c in arr.cells(base.value)], rel=1e-6 if (dtypes and "float32" in dtypes) else 1e-12) is None
            if not same:
                ctx.fail("%s:order-dependent:%s" % (op, rk), {"order": order, "n": n, "params": params})
        else:
            ctx.fail("%s:order-dependent-outcome:%s" % (op, rk), {"order": order, "error": repr(base.exc)[:200]})
    if case.get("saturate") is not None:
        ctx.count("saturated_field_cases")
    if order == sorted(order) and len(shape) == 1 and not refs and not dtypes:
        _laws(ctx, case, op, n, params, cols, inputs, res, shape)
    if n >= 2:
        # other operators on the same fields, then the operator again
        for other in ("FuzzyXOr", "FuzzySelectedUnion"):
            _call(other, inputs, {"TruestOrFalsest": "Truest", "NumberToConsider": 1} if other == "FuzzySelectedUnion" else {})
        _reevaluate(ctx, op, inputs, oparams, refs, res, rk)


V2NAME = {"FuzzyOr": "OR", "FuzzyAnd": "AND", "FuzzyNot": "NOT", "FuzzyUnion": "UNION", "FuzzyWeightedUnion": "WTDUNION", "FuzzySelectedUnion": "SELECTEDUNION", "FuzzyXOr": "XOR"}
_text_calls = {"n": 0}


def _run_text(ctx, op, n, params, cols, want, scale, force_style=None):
    """The operator in a command file over fields read from a table: under its MPilot name, and under its EEMS 2.0 name both in
    the 2.0 layout and with a result name in front."""
    import os
    from mpilot.program import Program
    _text_calls["n"] += 1
    d = ctx.scratch()
    with open(os.path.join(d, "f.csv"), "w") as f:
        f.write(",".join("c%d" % k for k in range(n)) + "\n")
        for r in range(len(cols[0])):
            f.write(",".join("-9999" if c[r] is None else repr(float(c[r])) for c in cols) + "\n")
    lines = []
    for k in range(n):
        lines.append('R%d = EEMSRead(InFileName = "f.csv", InFieldName = c%d, MissingVal = -9999)' % (k, k))
        lines.append("F%d = CvtToFuzzy(InFieldName = R%d, TrueThreshold = 1, FalseThreshold = -1)" % (k, k))
    args = ["InFieldName = F0"] if op == "FuzzyNot" else ["InFieldNames = [%s]" % ", ".join("F%d" % k for k in range(n))]
    args += ["%s = %s" % (a_, "[%s]" % ", ".join(repr(x) for x in v_) if isinstance(v_, list) else (v_ if isinstance(v_, str) else repr(v_))) for a_, v_ in params.items()]
    style = _text_calls["n"] % 4 if force_style is None else force_style
    if style in (0, 3):
        lines.append("Res = %s(%s)" % (op, ", ".join(args)))
    elif style == 1:
        lines.append("Res = %s(%s)" % (V2NAME[op], ", ".join(args)))                       # the 2.0 name with a result name in front
    else:
        lines.append("%s(%s, NewFieldName = Res)" % (V2NAME[op], ", ".join(args)))          # the 2.0 layout
    text = "\n".join(lines)
    ctx.count("operators_in_command_files")
    try:
        p_ = Program.from_source(text, working_dir=d)
        if style == 3:
            # ... written out by the program and loaded again
            p_ = Program.from_source(p_.to_string(), working_dir=d)
            ctx.count("operators_in_written_out_programs")
        p_.run()
        res = p_.commands["Res"].result
    except Exception as e:
        ctx.fail("%s:in-a-command-file:raises-%s:%s" % (op, type(e).__name__, ["mpilot-name", "eems2-name-with-a-result-name", "eems2-layout", "written-out-and-loaded"][style]), {"error": str(e)[:200], "line": lines[-1]})
        return False
    bad = ref.compare(res, want, scale=scale, rel=1e-12)
    if bad:
        ctx.fail("%s:%s:in-a-command-file%s" % (op, bad[0], ":written-out-and-loaded" if style == 3 else ""), {"cell": bad[1], "got": bad[2], "want": bad[3], "line": lines[-1]})
        return False
    return True


def _run_real(ctx, case, op, n, params, cols, inputs, shape):
    """The operator over results of real commands: each field is FuzzyNot of a stand-in holding its negation (exact). Optionally
    the whole (not yet evaluated) program is deep-copied, the stand-ins of the copy are replaced by other fields, and the copy
    is evaluated: it computes from its own fields."""
    import copy
    import os
    write = not case.get("in_copy") and n >= 2 and case["rseed"] % 2 == 0
    d = ctx.scratch() if write else None
    prog = arr.new_program(arr.NC_LIBS if write else arr.CSV_LIBS, working_dir=d)
    ctx.count("real_producer_cases")
    cat = bool(case.get("cat_producers"))
    inherit = not cat and not case.get("in_copy") and case["rseed"] % 5 == 4
    if cat:
        write = False
        ctx.count("category_producer_cases")
    if inherit:
        # the fields are made by a user's command class that inherits its fuzziness from the built-in class it extends
        write = False
        prog = arr.new_program(arr.CSV_LIBS + ("usercmds",))
        ctx.count("inherited_fuzziness_producer_cases")
    for k, a in enumerate(inputs):
        if cat:
            # the field is made by CvtToFuzzyCat from category codes, its fuzzy values written as whole numbers
            arr.standin(prog, "S%d" % k, numpy.ma.array(numpy.where(numpy.ma.getdata(a) > 0, 7, 3).astype("int64"), mask=numpy.ma.getmaskarray(a).copy()), fuzzy=False)
            prog.add_command(prog.find_command_class("CvtToFuzzyCat"), "P%d" % k, {"InFieldName": "S%d" % k, "RawValues": [7, 3], "FuzzyValues": [1, 0], "DefaultFuzzyValue": 0})
            continue
        if inherit:
            arr.standin(prog, "S%d" % k, numpy.ma.array(numpy.ma.getdata(a).copy(), mask=numpy.ma.getmaskarray(a).copy()), fuzzy=False)
            prog.add_command(prog.find_command_class("MyConv"), "P%d" % k, {"InFieldName": "S%d" % k, "TrueThreshold": 1, "FalseThreshold": -1})
            continue
        arr.standin(prog, "S%d" % k, -a, fuzzy=True)
        prog.add_command(prog.find_command_class("FuzzyNot"), "P%d" % k, {"InFieldName": "S%d" % k})
    prog.add_command(prog.find_command_class(op), "Res", dict(params, InFieldNames=["P%d" % k for k in range(n)]))
    runs = [(prog, cols, "")]
    if cat:
        # Not of every such field is its negation
        for k in range(n):
            neg = arr.invoke(prog, "FuzzyNot", "NotP%d" % k, {"InFieldName": "P%d" % k})
            ctx.count("law_checks")
            if not neg.ok:
                ctx.fail("FuzzyNot:raises-%s:field-made-by-CvtToFuzzyCat" % (neg.inner() or neg.err), {"error": repr(neg.exc)[:200]})
                return
            bad = ref.compare(neg.value, [None if v is None else Fraction(-v) for v in cols[k]], rel=1e-12)
            if bad:
                ctx.fail("FuzzyNot:%s:field-made-by-CvtToFuzzyCat-from-whole-numbers" % bad[0], {"cell": bad[1], "got": bad[2], "want": bad[3], "dtype": str(prog.commands["P%d" % k]._result.dtype)})
                return
    if not cat and not inherit and not case.get("in_copy") and not write and case["rseed"] % 3 == 1:
        # before anything is evaluated the caller swaps other source fields in under the same names: the program computes from
        # the fields it holds when it is run
        ctx.count("source_fields_replaced_before_the_run")
        for k in range(n):
            arr.standin(prog, "S%d" % k, numpy.ma.array(numpy.ma.getdata(inputs[k]).copy(), mask=numpy.ma.getmaskarray(inputs[k]).copy()), fuzzy=True)     # the negated field
        runs = [(prog, [[None if v is None else -v for v in c] for c in cols], ":source-fields-replaced-before-the-run")]
    if case.get("in_copy"):
        clone = copy.deepcopy(prog)
        ctx.count("program_copies_checked")
        for k in range(n):
            clone.commands["S%d" % k]._result = numpy.ma.array(numpy.ma.getdata(inputs[k]).copy(), mask=numpy.ma.getmaskarray(inputs[k]).copy())     # the negated field
        runs = [(clone, [[None if v is None else -v for v in c] for c in cols], ":in-a-copy-of-the-program"), (prog, cols, ":after-a-copy-was-evaluated")]
    for target, use, where in runs:
        try:
            out = arr.Outcome(value=target.commands["Res"].result)
        except Exception as e:
            out = arr.Outcome(exc=e)
        ctx.count("operator_calls")
        try:
            want, scale = ref.MODELS[op]([[None if v is None else Fraction(v) for v in c] for c in use], params)
        except ref.Undefined as e:
            ctx.dontcare("%s: %s" % (op, e))
            return
        tag = "fields-produced-by-commands" + where + (":single-field" if n == 1 else "")
        if not out.ok:
            ctx.fail("%s:raises-%s:%s" % (op, out.inner() or out.err, tag), {"error": repr(out.exc)[:300], "n": n, "params": params})
            return
        ctx.count("ref_postconditions")
        ctx.count("cells_compared", len(cols[0]))
        bad = ref.compare(out.value, want, scale=scale, rel=1e-12)
        if bad:
            ctx.fail("%s:%s:%s" % (op, bad[0], tag), {"cell": bad[1], "got": bad[2], "want": bad[3], "params": params})
            return
        if write and target is prog:
            # the result is written to a NetCDF file next to one of its inputs (listed after it), and used again afterwards:
            # Not(result) is the negation of what the operator computed
            from netCDF4 import Dataset
            tpath = os.path.join(d, "grid.nc")
            with Dataset(tpath, "w") as ds:
                ds.createDimension("c", len(cols[0]))
                cv = ds.createVariable("c", "f8", ("c",))
                cv[:] = numpy.arange(len(cols[0])) * 1.0
                tv = ds.createVariable("tmpl", "f8", ("c",))
                tv[:] = numpy.zeros(len(cols[0]))
            rs_ = numpy.random.RandomState(case["rseed"] % (2 ** 31))
            arr.standin(prog, "Extra", numpy.ma.array(numpy.round(rs_.uniform(-1, 1, size=len(cols[0])) * 8) / 8.0, mask=rs_.uniform(size=len(cols[0])) < 0.3), fuzzy=True)     # missing elsewhere
            w = arr.invoke(prog, "EEMSWrite", "W", {"OutFileName": os.path.join(d, "o.nc"), "OutFieldNames": ["Res", "Extra"], "DimensionFileName": tpath, "DimensionFieldName": "tmpl"})
            neg = arr.invoke(prog, "FuzzyNot", "NotRes", {"InFieldName": "Res"})
            ctx.count("law_checks")
            if w.ok and neg.ok:
                nwant = [None if v is None else -v for v in want]
                bad = ref.compare(neg.value, nwant, scale=scale, rel=1e-12)
                if bad:
                    ctx.fail("%s:%s:result-used-again-after-it-was-written-to-a-file" % (op, bad[0]), {"cell": bad[1], "got": bad[2], "want": bad[3], "params": params})
                    return


def _reevaluate(ctx, op, inputs, oparams, refs, first, rk):
    """The same operator on the same input objects again, after everything else ran on them: identical result
    (an operator that alters its inputs - values or missing cells - shows here)."""
    again = _call(op, inputs, oparams, refs)
    ctx.count("law_checks")
    if not again.ok:
        ctx.fail("%s:re-evaluation-raises:%s" % (op, rk), {"error": repr(again.exc)[:200]})
    elif arr.digest(numpy.ma.asarray(again.value)) != arr.digest(numpy.ma.asarray(first)):
        ca, cb = arr.cells(first), arr.cells(again.value)
        i = [k for k, (x, y) in enumerate(zip(ca, cb)) if x != y][:1]
        ctx.fail("%s:re-evaluation-on-the-same-inputs-differs:%s" % (op, rk), {"cell": i, "first": [ca[k] for k in i], "again": [cb[k] for k in i], "params": oparams})


def _eq(ctx, key, a, b, detail, exact=True):
    ctx.count("law_checks")
    ca, cb = arr.cells(a), arr.cells(b)
    for i, (x, y) in enumerate(zip(ca, cb)):
        if (x is None) != (y is None) or (x is not None and (x != y if exact else abs(x - y) > 1e-12)):
            d = dict(detail)
            d.update({"cell": i, "left": x, "right": y})
            ctx.fail(key, d)
            return False
    return True


def _laws(ctx, case, op, n, params, cols, inputs, res, shape):
    rk = _rank_key(shape)
    if op == "FuzzyNot":
        nn = _call("FuzzyNot", [res], {})
        if nn.ok:
            _eq(ctx, "law:not-involution:" + rk, nn.value, inputs[0], {"law": "Not(Not x) = x"})
        else:
            ctx.fail("law:not-involution-raises", {"error": repr(nn.exc)[:200]})
        return
    if op == "FuzzyOr":
        # De Morgan: Not(Or(xs)) = And(Not xs); and And <= Union <= Or
        nots = [_call("FuzzyNot", [a], {}) for a in inputs]
        left = _call("FuzzyNot", [res], {})
        if all(o.ok for o in nots) and left.ok:
            right = _call("FuzzyAnd", [o.value for o in nots], {})
            if right.ok:
                _eq(ctx, "law:de-morgan:" + rk, left.value, right.value, {"law": "Not(Or xs) = And(Not xs)", "n": n})
        a = _call("FuzzyAnd", inputs, {})
        u = _call("FuzzyUnion", inputs, {})
        if a.ok and u.ok:
            ctx.count("law_checks")
            ca, cu, co = arr.cells(a.value), arr.cells(u.value), arr.cells(res)
            for i in range(len(co)):
                if co[i] is None:
                    continue
                if ca[i] is None or cu[i] is None or not (ca[i] <= cu[i] + 1e-12 and cu[i] <= co[i] + 1e-12):
                    ctx.fail("law:and-union-or-order:" + rk, {"cell": i, "and": ca[i], "union": cu[i], "or": co[i], "n": n})
                    break
        s1 = _call("FuzzySelectedUnion", inputs, {"TruestOrFalsest": "Truest", "NumberToConsider": 1})
        if s1.ok:
            _eq(ctx, "law:selected-k1-truest-is-or:" + rk, s1.value, res, {"law": "Selected(k=1,Truest) = Or", "n": n})
        else:
            ctx.fail("law:selected-k1-raises:" + rk, {"error": repr(s1.exc)[:200], "n": n})
    if op == "FuzzyAnd":
        s1 = _call("FuzzySelectedUnion", inputs, {"TruestOrFalsest": "Falsest", "NumberToConsider": 1})
        if s1.ok:
            _eq(ctx, "law:selected-k1-falsest-is-and:" + rk, s1.value, res, {"law": "Selected(k=1,Falsest) = And", "n": n})
        else:
            ctx.fail("law:selected-k1-raises:" + rk, {"error": repr(s1.exc)[:200], "n": n})
    if op == "FuzzyUnion":
        for which in ("Truest", "Falsest"):
            sn = _call("FuzzySelectedUnion", inputs, {"TruestOrFalsest": which, "NumberToConsider": n})
            if sn.ok:
                _eq(ctx, "law:selected-kn-is-union:" + rk, sn.value, res, {"law": "Selected(k=n) = Union", "n": n, "which": which}, exact=False)
            else:
                ctx.fail("law:selected-kn-raises:" + rk, {"error": repr(sn.exc)[:200], "n": n})
        wu = _call("FuzzyWeightedUnion", inputs, {"Weights": [3] * n})
        if wu.ok:
            _eq(ctx, "law:equal-weights-is-union:" + rk, wu.value, res, {"law": "WeightedUnion(equal) = Union", "n": n}, exact=False)
        else:
            ctx.fail("law:equal-weights-raises:" + rk, {"error": repr(wu.exc)[:200], "n": n})
