"""C07 - arithmetic commands are correct for all numeric types and input orders.

Monitors: reference postcondition (exact rationals) on every result; order-metamorphic monitor
(same outcome class and values for every input order of commutative commands); division-by-zero
cells must be missing; shape / weight-count / empty-list faults must raise their specific error.
"""
import itertools
from fractions import Fraction

import numpy

from mpv import arr, ref, cmdgen

ANCHORS = ['mpilot/libraries/eems/basic.py:Sum.execute', 'mpilot/libraries/eems/basic.py:WeightedSum.execute', 'mpilot/libraries/eems/basic.py:Multiply.execute', 'mpilot/libraries/eems/basic.py:AMinusB.execute', 'mpilot/libraries/eems/basic.py:ADividedByB.execute', 'mpilot/libraries/eems/basic.py:Minimum.execute', 'mpilot/libraries/eems/basic.py:Maximum.execute', 'mpilot/libraries/eems/basic.py:Mean.execute', 'mpilot/libraries/eems/basic.py:WeightedMean.execute', 'mpilot/libraries/eems/basic.py:Copy.execute', 'mpilot/libraries/eems/mixins.py:SameArrayShapeMixin.validate_array_shapes']   # repository functions the workload must enter (reported as anchors_reached / anchors_missed)
LEVEL = "exploration"
RULE = ("random lattice arrays (multiples of 1/8, zeros, negatives) for the ten arithmetic commands, every int64/float64 assignment "
        "for n<=4 inputs (sampled for 5), input orders permuted, weights int/float/mixed; plus single-fault cases (shape, weight count, "
        "empty list); distinct by (command, n, dtype assignment, mask classes, param kinds, fault kind)")
REQUIRED_COUNTERS = ["nonfinite_data_cases", "two_grid_programs", "narrow_integer_netcdf_cases", "rank0_cases", "fields_read_from_a_reused_file", "program_less_fault_checks", "command_object_input_cases", "ref_postconditions", "order_checks", "fault_checks", "zero_divisor_cells", "zero_weight_sum_cases", "repeated_field_cases", "later_command_checks", "fault_reevaluations", "chained_field_cases"]
ASSUMPTIONS = ["reference models in mpv/ref.py", "int64 overflow and NaN/inf inputs are never generated", "result dtype is not judged"]

COMMUTATIVE = ("Sum", "Multiply", "Minimum", "Maximum", "Mean", "WeightedSum", "WeightedMean")
LIST_CMDS = cmdgen.LIST_NONFUZZY
FAULT_ERR = {"shape": "MixedArrayShapes", "weights": "MismatchedWeights", "empty": "EmptyInputs"}


def cases(ctx):
    rng = ctx.rng("cases")
    idx = 0
    # every dtype assignment for n <= 4 on every list command (+ AB commands, Copy)
    for cmd in ref.ARITH:
        ns = [1] if cmd == "Copy" else [2] if cmd in cmdgen.AB else [1, 2, 3, 4]
        for n in ns:
            for dts in itertools.product(("int64", "float64"), repeat=n):
                for rep in range(1 if ctx.quick else 6):
                    if ctx.mine(idx):
                        yield _gen(rng, cmd, n, dts)
                    idx += 1
    for _ in range(ctx.n(1200, 60000)):
        cmd = rng.choice(ref.ARITH)
        n = 1 if cmd == "Copy" else 2 if cmd in cmdgen.AB else rng.randint(1, 5)
        dts = tuple(rng.choice(arr.DTYPES_Q if ctx.quick or rng.random() < 0.7 else arr.DTYPES_T) for _ in range(n))
        yield _gen(rng, cmd, n, dts)
    for _ in range(ctx.n(400, 12000)):
        yield _gen_fault(rng)
    # fields that are themselves results of real commands: a Copy of a fuzzy field next to a plain field (either order, evaluated
    # one after the other), and integer fields whose values fit 32 bits while their sums / products do not
    for i in range(ctx.n(60, 3000)):
        cmd = rng.choice(["Sum", "Multiply", "Mean", "Maximum", "Minimum", "WeightedSum", "AMinusB", "WeightedMean"])
        shape = arr.gen_shape(rng, 20)
        n_ = int(numpy.prod(shape))
        if i % 2 == 0:
            yield {"kind": "chained", "flavour": "copy-of-fuzzy", "cmd": cmd, "shape": list(shape), "fz": [rng.randint(-8, 8) / 8.0 for _ in range(n_)], "x": [arr.lattice_value(rng) for _ in range(n_)]}
        else:
            big = [rng.choice([2000000000, 50000, 46341, 2147483647, -2147483648, 65536, 3, -40000]) for _ in range(n_)]
            yield {"kind": "chained", "flavour": "wide-integers", "cmd": cmd, "shape": list(shape), "a": big, "b": [rng.choice([2000000000, 50000, 46341, 1, -65536, 2147483647]) for _ in range(n_)]}
    # complete fields (no missing cell anywhere, zeros among the divisors) copied, the copies combined; and fields of rank 0
    for i in range(ctx.n(60, 3000)):
        shape = arr.gen_shape(rng, 20)
        n_ = int(numpy.prod(shape))
        yield {"kind": "chained", "flavour": "copies-of-complete-fields", "cmd": rng.choice(["ADividedByB", "ADividedByB", "AMinusB", "Sum", "Mean", "Multiply", "Maximum"]), "shape": list(shape),
               "a": [arr.lattice_value(rng) for _ in range(n_)], "b": [rng.choice([0.0, 0.0, 2.0, -0.5, 4.0, 0.25]) for _ in range(n_)], "plain": i % 3 == 0}
    for i in range(ctx.n(40, 2000)):
        cmd = ARITH[i % len(ARITH)] if "ARITH" in globals() else rng.choice(["Sum", "Multiply", "Mean", "Minimum", "Maximum", "WeightedSum", "WeightedMean", "AMinusB", "ADividedByB", "Copy"])
        n = 1 if cmd == "Copy" else 2 if cmd in cmdgen.AB else rng.randint(1, 3)
        yield {"kind": "rank0", "cmd": cmd, "values": [rng.choice([3.5, -2.0, 0.25, 7, -1, 0.0]) for _ in range(n)], "kinds": [rng.choice(["ma", "ma", "plain", "masked"]) for _ in range(n)],
               "weights": [rng.choice([2, 0.5, 3]) for _ in range(n)]}
    # unsigned integer fields (values small enough for every width)
    for i in range(ctx.n(60, 3000)):
        cmd = rng.choice(["Sum", "Minimum", "Maximum", "Mean", "WeightedSum", "Copy", "ADividedByB", "WeightedMean"])
        n = 1 if cmd == "Copy" else 2 if cmd in cmdgen.AB else rng.randint(1, 4)
        shape = arr.gen_shape(rng, 20)
        dts = [rng.choice(arr.DTYPES_U) for _ in range(n)]
        ins = [arr.gen_array(rng, shape, dt) for dt in dts]
        for s_ in ins:
            s_["data"] = [min(v, 40) for v in s_["data"]]
        yield {"kind": "value", "cmd": cmd, "inputs": ins, "params": cmdgen.gen_params(rng, cmd, n) if cmd not in ("WeightedSum", "WeightedMean") else {"Weights": [rng.choice([1, 2, 0.5]) for _ in range(n)]}, "order": list(range(n))}


def _gen(rng, cmd, n, dts):
    shape = arr.gen_shape(rng, 40)
    ins = [arr.gen_array(rng, shape, dt, payload=rng.choice(arr.PAYLOADS)) for dt in dts]
    if rng.random() < 0.25:
        # finite floats off the dyadic lattice in the float inputs
        for s_ in ins:
            if s_["dtype"] == "float64":
                s_["data"] = [rng.choice(cmdgen.WILD_POOL) if rng.random() < 0.8 else rng.uniform(-1000, 1000) for _ in s_["data"]]
    if cmd == "ADividedByB" and rng.random() < 0.7:
        # make sure zero divisors occur at valid cells
        b = ins[1]
        for i in range(len(b["data"])):
            if rng.random() < 0.3:
                b["data"][i] = 0 if b["dtype"].startswith("int") else 0.0
    if cmd == "ADividedByB" and ins[1]["dtype"] == "float64" and rng.random() < 0.3:
        b = ins[1]
        for i in range(len(b["data"])):
            if rng.random() < 0.4:
                b["data"][i] = rng.choice([3e-9, -4e-12, 1e-8, 7e-100, -1e-15])   # tiny, but not zero: the quotient is defined
    params = cmdgen.gen_params(rng, cmd, n)
    if "Weights" in params and rng.random() < 0.15:
        params["Weights"] = [rng.choice([1, -1, 2, -2.5]) for _ in range(n)]
    if cmd == "WeightedMean" and n >= 2 and rng.random() < 0.15:
        # weights that sum to exactly zero: the division by zero must give missing cells, not an error
        params["Weights"] = rng.choice([[1, -1], [0, 0], [0.5, -0.25, -0.25], [2, -2.0], [0.0, 0]])[:n] if n <= 3 else [1, -1] + [0] * (n - 2)
        if len(params["Weights"]) < n:
            params["Weights"] = params["Weights"] + [0] * (n - len(params["Weights"]))
        if sum(params["Weights"]) != 0:
            params["Weights"] = [1, -1] + [0] * (n - 2)
    if rng.random() < 0.1:
        params["Metadata"] = {"DisplayName": "Layer %d" % rng.randint(1, 9), "Description": "documentation only"}    # optional on every command
    order = list(range(n))
    rng.shuffle(order)
    case = {"kind": "value", "cmd": cmd, "inputs": ins, "params": params, "order": order}
    if "Weights" in params and rng.random() < 0.15:
        case["weights_as"] = rng.choice(["float32", "float32", "float64", "int64"])       # NumPy scalars, as the programming interface may be handed
        if case["weights_as"] == "int64":
            params["Weights"] = [int(rng.randint(1, 9)) for _ in range(n)]
    if cmd in LIST_CMDS and n >= 2 and rng.random() < 0.2:
        # the same field listed more than once: it counts as many times as it is listed
        refs = [rng.randrange(n - 1) for _ in range(n)]
        refs[rng.randrange(n)] = refs[0]
        case["refs"] = refs
    return case


def _gen_fault(rng):
    cmd = rng.choice([c for c in ref.ARITH if c != "Copy"])
    n = 2 if cmd in cmdgen.AB else rng.randint(2, 5)
    fault = rng.choice(["shape", "shape", "empty"] + (["weights", "weights"] if cmd in ("WeightedSum", "WeightedMean") else []))
    if cmd in cmdgen.AB:
        fault = "shape"
    shape = arr.gen_shape(rng, 30)
    ins = [arr.gen_array(rng, shape, rng.choice(arr.DTYPES_Q)) for _ in range(n)]
    params = cmdgen.gen_params(rng, cmd, n)
    if fault == "shape":
        k = rng.randrange(n)
        alt = rng.choice(["extra-axis", "other"])
        if alt == "extra-axis":
            new = tuple(shape) + (1,)
        else:
            new = tuple(shape[:-1]) + (shape[-1] + 1,)
        ins[k] = arr.gen_array(rng, new, ins[k]["dtype"])
    elif fault == "weights":
        if rng.random() < 0.5 and n > 1:
            params["Weights"] = params["Weights"][:-1]
        else:
            params["Weights"] = params["Weights"] + [1]
    elif fault == "empty":
        ins = []
        if "Weights" in params:
            params["Weights"] = []
    return {"kind": "fault", "fault": fault, "cmd": cmd, "inputs": ins, "params": params}


def _perm_params(params, order):
    p = dict(params)
    if "Weights" in p and len(p["Weights"]) == len(order):
        p["Weights"] = [params["Weights"][i] for i in order]
    return p


def _dtype_class(ins):
    return "".join("u" if s["dtype"].startswith("uint") else "i" if s["dtype"].startswith("int") else "f" for s in ins)


def run_chained(ctx, case):
    cmd, shape = case["cmd"], tuple(case["shape"])
    prog = arr.new_program()
    ctx.count("chained_field_cases")
    ctx.feature(("chained", case["flavour"], cmd, len(shape)))
    if case["flavour"] == "copy-of-fuzzy":
        arr.standin(prog, "F", numpy.ma.array(numpy.array(case["fz"]).reshape(shape)), fuzzy=True)
        arr.standin(prog, "X", numpy.ma.array(numpy.array(case["x"], dtype="float64").reshape(shape)), fuzzy=False)
        prog.add_command(prog.find_command_class("Copy"), "C", {"InFieldName": "F"})
        cols = {"C": [Fraction(v) for v in case["fz"]], "X": [Fraction(v) for v in case["x"]]}
        orders = [["C", "X"], ["X", "C"]]
    elif case["flavour"] == "copies-of-complete-fields":
        mk = (lambda v: numpy.array(v, dtype="float64").reshape(shape)) if case.get("plain") else (lambda v: numpy.ma.array(numpy.array(v, dtype="float64").reshape(shape)))
        arr.standin(prog, "A0", mk(case["a"]), fuzzy=False)
        arr.standin(prog, "B0", mk(case["b"]), fuzzy=False)
        prog.add_command(prog.find_command_class("Copy"), "A", {"InFieldName": "A0"})
        prog.add_command(prog.find_command_class("Copy"), "B", {"InFieldName": "B0"})
        cols = {"A": [Fraction(v) for v in case["a"]], "B": [Fraction(v) for v in case["b"]]}
        orders = [["A", "B"], ["B", "A"]]
    else:
        arr.standin(prog, "A0", numpy.ma.array(numpy.array(case["a"], dtype="int64").reshape(shape)), fuzzy=False)
        arr.standin(prog, "B0", numpy.ma.array(numpy.array(case["b"], dtype="int64").reshape(shape)), fuzzy=False)
        prog.add_command(prog.find_command_class("Copy"), "A", {"InFieldName": "A0"})
        prog.add_command(prog.find_command_class("Copy"), "B", {"InFieldName": "B0"})
        cols = {"A": [Fraction(v) for v in case["a"]], "B": [Fraction(v) for v in case["b"]]}
        orders = [["A", "B"], ["B", "A"]]
    for k, names in enumerate(orders):
        params = {"Weights": [2, 3]} if cmd in ("WeightedSum", "WeightedMean") else {}
        args = dict(params, **({"A": names[0], "B": names[1]} if cmd in cmdgen.AB else {"InFieldNames": list(names)}))
        out = arr.invoke(prog, cmd, "R%d" % k, args, via_run=(k == 1))
        try:
            want, scale = ref.MODELS[cmd]([cols[n_] for n_ in names], params)
        except ref.Undefined:
            continue
        if any(w is not None and abs(w) > 2 ** 62 for w in want):
            ctx.dontcare("exact result beyond 64 bits")
            continue
        ctx.count("ref_postconditions")
        if not out.ok:
            ctx.fail("%s:raises-%s:fields-are-results-of-commands:%s" % (cmd, out.inner() or out.err, case["flavour"]), {"order": names, "evaluated": "second" if k else "first", "error": str(out.exc)[:200]})
            return
        bad = ref.compare(out.value, want, scale=scale, rel=1e-12)
        if bad:
            ctx.fail("%s:%s:fields-are-results-of-commands:%s" % (cmd, bad[0], case["flavour"]), {"cell": bad[1], "got": bad[2], "want": bad[3], "order": names})
            return


_shared = {"dir": None}


def _via_file(ctx, cmd, inputs, params, fcols, want, scale):
    """The same fields read from a CSV table - always the same path, rewritten for every case of this process - by a command
    file (reads with a missing-value marker, the command with an empty Metadata list in half of the cases), one valid decimal
    cell a hair away from the marker: the result follows what the file holds now."""
    import os
    from mpilot.program import Program
    cells = [list(arr.cells(a)) for a in inputs]
    if any(v == -9999 or (isinstance(v, float) and (v != v or v in (float("inf"), float("-inf")))) for col in cells for v in col if v is not None):
        return None
    _shared["n"] = _shared.get("n", 0) + 1
    near = None
    if _shared["n"] % 2 == 0:
        for k, a in enumerate(inputs):
            free = [i for i, v in enumerate(cells[k]) if v is not None]
            if a.dtype.kind == "f" and free:
                near = (k, free[_shared["n"] % len(free)], [-9999.05, -9998.95, -9999.000001][_shared["n"] % 3])
                break
    if near:
        cells[near[0]][near[1]] = near[2]
        try:
            want, scale = ref.MODELS[cmd]([[None if v is None else Fraction(v) for v in col] for col in cells], params)
        except ref.Undefined:
            return None
    if _shared["dir"] is None:
        _shared["dir"] = ctx.scratch()
    d = _shared["dir"]
    with open(os.path.join(d, "data.csv"), "w") as f:
        hdrs = ["c%d" % i for i in range(len(inputs))]
        if _shared["n"] % 3 == 1 and len(inputs) <= 6:
            # column names that differ in letter case or in surrounding blanks only are different columns
            hdrs = ["T", "t", " T", "t ", "TT", "tt"][:len(inputs)]
        f.write(",".join(hdrs) + "\n")
        for r in range(len(cells[0])):
            f.write(",".join("-9999" if col[r] is None else repr(col[r]) for col in cells) + "\n")
    lines = ['R%d = EEMSRead(InFileName = "data.csv", InFieldName = "%s", MissingVal = -9999, DataType = %s)' % (i, hdrs[i], "Integer" if a.dtype.kind in "iu" else "Float") for i, a in enumerate(inputs)]
    names = ["R%d" % i for i in range(len(inputs))]
    style = arr.INPUT_STYLE.get(cmd, "list")
    args = []
    if style == "one":
        args.append("InFieldName = %s" % names[0])
    elif style == "ab":
        args += ["A = %s" % names[0], "B = %s" % names[1]]
    else:
        args.append("InFieldNames = [%s]" % ", ".join(names))
    for k_, v_ in params.items():
        if k_ == "Metadata":
            continue
        args.append("%s = %s" % (k_, "[%s]" % ", ".join(repr(x) for x in v_) if isinstance(v_, list) else repr(v_)))
    if _shared["n"] % 4 < 2:
        args.insert(_shared["n"] % (len(args) + 1), "Metadata = []")        # an empty metadata list
    lines.append("Res = %s(%s)" % (cmd, ", ".join(args)))
    text = "\n".join(lines)
    ctx.count("fields_read_from_a_reused_file")
    try:
        prog = Program.from_source(text, working_dir=d)
        prog.run()
        res = prog.commands["Res"].result
    except Exception as e:
        inner = type(getattr(e, "exc", None)).__name__ if type(e).__name__ == "UnexpectedError" else None
        ctx.fail("%s:raises-%s:fields-read-from-a-file%s" % (cmd, inner or type(e).__name__, ":command-with-an-empty-metadata-list" if "Metadata = []" in text else ""), {"error": repr(e)[:200], "text": text[-300:]})
        return False
    bad = ref.compare(res, want, scale=scale, rel=1e-12)
    if bad:
        ctx.fail("%s:%s:fields-read-from-a-file-that-was-rewritten%s" % (cmd, bad[0], ":valid-cell-next-to-the-missing-marker" if near and bad[1] == near[1] else ""), {"cell": bad[1], "got": bad[2], "want": bad[3], "params": params, "near_marker_cell": near})
        return False
    return True


def _via_netcdf(ctx, cmd, case_rseed):
    """Whole-number fields stored in a NetCDF file as 16-bit integers, read as Integer and combined: the exact result, also where
    it does not fit 16 bits."""
    import os
    from netCDF4 import Dataset
    rs = numpy.random.RandomState(case_rseed % (2 ** 31))
    n = int(rs.randint(3, 9))
    a = rs.choice([30000, 10000, 200, 300, -32000, 25000, 7], size=n).astype("int64")
    b = rs.choice([10000, 30000, 300, 200, -20000, 3, 32000], size=n).astype("int64")
    d = ctx.scratch()
    with Dataset(os.path.join(d, "in.nc"), "w") as ds:
        ds.createDimension("x", n)
        for nm, v_ in (("a", a), ("b", b)):
            v = ds.createVariable(nm, "i2", ("x",))
            v[:] = v_
    prog = arr.new_program(arr.NC_LIBS, working_dir=d)
    for nm in ("a", "b"):
        o = arr.invoke(prog, "EEMSRead", nm.upper(), {"InFileName": "in.nc", "InFieldName": nm, "DataType": "Integer"})
        if not o.ok:
            ctx.note_inconclusive("narrow NetCDF read raises %s" % o.err)
            return
    params = {"Weights": [2, 3]} if cmd in ("WeightedSum",) else {}
    args = dict(params, **({"A": "A", "B": "B"} if cmd in cmdgen.AB else {"InFieldNames": ["A", "B"]}))
    out = arr.invoke(prog, cmd, "Res", args)
    ctx.count("narrow_integer_netcdf_cases")
    want, scale = ref.MODELS[cmd]([[Fraction(int(x)) for x in a], [Fraction(int(x)) for x in b]], params)
    if not out.ok:
        ctx.fail("%s:raises-%s:integer-fields-stored-narrow-in-netcdf" % (cmd, out.inner() or out.err), {"error": repr(out.exc)[:200]})
        return
    bad = ref.compare(out.value, want, scale=scale, rel=1e-12)
    if bad:
        ctx.fail("%s:%s:integer-fields-stored-narrow-in-netcdf" % (cmd, bad[0]), {"cell": bad[1], "got": bad[2], "want": bad[3], "a": a.tolist(), "b": b.tolist(), "read_dtype": str(prog.commands["A"]._result.dtype)})


def _extras(ctx, case):
    """(a) infinite and not-a-number cells that are *data* stay data through the commands that pass values on; (b) one program
    working on two tables of different lengths: each command is checked against its own fields."""
    inf = float("inf")
    a = numpy.ma.array([1.0, inf, -inf, 2.0, 5.0], mask=[0, 0, 0, 0, 1])
    b = numpy.ma.array([1.0, 1.0, 1.0, 3.0, 1.0])
    ctx.count("nonfinite_data_cases")
    for cmd, ins, want in (("Copy", [a], [1.0, inf, -inf, 2.0, None]), ("Sum", [a, b], [2.0, inf, -inf, 5.0, None]), ("Maximum", [a, b], [1.0, inf, 1.0, 3.0, None]),
                           ("Minimum", [a, b], [1.0, 1.0, -inf, 2.0, None]), ("AMinusB", [a, b], [0.0, inf, -inf, -1.0, None]), ("WeightedSum", [a, b], [3.0, inf, -inf, 7.0, None])):
        out, _ = arr.run_cmd(cmd, [x.copy() for x in ins], {"Weights": [2, 1]} if cmd == "WeightedSum" else {})
        if not out.ok:
            ctx.fail("%s:raises-%s:infinite-data-cells" % (cmd, out.inner() or out.err), {"error": repr(out.exc)[:200]})
            return
        got = arr.cells(out.value)
        if got != want:
            ctx.fail("%s:%s:infinite-data-cells" % (cmd, "valid-cell-missing" if any(g is None and w is not None for g, w in zip(got, want)) else "value"), {"got": [repr(g) for g in got], "want": [repr(w) for w in want]})
            return
    prog = arr.new_program()
    arr.standin(prog, "S1", numpy.ma.array([1.0, 2.0, 3.0]))
    arr.standin(prog, "S2", numpy.ma.array([4.0, 5.0, 6.0]))
    arr.standin(prog, "L1", numpy.ma.array([1.0, 2.0, 3.0, 4.0, 5.0]))
    arr.standin(prog, "L2", numpy.ma.array([1.0, 1.0, 1.0, 1.0, 1.0]))
    ctx.count("two_grid_programs")
    first = arr.invoke(prog, case["cmd"] if case["cmd"] in ("Sum", "Multiply", "Maximum", "Mean") else "Sum", "R1", {"InFieldNames": ["S1", "S2"]})
    second = arr.invoke(prog, "Sum", "R2", {"InFieldNames": ["L1", "L2"]})
    third = arr.invoke(prog, "AMinusB", "R3", {"A": "L1", "B": "L2"})
    for tag, o, size in (("first", first, 3), ("second", second, 5), ("third", third, 5)):
        if not o.ok or numpy.ma.asarray(o.value).size != size:
            ctx.fail("program-over-two-tables-of-different-lengths:%s-command-%s" % (tag, "raises-" + (o.inner() or o.err) if not o.ok else "wrong-size"), {"error": repr(o.exc)[:200] if not o.ok else None})
            return


def run_rank0(ctx, case):
    """Fields of rank 0 (one number, possibly missing) through the command's arguments: the value of the reference, or missing;
    whether it comes back as a 0-d array or as a NumPy scalar is not judged."""
    cmd = case["cmd"]
    inputs = []
    for v, k in zip(case["values"], case["kinds"]):
        inputs.append(numpy.array(float(v)) if k == "plain" else numpy.ma.array(float(v), mask=(k == "masked")))
    params = {"Weights": list(case["weights"])} if cmd in ("WeightedSum", "WeightedMean") else {}
    ctx.count("rank0_cases")
    ctx.feature(("rank0", cmd, tuple(case["kinds"])))
    out, _ = arr.run_cmd(cmd, inputs, params)
    cols = [[None if k == "masked" else Fraction(v)] for v, k in zip(case["values"], case["kinds"])]
    try:
        want, scale = ref.MODELS[cmd](cols, params)
    except ref.Undefined as e:
        ctx.dontcare("%s: %s" % (cmd, e))
        return
    ctx.count("ref_postconditions")
    if not out.ok:
        ctx.fail("%s:raises-%s:rank-0-fields" % (cmd, out.inner() or out.err), {"error": repr(out.exc)[:200], "kinds": case["kinds"], "values": case["values"]})
        return
    got = numpy.ma.asarray(out.value)
    if got.size != 1:
        ctx.fail("%s:shape:rank-0-fields" % cmd, {"got": list(got.shape)})
        return
    bad = ref.compare(got.reshape(1), want, scale=scale, rel=1e-12)
    if bad:
        ctx.fail("%s:%s:rank-0-fields" % (cmd, bad[0]), {"got": bad[2], "want": bad[3], "kinds": case["kinds"], "values": case["values"], "params": params})


def run_case(ctx, case):
    if case["kind"] == "rank0":
        _extras(ctx, case)
        if case["cmd"] in ("Sum", "Multiply", "AMinusB", "WeightedSum", "Maximum", "Mean"):
            _via_netcdf(ctx, case["cmd"], int(sum(abs(v) * 8 for v in case["values"])) + len(case["kinds"]) * 7919)
        return run_rank0(ctx, case)
    if case["kind"] == "chained":
        return run_chained(ctx, case)
    cmd, params = case["cmd"], case["params"]
    inputs = [arr.build(s) for s in case["inputs"]]
    if case["kind"] == "fault":
        return _run_fault(ctx, case, cmd, inputs, params)
    refs = case.get("refs")
    if refs:
        ctx.count("repeated_field_cases")
    n = len(inputs)
    ctx.feature(("value", cmd, n, bool(refs), _dtype_class(case["inputs"]), tuple(sorted(set("m" if s["mask"] and any(s["mask"]) else "-" for s in case["inputs"]))),
                 tuple(type(w).__name__ for w in params.get("Weights", [])), "Metadata" in params, case.get("weights_as")))
    fcols0 = [arr.frac_cells(a) for a in inputs]        # what the inputs hold before anything ran on them
    fcols = [fcols0[i] for i in refs] if refs else fcols0
    call_params = params
    if case.get("weights_as") and "Weights" in params and all(s_["dtype"] in ("int64", "float64") for s_ in case["inputs"]):
        conv = getattr(numpy, case["weights_as"])
        if all(float(conv(w)) == float(w) for w in params["Weights"]):
            call_params = dict(params, Weights=[conv(w) for w in params["Weights"]])
    if len(inputs[0].shape) >= 2 and (n + inputs[0].size) % 4 == 2 and isinstance(inputs[0], numpy.ma.MaskedArray):
        # the first field held in column-major (Fortran) order: the same cells
        inputs[0] = numpy.ma.array(numpy.asfortranarray(numpy.ma.getdata(inputs[0])), mask=numpy.asfortranarray(numpy.ma.getmaskarray(inputs[0])))
        ctx.count("fortran_ordered_first_fields")
    out, prog0 = arr.run_cmd(cmd, inputs, call_params, refs=refs, objects="lone")      # a quarter: fields handed over as finished command objects
    if getattr(prog0, "_mpv_object_mode", False):
        ctx.count("command_object_input_cases")
    tclass = "first-" + _dtype_class(case["inputs"])[:1] + ("-mixed" if len(set(_dtype_class(case["inputs"]))) > 1 else "-uniform")
    try:
        want, scale = ref.MODELS[cmd](fcols, params)
    except ref.Undefined as e:
        ctx.dontcare("%s: %s" % (cmd, e))
        want = None
    if want is not None:
        ctx.count("ref_postconditions")
        if cmd == "WeightedMean" and sum(params["Weights"]) == 0:
            ctx.count("zero_weight_sum_cases")
        if cmd == "ADividedByB":
            ctx.count("zero_divisor_cells", sum(1 for a, b in zip(fcols[0], fcols[1]) if a is not None and b is not None and b == 0))
        if not out.ok:
            ctx.fail("%s:raises-%s:%s" % (cmd, out.inner() or out.err, tclass), {"error": repr(out.exc)[:300], "params": params})
        else:
            res = out.value
            if not isinstance(res, numpy.ndarray) or tuple(res.shape) != tuple(inputs[0].shape):
                ctx.fail("%s:shape" % cmd, {"got": list(getattr(res, "shape", [])), "want": list(inputs[0].shape)})
            else:
                f32 = any(s["dtype"] == "float32" for s in case["inputs"]) or (call_params is not params and case.get("weights_as") == "float32")     # NumPy computes in single precision then
                small = [numpy.iinfo(s["dtype"]).max for s in case["inputs"] if s["dtype"] in ("int16", "int32")]
                bound = min(small + ([numpy.iinfo(res.dtype).max] if res.dtype.kind in "iu" else []) or [None]) if (small or res.dtype.kind in "iu") else None
                if bound is not None and cmd in ("Multiply", "Sum", "WeightedSum", "WeightedMean", "Mean", "AMinusB"):
                    # running (partial) products / sums in the order the command combines its inputs
                    over = False
                    wts = params.get("Weights") or [1] * len(fcols)
                    for tup in zip(*fcols):
                        if any(v is None for v in tup):
                            continue
                        run = None
                        for v, wt in zip(tup, wts):
                            term = v * Fraction(wt) if cmd.startswith("Weighted") else v
                            run = term if run is None else (run * term if cmd == "Multiply" else run - term if cmd == "AMinusB" else run + term)
                            if abs(run) > bound or abs(term) > bound:
                                over = True
                                break
                        if over:
                            break
                    if over:
                        ctx.dontcare("%s: integer overflow of a (partial) result for %s inputs (out of scope)" % (cmd, "/".join(sorted(set(s["dtype"] for s in case["inputs"])))))
                        return
                bad = ref.compare(res, want, scale=scale, rel=1e-5 if f32 else 1e-12)
                if bad:
                    kind, i, g, w = bad
                    ctx.fail("%s:%s:%s" % (cmd, kind, tclass), {"cell": i, "cell_inputs": [float(c[i]) if c[i] is not None else None for c in fcols] if i is not None else None,
                                                              "got": g, "want": w, "params": params, "result_type": type(res).__name__})
                elif len(ctx.samples) < 4:
                    ctx.sample({"cmd": cmd, "params": params, "inputs": [arr.describe(a, 6) for a in inputs], "result": arr.describe(res, 6)})
    if want is not None and out.ok and not refs and len(inputs[0].shape) == 1 and all(s["dtype"] in ("int64", "float64") for s in case["inputs"]) and (n + len(case["inputs"][0]["data"])) % 3 == 0:
        if _via_file(ctx, cmd, inputs, params, fcols, want, scale) is False:
            return
    order = case["order"]
    small_ints = any(s["dtype"] in ("int16", "int32") for s in case["inputs"])   # partial results may overflow in one order only
    # a later command over the same fields (Sum of all of them) still sees what they held: the command under test computed
    # from its inputs, it did not consume them
    if out.ok and not small_ints and want is not None and not getattr(prog0, "_mpv_object_mode", False):
        ctx.count("later_command_checks")
        names = [arr.STANDIN_NAMES[i] if i < len(arr.STANDIN_NAMES) else "In%d" % i for i in range(n)]
        later = arr.invoke(prog0, "Sum", "Later", {"InFieldNames": names})
        lwant, lscale = ref.MODELS["Sum"](fcols0, {})
        if not later.ok:
            ctx.fail("%s:later-Sum-over-its-inputs-raises-%s" % (cmd, later.inner() or later.err), {"params": params})
        else:
            f32 = any(s["dtype"] == "float32" for s in case["inputs"])
            bad = ref.compare(later.value, lwant, scale=lscale, rel=1e-5 if f32 else 1e-12)
            if bad:
                ctx.fail("%s:later-Sum-over-its-inputs-differs:%s" % (cmd, bad[0]), {"cell": bad[1], "got": bad[2], "want": bad[3], "params": params})
    # order metamorphic: same outcome class and (tolerantly) same values for a permutation of the inputs
    if cmd in COMMUTATIVE and n > 1 and order != sorted(order) and not refs and not small_ints:
        ctx.count("order_checks")
        pin = [inputs[i] for i in order]
        pout, _ = arr.run_cmd(cmd, pin, _perm_params(params, order))
        if out.ok != pout.ok:
            ctx.fail("%s:order-dependent-outcome" % cmd, {"order": order, "dtypes": [s["dtype"] for s in case["inputs"]],
                                                           "base": out.err and (out.inner() or out.err), "permuted": pout.err and (pout.inner() or pout.err), "params": params})
        elif out.ok:
            f32 = any(s["dtype"] == "float32" for s in case["inputs"]) or case.get("weights_as") == "float32"
            bad = ref.compare(pout.value, [None if c is None else Fraction(c) for c in arr.cells(out.value)], scale=1.0, rel=1e-5 if f32 else 1e-12)
            if bad and want is not None:
                ctx.fail("%s:order-dependent-value" % cmd, {"order": order, "diff": bad[:1] + bad[1:], "params": params})
        elif type(out.exc) is not type(pout.exc):
            ctx.fail("%s:order-dependent-error" % cmd, {"order": order, "base": out.err, "permuted": pout.err})


def _run_fault(ctx, case, cmd, inputs, params):
    fault = case["fault"]
    ctx.feature(("fault", cmd, fault, len(inputs)))
    ctx.count("fault_checks")
    out, fprog = arr.run_cmd(cmd, inputs, params) if inputs or cmd not in cmdgen.AB else (None, None)
    want = FAULT_ERR[fault]
    if not out.ok and fprog is not None and "Res" in fprog.commands:
        # asked again (by a later reader of the same result, or by another run of the program) the answer is the same error
        for again in ("result", "run"):
            try:
                fprog.commands["Res"].result if again == "result" else fprog.run()
                e2 = None
            except Exception as e:
                e2 = e
            ctx.count("fault_reevaluations")
            if type(e2).__name__ != out.err:
                ctx.fail("%s:fault-%s:asked-again-gives-%s" % (cmd, fault, type(e2).__name__ if e2 is not None else "a-result"), {"first": out.err, "again_through": again, "error": repr(e2)[:200]})
                return
    if inputs and not out.ok and out.err == want:
        # the same faulty call on a command that belongs to no program (built by hand from argument objects, as the programming
        # interface allows), fed by finished commands that belong to none either: the same error
        from mpilot.arguments import Argument
        from mpilot.commands import Command
        ctx.count("program_less_fault_checks")
        prods = []
        for i, a in enumerate(inputs):
            c = Command("In%d" % i, [], program=None)
            c.is_finished, c._result = True, a
            prods.append(c)
        style = arr.INPUT_STYLE.get(cmd, "list")
        kw = dict(params)
        if style == "one":
            kw["InFieldName"] = prods[0]
        elif style == "ab":
            kw["A"], kw["B"] = prods[0], prods[1]
        else:
            kw["InFieldNames"] = prods
        cls = fprog.find_command_class(cmd)
        try:
            cls("Lone", [Argument(k, v) for k, v in kw.items()], program=None).result
            e3 = None
        except Exception as e:
            e3 = e
        if type(e3).__name__ != want:
            inner = type(getattr(e3, "exc", None)).__name__ if type(e3).__name__ == "UnexpectedError" else None
            ctx.fail("%s:fault-%s:command-without-a-program-%s" % (cmd, fault, "accepts" if e3 is None else "raises-" + type(e3).__name__ + ("/" + inner if inner else "")), {"error": repr(e3)[:200], "want": want})
            return
    if out.ok:
        ctx.fail("%s:fault-%s-accepted" % (cmd, fault), {"params": params, "shapes": [s["shape"] for s in case["inputs"]]})
    elif out.err != want:
        ctx.fail("%s:fault-%s-raises-%s" % (cmd, fault, out.inner() or out.err), {"error": repr(out.exc)[:300], "want": want,
                                                                                    "shapes": [s["shape"] for s in case["inputs"]]})
