"""C08 - fuzzy conversions and normalisations compute their documented mappings.

Monitors: reference postcondition on every Cvt*/Normalize* result (exact-rational / float reference models of mpv/ref.py),
pairwise variant monitor (CvtToFuzzyX == clamp(NormalizeX on [-1,1])), inverse monitor (CvtFromFuzzy o CvtToFuzzy == id between
the thresholds) and monotonicity monitor for the monotone mappings.
"""
from fractions import Fraction

import numpy

from mpv import arr, ref, cmdgen

ANCHORS = ['mpilot/libraries/eems/fuzzy.py:CvtToFuzzy.execute', 'mpilot/libraries/eems/fuzzy.py:CvtFromFuzzy.execute', 'mpilot/libraries/eems/fuzzy.py:CvtToBinary.execute', 'mpilot/libraries/eems/basic.py:Normalize.execute', 'mpilot/libraries/eems/basic.py:NormalizeZScore.execute', 'mpilot/libraries/eems/basic.py:NormalizeCat.execute', 'mpilot/libraries/eems/basic.py:NormalizeCurve.execute', 'mpilot/libraries/eems/basic.py:NormalizeMeanToMid.execute', 'mpilot/libraries/eems/basic.py:NormalizeCurveZScore.execute', 'mpilot/libraries/eems/fuzzy.py:CvtToFuzzyMeanToMid.execute']   # repository functions the workload must enter (reported as anchors_reached / anchors_missed)
LEVEL = "exploration"
RULE = ("the 14 existing Cvt*/Normalize* commands x arrays with >=2 distinct valid values (int64/float64, masks, rank 1-3) x "
        "thresholds asc/desc/inside/outside the data range, defaults with both directions, category tables hitting/missing the data, "
        "curves with 1-6 control points in random order, z-score vectors, IgnoreZeros both ways; distinct by (command, dtype, rank, "
        "mask class, parameter-shape class)")
REQUIRED_COUNTERS = ["saved_and_loaded_models", "yes_no_spellings_from_a_file", "large_rasters_converted", "tuple_parameter_cases", "ref_postconditions", "variant_checks", "inverse_checks", "monotone_checks", "numpy_scalar_parameter_cases", "written_results_read_back"]
ASSUMPTIONS = ["NormalizeZScore default thresholds, StartVal >= EndVal, equal thresholds, duplicate raw values, constant arrays and "
               "non-increasing mean-to-mid control points are don't-care (documentation silent or inconsistent)",
               "population standard deviation (ddof=0)", "float32 inputs compared with 2e-5 relative tolerance"]

PAIRS = {
    "CvtToFuzzyCat": ("NormalizeCat", lambda p: {"RawValues": p["RawValues"], "NormalValues": p["FuzzyValues"], "DefaultNormalValue": p["DefaultFuzzyValue"]}),
    "CvtToFuzzyCurve": ("NormalizeCurve", lambda p: {"RawValues": p["RawValues"], "NormalValues": p["FuzzyValues"]}),
    "CvtToFuzzyMeanToMid": ("NormalizeMeanToMid", lambda p: {"IgnoreZeros": p["IgnoreZeros"], "NormalValues": p["FuzzyValues"]}),
    "CvtToFuzzyCurveZScore": ("NormalizeCurveZScore", lambda p: {"ZScoreValues": p["ZScoreValues"], "NormalValues": p["FuzzyValues"]}),
    "CvtToFuzzyZScore": ("NormalizeZScore", lambda p: dict({"TrueThresholdZScore": 1, "FalseThresholdZScore": -1}, StartVal=-1, EndVal=1, **p)),
}
MONOTONE = ("CvtToFuzzy", "CvtFromFuzzy", "CvtToBinary", "Normalize", "NormalizeZScore", "CvtToFuzzyZScore")


def cases(ctx):
    rng = ctx.rng("cases")
    k = 0
    for _ in range(ctx.n(2800, 140000)):
        cmd = ref.CONVERT[k % len(ref.CONVERT)]
        k += 1
        dts = arr.DTYPES_Q if ctx.quick or rng.random() < 0.7 else arr.DTYPES_T
        c = cmdgen.gen_case(rng, cmd, dtypes=dts, max_cells=40, distinct2=True, wild=rng.random() < 0.25, offset=cmd in cmdgen.STATS and rng.random() < 0.15)
        if cmd in ("NormalizeCat", "CvtToFuzzyCat", "NormalizeMeanToMid", "CvtToFuzzyMeanToMid") and rng.random() < 0.5:
            # small integer categories / data with zeros
            s = c["inputs"][0]
            s["data"] = [rng.choice([0, 0, 1, 2, 3, 5]) if s["dtype"].startswith("int") else float(rng.choice([0, 0, 1, 2, 3, 5.5])) for _ in s["data"]]
            if len(set(s["data"])) < 2:
                s["data"][0] = 9
            c["params"] = cmdgen.gen_params(rng, cmd, 1, [v for v in s["data"]])
        elif cmd not in ("NormalizeCat", "CvtToFuzzyCat") and rng.random() < 0.15 and not c["inputs"][0]["dtype"].startswith("float"):
            # narrow and unsigned integer fields whose values span most of the type's range (thresholds taken from the data
            # must not wrap around)
            s = c["inputs"][0]
            dt_ = rng.choice(["int8", "uint8", "uint16", "int16", "uint32"])
            lo_, hi_ = {"int8": (-100, 100), "uint8": (0, 250), "uint16": (0, 60000), "int16": (-30000, 30000), "uint32": (0, 4000000000)}[dt_]
            s["dtype"] = dt_
            s["data"] = [rng.choice([lo_, hi_, (lo_ + hi_) // 2, rng.randint(lo_, hi_)]) for _ in s["data"]]
            if len(set(s["data"])) < 2:
                s["data"][0], s["data"][-1] = lo_, hi_
                if s["mask"]:
                    s["mask"][0] = s["mask"][-1] = False
            if cmd == "CvtFromFuzzy":
                s["dtype"], s["data"] = "int8", [rng.choice([-1, 0, 1]) for _ in s["data"]]
            c["params"] = {k_: v_ for k_, v_ in cmdgen.gen_params(rng, cmd, 1, None).items() if k_ in ("Direction",)} if cmd == "CvtToFuzzy" else ({} if cmd == "Normalize" else cmdgen.gen_params(rng, cmd, 1, [float(v) for v in s["data"]] if "Curve" not in cmd or "ZScore" in cmd else [float(v) for v in sorted(set(s["data"]))]))
            c["narrow"] = dt_
        elif cmd in ("NormalizeCat", "CvtToFuzzyCat") and rng.random() < 0.3:
            # category codes that are large and adjacent (land-cover / watershed codes), or float codes a hair apart: a category
            # is the cells *equal* to its raw value
            s = c["inputs"][0]
            if s["dtype"].startswith("int"):
                base = rng.choice([180100, 1000000, 32000 if s["dtype"] == "int16" else 21040000])
                if s["dtype"] == "int16":
                    base = 32000
                codes = [base + k for k in range(4)]
            else:
                base = rng.choice([1.0, 250.0, 1e6])
                codes = [base, base * (1 + 1e-7), base * (1 + 2e-6), base * (1 - 3e-9)]
                if s["dtype"] == "float32":
                    codes = [base, base * (1 + 1e-6), base * (1 + 4e-6), base * (1 - 2e-6)]
                    codes = [float(numpy.float32(x)) for x in codes]
            s["data"] = [rng.choice(codes) for _ in s["data"]]
            k = rng.randint(1, 3)
            raws = rng.sample(codes, k)
            vals = [rng.randint(-8, 8) / 8.0 for _ in range(k)]
            c["params"] = {"RawValues": raws, "FuzzyValues" if cmd == "CvtToFuzzyCat" else "NormalValues": vals,
                           "DefaultFuzzyValue" if cmd == "CvtToFuzzyCat" else "DefaultNormalValue": rng.randint(-8, 8) / 8.0}
        if cmd in ("NormalizeMeanToMid", "CvtToFuzzyMeanToMid") and rng.random() < 0.3:
            # one outlier far above (or below) everything else: an end control point coincides with its neighbour
            s = c["inputs"][0]
            hi_ = rng.random() < 0.6
            vals_ = [rng.choice([0, 25, 88, 3, 40]) for _ in s["data"]]
            pos_ = [j for j in range(len(vals_)) if not (s["mask"] and s["mask"][j])]
            if len(pos_) >= 3:
                vals_[pos_[0]] = 999 if hi_ else -999
                s["data"] = [v if s["dtype"].startswith("int") else float(v) for v in vals_]
                if s["dtype"] in ("int8", "uint8", "uint16", "uint32", "uint64"):
                    s["dtype"] = "int64"
                c.pop("narrow", None)
        yield c
    for i in range(ctx.n(24, 1200)):
        # a model built through the programming interface, written out and loaded again: numbers that need all 17 digits, with
        # data cells on either side of them
        th = rng.choice([0.1 + 0.2, 1.0 / 3, 2.0 / 3, 0.1 * 3, 3e-7 * 3, 123456.78900000002, 1.1 * 1.1, 4.35 * 100, -(0.1 + 0.7)])
        twin = float("%.15g" % th)
        data = [th, twin, float(numpy.nextafter(th, 1e300)), float(numpy.nextafter(th, -1e300)), twin - 1.0, twin + 1.0, 0.0]
        rng.shuffle(data)
        cmd = ["CvtToBinary", "CvtToFuzzyCat", "NormalizeCat", "CvtToBinary"][i % 4]
        if cmd == "CvtToBinary":
            params = {"Threshold": th, "Direction": rng.choice(["LowToHigh", "HighToLow"])}
        else:
            params = {"RawValues": [th, twin - 1.0], ("FuzzyValues" if cmd == "CvtToFuzzyCat" else "NormalValues"): [0.75, -0.5],
                      ("DefaultFuzzyValue" if cmd == "CvtToFuzzyCat" else "DefaultNormalValue"): -1 if cmd == "CvtToFuzzyCat" else 0.125}
        yield {"kind": "saved", "cmd": cmd, "params": params, "data": data}
    from mpv import big
    for i in range(ctx.n(3, 40)):
        j = i * ctx.nshards + ctx.shard
        yield {"kind": "big", "cmd": ["CvtToFuzzy", "Normalize", "CvtToFuzzy", "Normalize", "CvtToFuzzy"][j % 5], "variant": j % 5, "shape": list(big.SHAPES[(j * 3 + 1) % len(big.SHAPES)]), "rseed": rng.randrange(10 ** 9)}


def _pclass(cmd, p):
    out = []
    for k_, v in sorted(p.items()):
        out.append((k_, len(v)) if isinstance(v, list) else (k_, str(v)) if isinstance(v, (str, bool)) else (k_,))
    return tuple(out)


def _tol(case):
    return 2e-5 if case.get("_single_precision_params") or any(s["dtype"] == "float32" for s in case["inputs"]) else 1e-9


def _as_numpy(params, how):
    """The same numbers handed over as NumPy scalars (where that is exact): what a caller of the programming interface has
    when the thresholds come out of an array."""
    conv = getattr(numpy, how)

    def one(v):
        if isinstance(v, bool) or not isinstance(v, (int, float)):
            return v
        if how.startswith("int"):
            return conv(v) if isinstance(v, int) and abs(v) < 2 ** 31 else v
        return conv(v) if float(conv(v)) == float(v) and isinstance(v, float) else v
    return {k: ([one(x) for x in v] if isinstance(v, list) else one(v)) for k, v in params.items()}


def run_big(ctx, case):
    """Conversions whose thresholds come from the data itself, on rasters of more than a million cells: the cells at sampled
    places (head, tail, around the 2^20th cell, random) equal what the command gives for a small field made of those cells
    plus the field's smallest and largest cell (same thresholds, same per-cell arithmetic)."""
    from mpv import big
    cmd = case["cmd"]
    params = [{}, {}, {"Direction": "HighToLow"}, {"StartVal": 2, "EndVal": 10}, {"Direction": "LowToHigh"}][case["variant"]]
    shape = tuple(case["shape"])
    rs = numpy.random.RandomState(case["rseed"] % (2 ** 31))
    n = int(numpy.prod(shape))
    # a ramp with noise (so that blocks of the raster have different ranges), a tenth of the cells missing
    data = (numpy.arange(n, dtype="float64") / 1024.0 + numpy.round(rs.uniform(-50, 50, size=n) * 8) / 8.0).reshape(shape)
    if case["variant"] % 2:
        data = data[..., ::-1].copy()
    field = numpy.ma.array(data, mask=rs.uniform(size=shape) < 0.1)
    ctx.feature(("big", cmd, tuple(sorted(params)), len(shape), n > 2 ** 20))
    out, prog = arr.run_cmd(cmd, [field], params)
    ctx.count("large_rasters_converted")
    if not out.ok:
        ctx.fail("%s:raises-%s:large-raster" % (cmd, out.inner() or out.err), {"shape": list(shape), "params": params})
        return
    res = out.value
    if not isinstance(res, numpy.ndarray) or res.shape != shape:
        ctx.fail("%s:shape:large-raster" % cmd, {"got": list(getattr(res, "shape", [])), "want": list(shape)})
        return
    flat_in = field.reshape(-1)
    flat_out = res.reshape(-1)
    idx = set()
    for a, b in big.windows(n, case["rseed"], width=300):
        idx.update(range(a, b))
    idx.update(int(x) for x in rs.randint(0, n, size=1500))
    idx.update([int(numpy.ma.argmin(flat_in)), int(numpy.ma.argmax(flat_in))])
    idx = numpy.array(sorted(idx))
    small = numpy.ma.array(numpy.ma.getdata(flat_in)[idx], mask=numpy.ma.getmaskarray(flat_in)[idx])
    sout, _ = arr.run_cmd(cmd, [small], params)
    if not sout.ok:
        ctx.note_inconclusive("%s on the sampled cells raises %s" % (cmd, sout.err))
        return
    ctx.count("ref_postconditions")
    gm, wm = numpy.ma.getmaskarray(flat_out)[idx], numpy.ma.getmaskarray(sout.value)
    if not numpy.array_equal(gm, wm):
        k = int(numpy.nonzero(gm != wm)[0][0])
        ctx.fail("%s:%s:large-raster" % (cmd, "valid-cell-missing" if gm[k] else "missing-cell-present"), {"cell": int(idx[k]), "shape": list(shape), "params": params})
        return
    g, w = numpy.ma.getdata(flat_out)[idx], numpy.ma.getdata(sout.value)
    diff = numpy.where(wm, 0.0, numpy.abs(g - w))
    if diff.max() > 1e-9 * max(1.0, float(numpy.abs(w[~wm]).max())):
        k = int(numpy.argmax(diff))
        ctx.fail("%s:value:large-raster" % cmd, {"cell": int(idx[k]), "got": float(g[k]), "want": float(w[k]), "input_cell": float(numpy.ma.getdata(flat_in)[idx[k]]), "shape": list(shape), "params": params})


def run_saved(ctx, case):
    """Built through the programming interface, written with to_string(), loaded from that text and run: the mapping is the
    one of the parameters given."""
    import os
    from mpilot.program import Program
    cmd, params, data = case["cmd"], case["params"], case["data"]
    ctx.feature(("saved", cmd, repr(sorted(params.items()))[:60]))
    d = ctx.scratch()
    with open(os.path.join(d, "in.csv"), "w") as fh:
        fh.write("v\n" + "\n".join(repr(x) for x in data) + "\n")
    want, scale = ref.MODELS[cmd]([[Fraction(x) for x in data]], params)
    try:
        prog = arr.new_program(working_dir=d)
        prog.add_command(prog.find_command_class("EEMSRead"), "R", {"InFileName": "in.csv", "InFieldName": "v", "DataType": "Float"})
        prog.add_command(prog.find_command_class(cmd), "Res", dict(params, InFieldName="R"))
        text = prog.to_string()
        again = Program.from_source(text, working_dir=d)
        again.run()
        res = again.commands["Res"].result
    except Exception as e:
        ctx.fail("%s:saved-and-loaded-raises-%s" % (cmd, type(e).__name__), {"error": repr(e)[:200], "params": params})
        return
    ctx.count("saved_and_loaded_models")
    bad = ref.compare(res, want, scale=scale, rel=1e-12)
    if bad:
        ctx.fail("%s:%s:saved-and-loaded" % (cmd, bad[0]), {"cell": bad[1], "input_cell": data[bad[1]] if bad[1] is not None else None, "got": bad[2], "want": bad[3], "params": params, "text": text})


def run_case(ctx, case):
    if case.get("kind") == "big":
        return run_big(ctx, case)
    if case.get("kind") == "saved":
        return run_saved(ctx, case)
    cmd, params = case["cmd"], case["params"]
    fuzzy_in = cmd in arr.FUZZY_INPUT
    inputs = [arr.build(s) for s in case["inputs"]]
    call_params = params
    how = [None] * 9 + ["float32", "float64", "int64", "float32"]
    how = how[(len(case["inputs"][0]["data"]) * 7 + len(params)) % len(how)]
    if how:
        call_params = _as_numpy(params, how)
        ctx.count("numpy_scalar_parameter_cases")
        if how == "float32":
            case = dict(case, _single_precision_params=True)     # NumPy then computes with them in single precision
    if (len(case["inputs"][0]["data"]) * 3 + len(params)) % 5 == 1 and any(isinstance(v, list) for v in call_params.values()):
        # lists of numbers handed over as tuples (the programming interface takes any sequence)
        call_params = {k: (tuple(v) if isinstance(v, list) else v) for k, v in call_params.items()}
        ctx.count("tuple_parameter_cases")
    dt = case["inputs"][0]["dtype"]
    ctx.feature((cmd, dt, len(case["inputs"][0]["shape"]), bool(case["inputs"][0]["mask"] and any(case["inputs"][0]["mask"])), _pclass(cmd, params)))
    out, prog = arr.run_cmd(cmd, inputs, call_params, fuzzy_inputs=fuzzy_in)
    fcols = [arr.frac_cells(a) for a in inputs]
    dclass = "int" if dt.startswith("int") else "float"
    try:
        want, scale = ref.MODELS[cmd](fcols, params)
    except ref.Undefined as e:
        ctx.dontcare("%s: %s" % (cmd, e))
        return
    ctx.count("ref_postconditions")
    if not out.ok:
        ctx.fail("%s:raises-%s:%s" % (cmd, out.inner() or out.err, dclass), {"error": repr(out.exc)[:300], "params": params, "input": arr.describe(inputs[0], 8)})
        return
    res = out.value
    if not isinstance(res, numpy.ndarray) or res.shape != inputs[0].shape:
        ctx.fail("%s:shape" % cmd, {"got": list(getattr(res, "shape", [])), "want": list(inputs[0].shape)})
        return
    bad = ref.compare(res, want, scale=scale, rel=_tol(case))
    if bad:
        kind, i, g, w = bad
        ctx.fail("%s:%s:%s" % (cmd, kind, dclass), {"cell": i, "input_cell": None if i is None else arr.cells(inputs[0])[i], "got": g, "want": w,
                                                   "params": params, "input": arr.describe(inputs[0], 12)})
        return
    if len(ctx.samples) < 5:
        ctx.sample({"cmd": cmd, "params": params, "input": arr.describe(inputs[0], 8), "result": arr.describe(res, 8)})
    if "IgnoreZeros" in params and len(inputs[0].shape) == 1 and not numpy.ma.getmaskarray(inputs[0]).any() and inputs[0].dtype.kind in "if" and inputs[0].dtype.itemsize == 8:
        # the same conversion from a command file, the yes / no parameter written the ways the manual allows
        import os
        from mpilot.program import Program
        d_ = ctx.scratch()
        with open(os.path.join(d_, "in.csv"), "w") as fh:
            fh.write("v\n" + "\n".join(repr(x) for x in numpy.ma.getdata(inputs[0]).tolist()) + "\n")
        k_ = len(case["inputs"][0]["data"]) + len(str(params))
        spell = (["true", "True", "TRUE", "1", '"true"'] if params["IgnoreZeros"] else ["false", "False", "FALSE", "0", "'False'"])[k_ % 5]
        other = ", ".join("%s = %s" % (a_, "[%s]" % ", ".join(repr(x) for x in v_) if isinstance(v_, list) else repr(v_)) for a_, v_ in params.items() if a_ != "IgnoreZeros")
        text = 'R = EEMSRead(InFileName = "in.csv", InFieldName = v, DataType = %s)\nRes = %s(InFieldName = R, IgnoreZeros = %s, %s)' % ("Integer" if inputs[0].dtype.kind == "i" else "Float", cmd, spell, other)
        ctx.count("yes_no_spellings_from_a_file")
        try:
            p_ = Program.from_source(text, working_dir=d_)
            p_.run()
            fres = p_.commands["Res"].result
        except Exception as e:
            ctx.fail("%s:from-a-command-file-raises-%s:IgnoreZeros-written-%s" % (cmd, type(e).__name__, spell.strip("\"'")), {"error": repr(e)[:200], "text": text})
            return
        bad = ref.compare(fres, want, scale=scale, rel=_tol(case))
        if bad:
            ctx.fail("%s:%s:from-a-command-file:IgnoreZeros-written-%s" % (cmd, bad[0], spell.strip("\"'")), {"cell": bad[1], "got": bad[2], "want": bad[3], "text": text})
            return
    if len(inputs[0].shape) == 1 and inputs[0].size and (len(case["inputs"][0]["data"]) + len(params)) % 9 == 0 and not numpy.ma.getmaskarray(res).any():
        # the result as the CSV writer stores it next to an integer field listed first, read back
        import os
        ctx.count("written_results_read_back")
        d_ = ctx.scratch()
        arr.standin(prog, "Idx", numpy.ma.array(numpy.arange(res.size, dtype="int64")), fuzzy=False)
        wpath = os.path.join(d_, "w.csv")
        w = arr.invoke(prog, "EEMSWrite", "Wr", {"OutFileName": wpath, "OutFieldNames": ["Idx", "Res"]})
        if w.ok:
            back = arr.invoke(arr.new_program(working_dir=d_), "EEMSRead", "B", {"InFileName": wpath, "InFieldName": "Res"})
            if back.ok:
                bad = ref.compare(back.value, want, scale=scale, rel=max(_tol(case), 1e-9))
                if bad:
                    ctx.fail("%s:%s:as-written-to-a-csv-file-after-an-integer-field" % (cmd, bad[0]), {"cell": bad[1], "got": bad[2], "want": bad[3], "params": params})
                    return

    # ---- pairwise variant relation
    if cmd in PAIRS or cmd == "CvtToFuzzy":
        if cmd == "CvtToFuzzy":
            if "TrueThreshold" in params or "FalseThreshold" in params:
                pair = None
            else:
                pair = ("Normalize", {"StartVal": 1, "EndVal": -1} if params.get("Direction") == "HighToLow" else {"StartVal": -1, "EndVal": 1})
        else:
            pair = (PAIRS[cmd][0], PAIRS[cmd][1](params))
        if pair:
            pout, _ = arr.run_cmd(pair[0], inputs, pair[1])
            ctx.count("variant_checks")
            if not pout.ok:
                ctx.fail("%s:variant-%s-raises-%s" % (cmd, pair[0], pout.inner() or pout.err), {"params": pair[1]})
            else:
                clamped = [None if c is None else Fraction(min(max(c, -1.0), 1.0)) for c in arr.cells(pout.value)]
                bad = ref.compare(res, clamped, rel=_tol(case))
                if bad:
                    ctx.fail("%s:differs-from-clamped-%s" % (cmd, pair[0]), {"diff": list(bad), "params": params})
    # ---- inverse relation between the thresholds
    if cmd == "CvtToFuzzy" and "TrueThreshold" in params and "FalseThreshold" in params:
        prog.commands["Res"].is_fuzzy = True
        inv = arr.invoke(prog, "CvtFromFuzzy", "Inv", {"InFieldName": "Res", "TrueThreshold": params["TrueThreshold"], "FalseThreshold": params["FalseThreshold"]})
        ctx.count("inverse_checks")
        if not inv.ok:
            ctx.fail("CvtFromFuzzy:inverse-raises-%s" % (inv.inner() or inv.err), {"params": params})
        else:
            lo, hi = sorted([float(params["TrueThreshold"]), float(params["FalseThreshold"])])
            x, y = arr.cells(inputs[0]), arr.cells(inv.value)
            for i in range(len(x)):
                if x[i] is None or not (lo <= x[i] <= hi):
                    continue
                if y[i] is None or abs(y[i] - x[i]) > _tol(case) * max(1.0, abs(x[i]), abs(lo), abs(hi)):
                    ctx.fail("CvtFromFuzzy:not-inverse-of-CvtToFuzzy", {"cell": i, "x": x[i], "back": y[i], "params": params})
                    break
    # ---- monotonicity
    if cmd in MONOTONE:
        ctx.count("monotone_checks")
        x, y = arr.cells(inputs[0]), arr.cells(res)
        pts = sorted((a, b) for a, b in zip(x, y) if a is not None and b is not None)
        ups = downs = 0
        for (a0, b0), (a1, b1) in zip(pts, pts[1:]):
            if a1 == a0:
                if abs(b1 - b0) > 1e-9 * max(1.0, abs(b0)):
                    ctx.fail("%s:equal-inputs-different-outputs" % cmd, {"x": a0, "y": [b0, b1], "params": params})
                    return
                continue
            if b1 > b0 + 1e-9 * max(1.0, abs(b0)):
                ups += 1
            elif b1 < b0 - 1e-9 * max(1.0, abs(b0)):
                downs += 1
        if ups and downs:
            ctx.fail("%s:not-monotone" % cmd, {"points": pts[:12], "params": params})
