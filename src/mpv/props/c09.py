"""C09 - computed results are immutable: commands never modify their inputs.

Invariant at a quiescent hook: after every execute() of every consumer in a random consumer sequence, the digest (shape, element
type, mask bits, bits of unmasked values) of *every* finished result in the program is recomputed and compared with the digest
recorded when that result was produced. Producers of record are real command results and stand-in arrays; consumers are all
built-in commands of both library sets (CSV and NetCDF writers, PrintVars, single-input forms of n-ary operators included).
"""
import os

import numpy

from mpv import arr, cmdgen

ANCHORS = ['mpilot/utils.py:insure_fuzzy', 'mpilot/libraries/eems/basic.py:Sum.execute', 'mpilot/libraries/eems/basic.py:Minimum.execute', 'mpilot/libraries/eems/fuzzy.py:FuzzyOr.execute', 'mpilot/libraries/eems/fuzzy.py:CvtFromFuzzy.execute', 'mpilot/libraries/eems/netcdf/io.py:EEMSWrite.execute', 'mpilot/libraries/eems/csv/io.py:EEMSWrite.execute', 'mpilot/libraries/eems/basic.py:PrintVars.execute']   # repository functions the workload must enter (reported as anchors_reached / anchors_missed)
LEVEL = "exploration"
RULE = ("random consumer sequences (length 1-10, repeated and reordered, producers shared between lists) over pools of finished "
        "results; every built-in command of the CSV and NetCDF library sets is a consumer; distinct by (library set, rank, sequence "
        "of consumer command names up to 4, list arities)")
REQUIRED_COUNTERS = ["second_programs_with_the_same_names", "digest_rechecks", "consumer_executions", "results_watched", "model_runs", "nonfinite_fields_watched", "large_rasters_watched", "file_reads_in_sequences", "program_copies_checked"]
ASSUMPTIONS = ["values stored under the mask are excluded from the digest", "NaN / infinite cells are compared by their bits"]


def cases(ctx):
    rng = ctx.rng("cases")
    for i in range(ctx.n(1200, 60000)):
        libs = "nc" if rng.random() < 0.3 else "csv"
        rank1 = rng.random() < 0.7
        shape = (rng.choice([2, 3, 5, 8]),) if rank1 else arr.gen_shape(rng, 30, ranks=(2, 3))
        nn = rng.randint(2, 3)
        nf = rng.randint(2, 3)
        nonfuzzy = [arr.gen_array(rng, shape, rng.choice(arr.DTYPES_Q), distinct2=True, payload=rng.choice(arr.PAYLOADS)) for _ in range(nn)]
        fuzzy = [arr.gen_array(rng, shape, "float64", fuzzy=True, distinct2=True, payload=rng.choice([0.0, 0.5, 1e30])) for _ in range(nf)]
        case = {"libs": libs, "shape": list(shape), "nonfuzzy": nonfuzzy, "fuzzy": fuzzy, "steps": rng.randint(1, 10), "rseed": rng.randrange(10 ** 9)}
        if rng.random() < 0.15:
            # a float field holding NaN / infinities at non-missing cells (0/0 and x/0 in the source data)
            nf = arr.gen_array(rng, shape, "float64", distinct2=True, payload=rng.choice(arr.PAYLOADS))
            for j in range(len(nf["data"])):
                if rng.random() < 0.3:
                    nf["data"][j] = rng.choice(["nan", "inf", "-inf"])
            case["nonfinite"] = nf
        yield case
    from mpv import big
    for i in range(ctx.n(3, 30)):
        j = i * ctx.nshards + ctx.shard
        yield {"kind": "big", "cmd": big.NAMES[(j * 5) % len(big.NAMES)], "shape": list(big.SHAPES[(j + 3) % len(big.SHAPES)]), "rseed": rng.randrange(10 ** 9), "masked": j % 3 != 2}
    from mpv import models
    for i in range(ctx.n(300, 15000)):
        yield {"kind": "model", "model": models.gen_model(rng, n_ops=rng.randint(2, 12), sinks=True, libs="nc" if i % 3 == 0 else "csv")}


_catalog = {}


def catalog(libs):
    if libs not in _catalog:
        _catalog[libs] = arr.discover(arr.NC_LIBS if libs == "nc" else arr.CSV_LIBS)
    return _catalog[libs]


def _template(d, shape):
    """NetCDF dimension template for EEMSWrite."""
    from netCDF4 import Dataset
    path = os.path.join(d, "dims.nc")
    with Dataset(path, "w") as ds:
        names = []
        for i, n in enumerate(shape):
            nm = "d%d" % i
            ds.createDimension(nm, n)
            v = ds.createVariable(nm, "f8", (nm,))
            v[:] = numpy.arange(n, dtype="f8") * 0.5
            names.append(nm)
        tv = ds.createVariable("tmpl", "f8", tuple(names))
        tv[:] = numpy.zeros(shape)
    return path


def _digests(prog):
    return {name: arr.digest(c._result) for name, c in prog.commands.items() if c.is_finished and isinstance(c._result, numpy.ndarray)}


def run_model(ctx, case):
    """W-MODEL rider: after every execute() exit inside a running model, every finished result is re-digested."""
    from mpv import models, trace
    model = case["model"]
    d = ctx.scratch()
    try:
        prog = models.load(model, d)
    except Exception as e:
        ctx.dontcare("model does not load: %s" % type(e).__name__)
        return
    recorded = {}
    bad = []

    def on_exit(cmd, value):
        ctx.count("consumer_executions")
        for name, dg in recorded.items():
            ctx.count("digest_rechecks")
            c = prog.commands[name]
            if arr.digest(c._result) != dg and not bad:
                bad.append((type(cmd).__name__, cmd.result_name, name, type(c).__name__))
        if isinstance(value, numpy.ndarray):
            recorded[cmd.result_name] = arr.digest(value)

    trace.start(on_exit=on_exit)
    trace.attach(prog)
    try:
        prog.run()
    except Exception as e:
        ctx.dontcare("model raises %s" % type(e).__name__)
    finally:
        trace.stop()
    # quiescent point after the run
    for name, dg in recorded.items():
        ctx.count("digest_rechecks")
        if arr.digest(prog.commands[name]._result) != dg and not bad:
            bad.append(("<end-of-run>", "-", name, type(prog.commands[name]).__name__))
    if not bad and recorded and len(model["commands"]) % 2 == 0:
        # the same command file evaluated for another table by a second program of the process: the first program's results
        # stay what they were
        import copy
        other = copy.deepcopy(model)
        for col in other["table"]["cols"].values():
            col["data"] = [(v if v == other["table"]["missing"] else v + 1) for v in reversed(col["data"])]
        try:
            prog2 = models.load(other, ctx.scratch())
            prog2.run()
        except Exception:
            prog2 = None
        ctx.count("second_programs_with_the_same_names")
        for name, dg in recorded.items():
            ctx.count("digest_rechecks")
            c = prog.commands[name]
            try:
                now = arr.digest(c.result)
            except Exception as e:
                now = "raises " + type(e).__name__
            if now != dg and not bad:
                bad.append(("<a second program with the same result names>", "-", name, type(c).__name__))
    ctx.count("results_watched", len(recorded))
    ctx.count("model_runs")
    ctx.feature(("model", model.get("libs", "csv"), tuple(sorted(set(c["cmd"] for c in model["commands"])))[:5]))
    if bad:
        consumer, cname, victim, vtype = bad[0]
        text, _ = models.to_text(model)
        ctx.fail("%s:mutates-input" % consumer, {"in_model": True, "consumer": cname, "mutated_result": victim, "mutated_produced_by": vtype, "text": text[:1500]})


def run_big(ctx, case):
    """Rasters of more than a million cells (where saving a copy is tempting): the inputs are unchanged after the command."""
    from mpv import big
    cmd, shape = case["cmd"], tuple(case["shape"])
    params, fuzzy_in = big.ELEMENTWISE[cmd], cmd in arr.FUZZY_INPUT
    inputs = big.gen_inputs(cmd, shape, case["rseed"], case["masked"])
    before = [arr.digest(a) for a in inputs]
    out, prog = arr.run_cmd(cmd, inputs, params, fuzzy_inputs=fuzzy_in)
    ctx.count("consumer_executions")
    ctx.count("large_rasters_watched")
    ctx.count("results_watched", len(inputs))
    ctx.feature(("big", cmd, len(shape), case["masked"]))
    for rep in range(2):
        ctx.count("digest_rechecks", len(inputs))
        for k, a in enumerate(inputs):
            if arr.digest(a) != before[k]:
                ctx.fail("%s:mutates-input" % cmd, {"large_raster": list(shape), "input": k, "after": "first use" if rep == 0 else "second use", "consumer_outcome": out.err})
                return
        if rep == 0:
            again = dict(params)
            names = arr.STANDIN_NAMES[:len(inputs)]
            style = arr.INPUT_STYLE[cmd]
            again.update({"InFieldName": names[0]} if style == "one" else {"A": names[0], "B": names[1]} if style == "ab" else {"InFieldNames": list(names)})
            out2 = arr.invoke(prog, cmd, "Res2", again)
            if out.ok and not out2.ok:
                ctx.fail("%s:second-use-of-the-same-inputs-raises-%s" % (cmd, out2.inner() or out2.err), {"large_raster": list(shape)})
                return


def run_case(ctx, case):
    if case.get("kind") == "model":
        return run_model(ctx, case)
    if case.get("kind") == "big":
        return run_big(ctx, case)
    import random
    rng = random.Random(case["rseed"])
    libs = case["libs"]
    shape = tuple(case["shape"])
    d = ctx.scratch()
    prog = arr.new_program(arr.NC_LIBS if libs == "nc" else arr.CSV_LIBS, working_dir=d)
    cat = catalog(libs)
    pool = {"nonfuzzy": [], "fuzzy": []}
    for i, s in enumerate(case["nonfuzzy"]):
        arr.standin(prog, "N%d" % i, arr.build(s), fuzzy=False)
        pool["nonfuzzy"].append("N%d" % i)
    for i, s in enumerate(case["fuzzy"]):
        arr.standin(prog, "F%d" % i, arr.build(s), fuzzy=True)
        pool["fuzzy"].append("F%d" % i)
    if libs == "nc" and case["rseed"] % 2 == 0:
        # an unsigned result, as NetCDF 'Positive Integer' reads produce
        arr.standin(prog, "Nu", numpy.ma.array(numpy.abs(numpy.ma.getdata(arr.build(case["nonfuzzy"][0]))).astype("uint64")), fuzzy=False)
        pool["nonfuzzy"].append("Nu")
    if case["rseed"] % 3 == 0:
        # the same cells with an extra length-1 axis: consumers must reject the mix (MixedArrayShapes) and touch nothing
        a0 = arr.build(case["nonfuzzy"][0])
        arr.standin(prog, "Nx", a0.reshape(a0.shape + (1,)).copy(), fuzzy=False)
        pool["nonfuzzy"].append("Nx")
        f0 = arr.build(case["fuzzy"][0])
        arr.standin(prog, "Fx", f0.reshape((1,) + f0.shape).copy(), fuzzy=True)
        pool["fuzzy"].append("Fx")
    if case.get("nonfinite"):
        ctx.count("nonfinite_fields_watched")
        arr.standin(prog, "Nn", arr.build(case["nonfinite"]), fuzzy=False)
        pool["nonfuzzy"].append("Nn")
        # ... and a fuzzy result (of a user command, say) with NaN at non-missing cells next to a real mask array
        f0 = arr.build(case["fuzzy"][0])
        fdata = numpy.array(numpy.ma.getdata(f0), dtype="float64")
        fmask = numpy.array(numpy.ma.getmaskarray(f0))
        free = [ix for ix in numpy.ndindex(*fdata.shape) if not fmask[ix]]
        for ix in free[case["rseed"] % 2::3][:3]:
            fdata[ix] = numpy.nan
        arr.standin(prog, "Fn", numpy.ma.array(fdata, mask=fmask), fuzzy=True)
        pool["fuzzy"] += ["Fn", "Fn"]
    # a file of the working directory that EEMSRead steps read (several times, with different options)
    src_file = None
    if case["rseed"] % 4 != 3:
        base_arr = arr.build(case["nonfuzzy"][0])
        if libs == "nc":
            from netCDF4 import Dataset
            src_file = os.path.join(d, "src.nc")
            with Dataset(src_file, "w") as ds:
                dn = []
                for i, n_ in enumerate(shape):
                    ds.createDimension("s%d" % i, n_)
                    dn.append("s%d" % i)
                v = ds.createVariable("field", "f8" if base_arr.dtype.kind == "f" else "i8", tuple(dn))
                v[:] = numpy.ma.getdata(base_arr)
                vf = ds.createVariable("fz", "f8", tuple(dn))
                vf[:] = numpy.clip(numpy.ma.getdata(arr.build(case["fuzzy"][0])) * 1.01, -1.015, 1.015)
        elif len(shape) == 1:
            src_file = os.path.join(d, "src.csv")
            with open(src_file, "w") as fh:
                fh.write("field\n" + "\n".join(repr(x) for x in numpy.ma.getdata(base_arr).tolist()) + "\n")
    recorded = _digests(prog)
    seqnames = []
    template = None
    consumers = sorted(n for n, info in cat.items() if info["result_inputs"])
    for step in range(case["steps"]):
        cmd = rng.choice(consumers)
        if src_file and rng.random() < 0.25:
            # a (further) read of the same file: it produces a new result and leaves the earlier ones alone
            vals = [x for x in arr.cells(arr.build(case["nonfuzzy"][0])) if x is not None]
            rargs = {"InFileName": src_file, "InFieldName": "field"}
            if rng.random() < 0.6 and vals:
                rargs["MissingVal" if libs == "csv" else "MissingValue"] = rng.choice(vals)
            if libs == "nc" and rng.random() < 0.3:
                rargs = {"InFileName": src_file, "InFieldName": "fz", "DataType": "Fuzzy"}
            elif rng.random() < 0.3:
                rargs["DataType"] = rng.choice(["Float", "Integer"]) if case["nonfuzzy"][0]["dtype"].startswith("int") else "Float"
            name = "Rd%d" % step
            out = arr.invoke(prog, "EEMSRead", name, rargs)
            seqnames.append("EEMSRead")
            ctx.count("consumer_executions")
            ctx.count("file_reads_in_sequences")
            now = _digests(prog)
            ctx.count("digest_rechecks", len(recorded))
            for rn, dg in recorded.items():
                if now.get(rn) != dg:
                    ctx.fail("EEMSRead:changes-an-earlier-result", {"read": rargs, "changed_result": rn, "changed_result_produced_by": type(prog.commands[rn]).__name__, "now": arr.describe(prog.commands[rn]._result, 8)})
                    return
            if out.ok and isinstance(out.value, numpy.ndarray) and out.value.shape == shape:
                recorded[name] = now[name]
                pool["fuzzy" if rargs.get("DataType") == "Fuzzy" else "nonfuzzy"].append(name)
                if rargs.get("DataType") == "Fuzzy":
                    prog.commands[name].is_fuzzy = True
            else:
                prog.commands.pop(name, None)
            continue
        info = cat[cmd]
        is_writer = not info["is_data"] and cmd != "PrintVars"
        if is_writer and len(shape) != 1 and libs == "csv":
            continue
        args = {}
        arity = []
        for pname, style, fz in info["result_inputs"]:
            names = pool["fuzzy"] if fz is True else pool["nonfuzzy"] if fz is False else pool["fuzzy"] + pool["nonfuzzy"]
            if style == "one":
                args[pname] = rng.choice(names)
                arity.append(1)
            else:
                k = rng.choice([1, 1, 2, 2, 3, 4])
                if cmd == "FuzzyXOr":
                    k = max(k, 2)
                args[pname] = [rng.choice(names) for _ in range(k)]
                arity.append(k)
        n_in = arity[0] if arity else 1
        if cmd in cmdgen.ALL:
            first = prog.commands[args.get("InFieldName") or (args.get("InFieldNames") or [args.get("A")])[0]]._result
            dv = [v for v in arr.cells(first) if v is not None]
            args.update(cmdgen.gen_params(rng, cmd, n_in, dv or None))
        elif cmd == "PrintVars":
            args["OutFileName"] = os.path.join(d, "print%d.txt" % step)
        elif cmd == "EEMSWrite":
            if libs == "csv":
                args["OutFileName"] = os.path.join(d, "out%d.csv" % step)
            else:
                template = template or _template(d, shape)
                args.update({"OutFileName": os.path.join(d, "out%d.nc" % step), "DimensionFileName": template, "DimensionFieldName": "tmpl"})
                # a variable may not be written twice into one dataset
                args["OutFieldNames"] = list(dict.fromkeys(args["OutFieldNames"]))
        name = "R%d" % step
        out = arr.invoke(prog, cmd, name, args)
        seqnames.append(cmd)
        ctx.count("consumer_executions")
        now = _digests(prog)
        ctx.count("digest_rechecks", len(recorded))
        for rn, dg in recorded.items():
            if now.get(rn) != dg:
                prod = prog.commands[rn]
                ctx.fail("%s:mutates-input" % cmd, {"consumer": cmd, "args": {k: v for k, v in args.items()}, "mutated_result": rn,
                                                    "mutated_produced_by": type(prod).__name__ if rn[0] == "R" else "stand-in",
                                                    "now": arr.describe(prod._result, 8), "arities": arity, "consumer_outcome": out.err})
                return
        if out.ok and isinstance(out.value, numpy.ndarray) and info["is_data"] and out.value.shape == shape:
            recorded[name] = now[name]
            pool["fuzzy" if info["is_fuzzy"] else "nonfuzzy"].append(name)
        elif not out.ok:
            ctx.dontcare("%s raises %s" % (cmd, out.inner() or out.err))
            prog.commands.pop(name, None)
    if case["rseed"] % 3 == 1:
        # copying / pickling the program is not a reason for a result to change either (and the copy holds the same results)
        import copy
        import pickle
        ctx.count("program_copies_checked")
        try:
            clone = copy.deepcopy(prog)
        except Exception as e:
            clone = None
            ctx.dontcare("program cannot be deep-copied: %s" % type(e).__name__)
        try:
            pickle.dumps(prog.commands[sorted(recorded)[0]]) if recorded else None
        except Exception:
            pass        # whether commands can be pickled at all is not stated anywhere
        now = _digests(prog)
        ctx.count("digest_rechecks", len(recorded))
        for rn, dg in recorded.items():
            if now.get(rn) != dg:
                ctx.fail("copy-or-pickle-of-the-program:changes-a-result", {"changed_result": rn, "now": arr.describe(prog.commands[rn]._result, 8) if isinstance(prog.commands[rn]._result, numpy.ndarray) else repr(prog.commands[rn]._result)})
                return
            if clone is not None and arr.digest(clone.commands[rn]._result) != dg:
                ctx.fail("copy-of-the-program:holds-another-result", {"result": rn, "in_copy": repr(clone.commands[rn]._result)[:120]})
                return
    ctx.count("results_watched", len(recorded))
    ctx.feature((libs, len(shape), tuple(seqnames[:4])))
    if len(ctx.samples) < 4:
        ctx.sample({"libs": libs, "shape": list(shape), "consumer_sequence": seqnames, "results_watched": sorted(recorded)})
