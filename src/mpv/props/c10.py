"""C10 - parsing delivers exactly what was written, regardless of layout.

Monitor: the ProgramNode returned by Parser().parse(text) is compared structurally (type-exact, floats bit-exact, tuples as
maps) with the abstract program the text was rendered from, over many renderings of each program (spacing, tabs, line breaks,
comment lines, trailing comments, trailing commas, quote style, LF/CRLF); single-edit corruptions must raise SyntaxError.
Failures are classified by (leaf value class, deviation) after isolating the culprit value in a canonical one-argument program.
"""
import os
import random

from mpv import syntax

ANCHORS = ['mpilot/parser/parser.py:Parser.parse', 'mpilot/parser/parser.py:Lexer.t_STRING', 'mpilot/parser/parser.py:Lexer.t_FLOAT', 'mpilot/parser/parser.py:Parser.p_plain_string_with_number', 'mpilot/parser/parser.py:Parser.p_tuple_pair', 'mpilot/parser/parser.py:Parser.p_error', 'mpilot/parser/parser.py:Lexer.t_error']   # repository functions the workload must enter (reported as anchors_reached / anchors_missed)
LEVEL = "exploration"
RULE = ("random abstract programs (1-8 commands, 0-6 arguments; ints, decimals in every spelling, quoted strings with delimiters / "
        "quotes / escapes / non-ASCII, unquoted words, sentences, paths, URLs, lists nested <=3, tuples) x random renderings; plus "
        "single-token corruptions; distinct by (multiset of leaf value classes, layout features used, eol)")
REQUIRED_COUNTERS = ["mixed_dialect_files", "files_run_through_the_tool", "non_ascii_twin_files", "parses_compared", "corruptions_checked", "leaf_values_compared", "parser_reuse_cases", "files_loaded_through_the_program"]
ASSUMPTIONS = ["expected content of quoted strings = text after unescaping \\\\ \\\" \\' \\n \\t (as tests/test_parser.py fixes)",
               "expected unquoted text = the written words joined by their single blanks, trimmed",
               "don't-care: duplicate tuple keys, comments/newlines inside unquoted strings, bare True/False words, other backslash escapes"]


REUSE_TEXTS = ["A = Cmd(P = 1)\nB = Cmd(Q = [1, 2\nC = Cmd()", "A = Cmd(P = 1)\nB = Cmd(Q = two words)\nC = = Cmd()", "X = Other(L = [a, b], T = [k: v])",
               "READ(InFileName = foo.gdb, InFieldName = Test)\nOut = CVTTOFUZZY(InFieldName = Test)\n", "A = Cmd(P = 'unterminated)\n", "A = Cmd(P = 1) B"]


def cases(ctx):
    rng = ctx.rng("cases")
    for i in range(ctx.n(3000, 200000)):
        prog = syntax.gen_program(rng, max_cmds=5 if ctx.quick else 8, ustr_classes=syntax.USTR_CLASSES * 3 + syntax.USTR_NUMBER_FINAL)
        style = "canon" if rng.random() < 0.15 else "wild"
        eol = rng.choice(["\n", "\n", "\n", "\r\n"])
        rawnl = rng.random() < 0.2 and eol == "\n"   # a raw line break inside a quoted string is content: keep it LF
        text = syntax.render(prog, random.Random(rng.randrange(10 ** 9)), style, raw_newline_strings=rawnl, eol=eol)
        case = {"kind": "parse", "prog": _clean(prog), "text": text, "style": style, "eol": "crlf" if eol != "\n" else "lf"}
        if rng.random() < 0.2:
            # the same Parser object has parsed other texts before (well-formed ones, EEMS 2.0 ones, and malformed ones whose
            # error comes after complete commands)
            case["before"] = [rng.choice(REUSE_TEXTS + [text]) for _ in range(rng.randint(1, 3))]
        yield case
    # the same comparison for whole command files loaded through Program.from_source (the way files are parsed in practice), over
    # a user's own command library whose command names equal EEMS 2.0 names but for letter case
    for i in range(ctx.n(300, 20000)):
        yield {"kind": "viaprogram", "prog": _gen_user_program(rng), "rseed": rng.randrange(10 ** 9), "rawnl": rng.random() < 0.5, "style": rng.choice(["wild", "wild", "canon"])}
    # EEMS 2.0 READ commands whose field names are not identifiers: the result is named as the field is
    for i in range(ctx.n(100, 6000)):
        cmds = []
        for k in range(rng.randint(1, 4)):
            nm = rng.choice(ODD_NAMES) + ("" if k == 0 else "_%d" % k)
            args = [{"name": "InFileName", "value": {"t": "qstr", "v": "table %d.csv" % k, "q": '"'}}]
            if rng.random() < 0.5:
                args.append({"name": "InFieldName", "value": {"t": "qstr", "v": nm, "q": rng.choice(['"', "'"])}})
            else:
                args += [{"name": "InFieldName", "value": {"t": "qstr", "v": "col%d" % k, "q": '"'}}, {"name": "NewFieldName", "value": {"t": "qstr", "v": nm, "q": '"'}}]
            rng.shuffle(args)
            cmds.append({"result": None, "command": "READ", "args": args, "trail": False, "_name": nm})
        yield {"kind": "viaprogram", "prog": {"commands": cmds}, "rseed": rng.randrange(10 ** 9), "rawnl": False, "style": rng.choice(["wild", "canon"]), "v2": True}
    for i in range(ctx.n(40, 2000)):
        yield {"kind": "viatool", "rseed": rng.randrange(10 ** 9)}
    # two quoted strings with nothing between them but blanks (a comma or colon is missing): malformed
    for i in range(ctx.n(20, 600)):
        yield {"kind": "adjacent", "rseed": rng.randrange(10 ** 9)}
    # files mixing both dialects: the program holds the commands in the order in which they are written
    for i in range(ctx.n(40, 2000)):
        yield {"kind": "mixedorder", "rseed": rng.randrange(10 ** 9)}
    for i in range(ctx.n(1200, 80000)):
        # corruption of well-behaved programs (quoted strings / numbers / identifier words only, so that the base text parses)
        prog = syntax.gen_program(rng, max_cmds=3, max_args=3, ustr_classes=["word"], rich=False)
        if rng.random() < 0.3:
            # a text with exactly one quoted string, for the unbalanced-quote corruption
            prog = {"commands": [{"result": "A", "command": "Cmd", "args": [{"name": "P", "value": {"t": "qstr", "v": rng.choice(syntax.WORDS), "q": '"'}}]}]}
        text = syntax.render(prog, random.Random(rng.randrange(10 ** 9)), "wild")
        c = syntax.corrupt(text, random.Random(rng.randrange(10 ** 9)))
        if c:
            yield {"kind": "corrupt", "edit": c[0], "text": c[1], "base": text}


USER_NAMES = ["dif", "Dif", "union", "Union", "min", "Sum_", "sum", "not", "Not", "or", "read", "Read", "mean", "Copyfield", "xor"]
ODD_NAMES = ["2020_NDVI", "Elev.m", "Slope (deg)", "a-b", "99", "x y", "Cover%", "é_field", "A.B.C", "_", "n/a"]
ODD_STRINGS = ["cost in $$", "$$", "${Name} and $Name", "first\n   \nlast", "  two\n\t\n  three", "a\n \n \nb", "line one\n    indented line two", "\n   \n", "x\n    "]


def _gen_user_program(rng):
    cmds = []
    n_cmds = rng.randint(1, 5)
    top_down = rng.random() < 0.5      # files written top-down name results that are defined further down
    for i in range(n_cmds):
        args = []
        prev = [c["result"] for c in cmds] if not top_down else ["U%d" % j for j in range(n_cmds) if j != i]
        for k in rng.sample(["V", "OutFileName", "NewFieldName", "A", "InFieldNames", "Anything", "Metadata"], rng.randint(0, 4)):
            if k == "Metadata":
                v = syntax.gen_tuple(rng)      # key / value entries keep the kind of value that was written (numbers stay numbers)
            elif k == "V":
                v = syntax.gen_int(rng) if rng.random() < 0.5 else syntax.gen_float(rng)
            elif k in ("OutFileName", "NewFieldName"):
                v = syntax.gen_qstr(rng)
                if rng.random() < 0.35:
                    v = {"t": "qstr", "v": rng.choice(ODD_STRINGS), "q": rng.choice(['"', "'"])}      # whitespace-only lines inside a multi-line string
            elif k == "A":
                if not prev:
                    continue
                v = {"t": "ustr", "v": rng.choice(prev), "cls": "word"}
            elif k == "InFieldNames":
                v = {"t": "list", "items": [{"t": "ustr", "v": rng.choice(prev), "cls": "word"} for _ in range(rng.randint(0, 3))] if prev else [], "trail": False}
            else:
                v = {"t": "list", "items": [syntax.gen_qstr(rng) if rng.random() < 0.6 else syntax.gen_int(rng) for _ in range(rng.randint(0, 3))], "trail": False}
                if top_down and rng.random() < 0.4:
                    # a text that happens to be the name of a later result
                    v["items"].append({"t": "qstr", "v": "U%d" % rng.randrange(n_cmds), "q": '"'})
            args.append({"name": k, "value": v})
        cmds.append({"result": "U%d" % i, "command": rng.choice(USER_NAMES), "args": args, "trail": False})
    return {"commands": cmds}


def run_viaprogram(ctx, case):
    from mpilot.program import Program
    from mpilot.arguments import Argument
    prog = case["prog"]
    text = syntax.render(prog, random.Random(case["rseed"]), case["style"], raw_newline_strings=case["rawnl"])
    ctx.count("files_loaded_through_the_program")
    ctx.feature(("viaprogram", tuple(sorted(set(c["command"] for c in prog["commands"])))[:4], case["rawnl"], case["style"]))
    try:
        p = Program.from_source(text, libraries=("usercmds",) if not case.get("v2") else ("mpilot.libraries.eems.csv", "usercmds"))
    except Exception as e:
        ctx.fail("via-program:well-formed-file-rejected:%s%s" % (type(e).__name__, ":eems2-read-of-an-oddly-named-field" if case.get("v2") else ""), {"text": text[:600], "error": str(e)[:200]})
        return
    if case.get("v2"):
        got = [(n, type(c).__name__) for n, c in p.commands.items()]
        want = [(c["_name"], "EEMSRead") for c in prog["commands"]]
        if got != want:
            ctx.fail("via-program:eems2-read:result-names-differ", {"got": got[:4], "want": want[:4], "text": text[:600]})
        return

    def plain(v):
        if isinstance(v, Argument):
            v = v.value
        if isinstance(v, list):
            return [plain(x) for x in v]
        if isinstance(v, dict):
            return {k_: plain(syntax.strip_node(x)) for k_, x in v.items()}
        return v
    got = list(p.commands.items())
    if [n for n, _ in got] != [c["result"] for c in prog["commands"]]:
        ctx.fail("via-program:commands-differ", {"got": [n for n, _ in got], "want": [c["result"] for c in prog["commands"]], "text": text[:600]})
        return
    if not case.get("_second") and any(ord(ch) >= 0xA1 for ch in text):
        # a second, different file of the same length and layout, differing from this one in non-ASCII characters only, loaded
        # right after it: it delivers its own values
        twin = _flip_non_ascii(prog)
        if syntax.render(twin, random.Random(case["rseed"]), case["style"], raw_newline_strings=case["rawnl"]) != text:
            ctx.count("non_ascii_twin_files")
            run_viaprogram(ctx, dict(case, prog=twin, _second=True))
    for c, (name, cmd) in zip(prog["commands"], got):
        ctx.count("leaf_values_compared", len(c["args"]))
        if type(cmd).__name__ != c["command"] or type(cmd).__module__ != "usercmds":
            ctx.fail("via-program:command-of-the-user-library-replaced", {"written": c["command"], "loaded": "%s.%s" % (type(cmd).__module__, type(cmd).__name__), "text": text[:600]})
            return
        if [a.name for a in cmd.arguments] != [a["name"] for a in c["args"]]:
            ctx.fail("via-program:argument-names-differ", {"command": c["command"], "got": [a.name for a in cmd.arguments], "want": [a["name"] for a in c["args"]], "text": text[:600]})
            return
        for a, arg in zip(c["args"], cmd.arguments):
            want = syntax.expect_value(a["value"])
            if not syntax.same_value(plain(arg.value), want):
                ctx.fail("via-program:value-differs:%s" % syntax.value_feature(a["value"]), {"argument": a["name"], "got": repr(plain(arg.value))[:200], "want": repr(want)[:200], "text": text[:600]})
                return


TOOL_VALUES = ["Elev\t(m)", "a\tb", "two  blanks", "tab\tand  blanks\t", "\tleading tab", "x\t\ty", "plain", "trailing tab\t", "1\t2"]


def run_viatool(ctx, case):
    """A command file whose values contain tabs and runs of blanks, run through the command-line tool: the command receives
    what the file says (quoted strings verbatim; unquoted multi-word strings as written)."""
    import json as _json
    from click.testing import CliRunner
    from mpilot.cli.mpilot import main
    rng = random.Random(case["rseed"])
    d = ctx.scratch()
    out = os.path.join(d, "dump.json")
    vals = [rng.choice(TOOL_VALUES) for _ in range(3)]
    q = rng.choice(['"', "'"])
    unq = rng.choice(["Mean\tSlope", "a b", "x\t\ty z", "one"])
    indent = rng.choice(["    ", "\t", "  \t"])
    text = "D = Dump(\n%sOutFileName = %s%s%s,\n%sNewFieldName = %s%s%s,\n%sAnything = [%s%s%s, %s%s%s, %s]\n)\n" % (indent, q, out, q, indent, q, vals[0], q, indent, q, vals[1], q, q, vals[2], q, unq)
    path = os.path.join(d, "model.mpt")
    with open(path, "w", encoding="utf-8", newline="") as f:
        f.write(text)
    try:
        res = CliRunner(mix_stderr=False).invoke(main, ["eems-csv", path, "-l", "usercmds"])
    except TypeError:
        res = CliRunner().invoke(main, ["eems-csv", path, "-l", "usercmds"])
    ctx.count("files_run_through_the_tool")
    ctx.feature(("viatool", tuple(sorted(set("tab" if "\t" in v else "blanks" if "  " in v else "plain" for v in vals + [unq])))))
    if res.exit_code != 0 or not os.path.exists(out):
        ctx.fail("via-tool:well-formed-file-fails", {"text": text, "exit": res.exit_code, "exception": repr(res.exception)[:200]})
        return
    got = _json.load(open(out, encoding="utf-8"))
    want = {"NewFieldName": vals[0], "Anything": [vals[1], vals[2], unq]}
    ctx.count("leaf_values_compared", 4)
    if got != want:
        ctx.fail("via-tool:value-differs:%s" % ("tab-in-a-value" if any("\t" in v for v in vals + [unq]) else "blanks-in-a-value"), {"got": repr(got)[:300], "want": repr(want)[:300], "text": text})


def run_adjacent(ctx, case):
    rng = random.Random(case["rseed"])
    q1, q2 = rng.choice(['"', "'"]), rng.choice(['"', "'"])
    gap = rng.choice([" ", "  ", "\n", " \n  ", "\t", " # c\n "])
    a, b = rng.choice(["A", "Key", "x y", "1"]), rng.choice(["B", "Value", "z", "2"])
    pair = "%s%s%s%s%s%s%s" % (q1, a, q1, gap, q2, b, q2)
    text = rng.choice(['A = C(P = [%s, "C"])', "A = C(M = [%s])", "A = C(N = %s)", 'A = C(P = ["C", %s])', "A = C(M = [K: %s])", "READ(InFieldName = %s)"]) % pair
    ctx.count("corruptions_checked")
    ctx.feature(("adjacent", q1 + q2, gap.strip() == "", text[:12]))
    tree, err = _parse(text)
    if err is None:
        ctx.fail("corrupt:adjacent-quoted-strings:accepted", {"text": text, "delivered": repr(syntax.strip_node(tree.commands[0].arguments[0].value))[:120] if tree and tree.commands and tree.commands[0].arguments else None})
    elif not isinstance(err, SyntaxError):
        ctx.fail("corrupt:adjacent-quoted-strings:raises-%s" % type(err).__name__, {"text": text})


def run_mixedorder(ctx, case):
    from mpilot.program import Program
    rng = random.Random(case["rseed"])
    n = rng.randint(2, 7)
    lines, names = [], []
    kinds = [rng.choice(["v3", "v2read", "v2name"]) for _ in range(n)]
    if "v3" not in kinds:
        kinds[0] = "v3"
    if all(k == "v3" for k in kinds):
        kinds[-1] = "v2read"
    for i, k in enumerate(kinds):
        if k == "v3":
            lines.append("U%d = %s(V = %d)" % (i, rng.choice(["dif", "Union", "Sum_", "Copyfield"]), i))
            names.append("U%d" % i)
        elif k == "v2read":
            lines.append('READ(InFileName = "nowhere%d.csv", InFieldName = F%d, NewFieldName = R%d)' % (i, i, i))
            names.append("R%d" % i)
        else:
            lines.append('X%d = READ(InFileName = "nowhere%d.csv", InFieldName = G%d)' % (i, i, i))
            names.append("X%d" % i)
    text = "\n".join(lines)
    ctx.count("files_loaded_through_the_program")
    ctx.count("mixed_dialect_files")
    ctx.feature(("mixedorder", tuple(kinds)[:5]))
    try:
        p = Program.from_source(text, libraries=("mpilot.libraries.eems.csv", "usercmds"))
    except Exception as e:
        ctx.fail("via-program:well-formed-file-rejected:%s:mixed-dialects" % type(e).__name__, {"text": text, "error": str(e)[:200]})
        return
    if list(p.commands) != names:
        ctx.fail("via-program:mixed-dialects:commands-not-in-written-order", {"got": list(p.commands), "want": names, "text": text})


def _flip_non_ascii(v):
    """The AST value with every non-ASCII character of its quoted strings replaced by its neighbour (code point with the lowest bit
    flipped): a different text of the same length that is the same once non-ASCII characters are dropped."""
    import copy
    v = copy.deepcopy(v)

    def walk(x):
        if isinstance(x, dict):
            if x.get("t") == "qstr" and isinstance(x.get("v"), str):
                x["v"] = "".join(chr(ord(c) ^ 1) if ord(c) >= 0xA1 and not (0xD800 <= (ord(c) ^ 1) <= 0xDFFF) else c for c in x["v"])
            for k_, y in x.items():
                if k_ != "v" or not isinstance(y, str):
                    walk(y)
        elif isinstance(x, list):
            for y in x:
                walk(y)
    walk(v)
    return v


def _clean(x):
    if isinstance(x, dict):
        return {k: _clean(v) for k, v in x.items() if not k.startswith("_")}
    if isinstance(x, list):
        return [_clean(v) for v in x]
    return x


def _leaves(v, in_list=False):
    """(wrapper value to render, leaf) pairs; tuple keys are leaves of their own."""
    if v["t"] == "list":
        for it in v["items"]:
            for l in _leaves(it, True):
                yield l
    elif v["t"] == "tuple":
        for k, val in v["pairs"]:
            yield ({"t": "tuple", "pairs": [[k, {"t": "int", "v": 1, "text": "1"}]], "trail": False}, {"t": "tuple-key", "v": k["v"], "q": k["q"]})
            yield ({"t": "tuple", "pairs": [[{"v": "K", "q": None}, val]], "trail": False}, val)
    else:
        yield (({"t": "list", "items": [v], "trail": False} if in_list else v), v)


def _parse(text, before=()):
    from mpilot.parser.parser import Parser
    parser = Parser()
    for t in before:
        try:
            parser.parse(t)
        except Exception:
            pass
    try:
        return parser.parse(text), None
    except Exception as e:
        return None, e


def _deviation(got, want):
    if isinstance(want, str) and isinstance(got, str):
        if got == want.replace(" ", ""):
            return "inner-blanks-dropped"
        if got.rstrip() == want and got != want:
            return "trailing-blanks-kept"
        if got.replace(" ", "") == want.replace(" ", ""):
            return "blanks-changed"
        if len(got) == len(want) - 2 or len(got) == len(want) - 1:
            return "chars-stripped"
        try:
            if got.encode("latin-1").decode("utf-8") == want:
                return "mojibake"
        except Exception:
            pass
        return "text-changed"
    if type(got) is not type(want):
        return "kind-%s-for-%s" % (type(got).__name__, type(want).__name__)
    return "value-changed"


def _mini_texts(wrapper):
    mini = {"commands": [{"result": "A", "command": "C", "args": [{"name": "P", "value": wrapper}]}]}
    canon = syntax.render(mini, None, "canon")
    yield mini, canon, ""
    # the same value with blanks before and after it
    val = canon[len("A=C(P="):-1] if canon.startswith("A=C(P=") else None
    if val is not None:
        yield mini, "A = C( P =  " + val + " \t )", "+outer-blanks"
        yield mini, "A = C(P = " + val + "  # note\n)", "+trailing-comment"


def _isolate(prog):
    """Find one leaf value whose one-argument program already fails; returns (leaf, deviation, text) or None."""
    for c in prog["commands"]:
        for a in c["args"]:
            for wrapper, leaf in _leaves(a["value"]):
                for mini, text, suffix in _mini_texts(wrapper):
                    tree, exc = _parse(text)
                    if exc is not None:
                        return leaf, "rejected-" + type(exc).__name__ + suffix, text
                    d = syntax.first_diff(mini, tree)
                    if d:
                        got, want = d[1], d[2]
                        while isinstance(want, list) and len(want) == 1 and isinstance(got, list) and len(got) == 1:
                            got, want = got[0], want[0]
                        if isinstance(want, dict) and isinstance(got, dict) and len(want) == 1 and len(got) == 1:
                            if set(got) != set(want):
                                got, want = list(got)[0], list(want)[0]
                            else:
                                k = list(want)[0]
                                got, want = got[k], want[k]
                        return leaf, _deviation(got, want) + suffix, text
    return None


def _count_leaves(prog):
    n = 0
    classes = set()
    for c in prog["commands"]:
        for a in c["args"]:
            for _, leaf in _leaves(a["value"]):
                n += 1
                classes.add(syntax.value_feature(leaf))
    return n, classes


def run_case(ctx, case):
    if case["kind"] == "viaprogram":
        return run_viaprogram(ctx, case)
    if case["kind"] == "viatool":
        return run_viatool(ctx, case)
    if case["kind"] == "adjacent":
        return run_adjacent(ctx, case)
    if case["kind"] == "mixedorder":
        return run_mixedorder(ctx, case)
    text = case["text"]
    if case["kind"] == "corrupt":
        ctx.count("corruptions_checked")
        ctx.feature(("corrupt", case["edit"]))
        base_tree, base_exc = _parse(case["base"])
        if base_exc is not None:
            ctx.dontcare("corruption base text does not parse (judged by the parse cases)")
            return
        tree, exc = _parse(text)
        if exc is None:
            ctx.fail("corrupt:%s:accepted" % case["edit"], {"text": text, "base": case["base"]})
        elif not isinstance(exc, SyntaxError):
            ctx.fail("corrupt:%s:raises-%s" % (case["edit"], type(exc).__name__), {"text": text, "error": repr(exc)[:200]})
        return
    prog = case["prog"]
    n, classes = _count_leaves(prog)
    ctx.count("parses_compared")
    ctx.count("leaf_values_compared", n)
    ctx.feature((tuple(sorted(classes)), case["style"], case["eol"], "#" in text, "\t" in text))
    before = case.get("before") or ()
    if before:
        ctx.count("parser_reuse_cases")
    tree, exc = _parse(text, before)
    if before:
        # judged against a fresh parser on the same text: only the influence of the earlier parses is at stake here
        ftree, fexc = _parse(text)
        if fexc is None and syntax.first_diff(prog, ftree) is None:
            d = None if exc is not None else syntax.first_diff(prog, tree)
            if exc is not None or d is not None or getattr(tree, "version", 3) != getattr(ftree, "version", 3):
                what = "rejected-%s" % type(exc).__name__ if exc is not None else (d[0] if d else "version-flag")
                ctx.fail("reuse:parser-object-remembers-earlier-text:%s" % what.split(":")[0].split("[")[0], {"text": text[:400], "before": list(before), "got": repr(d[1])[:200] if d else None, "want": repr(d[2])[:200] if d else None})
            return
        tree, exc = ftree, fexc      # the text itself is at fault: judged as for a fresh parser
    if exc is None:
        d = syntax.first_diff(prog, tree)
        if d is None:
            if len(ctx.samples) < 4 and n >= 3:
                ctx.sample({"text": text, "commands": len(prog["commands"]), "leaf_classes": sorted(classes)})
            return
    iso = _isolate(prog)
    if iso:
        leaf, dev, mini = iso
        small = {"kind": "parse", "prog": {"commands": [{"result": "A", "command": "C", "args": [{"name": "P", "value": leaf}]}]},
                 "text": mini, "style": "canon", "eol": "lf"}
        ctx.fail("value:%s:%s" % (syntax.value_feature(leaf), dev), {"value": leaf, "mini_text": mini}, small)
        return
    # every value parses alone: the layout of this rendering is the culprit
    if exc is not None:
        ctx.fail("layout:%s:rejected-%s" % (case["eol"], type(exc).__name__), {"text": text, "error": repr(exc)[:200]})
    else:
        ctx.fail("layout:%s:%s" % (case["eol"], d[0]), {"text": text, "got": repr(d[1])[:200], "want": repr(d[2])[:200]})
