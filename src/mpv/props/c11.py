"""C11 - line numbers in parse trees and errors are the true source lines.

Monitors: (a) node-by-node comparison of every CommandNode / ArgumentNode / ExpressionNode / list element line with the line
the renderer recorded for its first token, under LF / CRLF / CR endings, multi-line quoted strings and *histories* of earlier
parses on the same Parser object (lexer counter read at parse entry as a secondary monitor); (b) for single faults injected at
known positions of valid models, the lineno carried by the error raised from from_source()/run() and the '-->' line printed
by the command-line tool.
"""
import os
import random

from mpv import syntax, models, faults, arr

ANCHORS = ['mpilot/parser/parser.py:Lexer.t_newline', 'mpilot/parser/parser.py:Parser.p_command', 'mpilot/parser/parser.py:Parser.p_argument', 'mpilot/program.py:Program.from_source', 'mpilot/program.py:Program.add_command', 'mpilot/cli/mpilot.py:main']   # repository functions the workload must enter (reported as anchors_reached / anchors_missed)
LEVEL = "exploration"
RULE = ("(a) random programs x wild renderings (blank lines, comment lines, trailing comments, arguments/lists spread over lines, "
        "raw line breaks inside quoted strings) x eol in {LF, CRLF, CR} x parser histories of 0-3 earlier texts; (b) every fault kind "
        "x random position in random valid EEMS models, via API and CLI; distinct by (eol, history kinds, node kinds) / (fault kind, "
        "command, parameter, spread)")
REQUIRED_COUNTERS = ["multi_line_syntax_faults", "cli_runs_on_files_with_bare_cr_line_ends", "tree_nodes_compared", "histories_with_reuse", "fault_linenos_checked", "cli_marker_lines_checked", "eems2_fault_linenos_checked", "runtime_fault_linenos_checked", "lineless_runtime_errors_checked", "cycle_error_linenos_checked", "cli_runs_on_a_path_used_before", "user_library_fault_linenos_checked", "reruns_after_a_runtime_fault", "repeated_argument_linenos_checked"]
ASSUMPTIONS = ["the head 'Result = Command(' is kept on one line (the statement says where a node starts; the code reports the command-name token)",
               "for a fault inside a multi-line list both the argument's first line and the element's own line are accepted",
               "errors raised during execution with lineno None are not judged", "CR-only texts are generated without comments"]

V2_TEXT = "READ(InFileName = foo.gdb, InFieldName = Test)\nOut = CVTTOFUZZY(InFieldName = Test)\n"
BAD_TEXT = "A = Cmd(P = [1, 2\nB = Cmd()"


def cases(ctx):
    rng = ctx.rng("cases")
    for i in range(ctx.n(2000, 120000)):
        prog = syntax.gen_program(rng, max_cmds=5)
        eol = rng.choice(["\n", "\n", "\r\n", "\r\n", "\r", "mixed"])
        r = syntax.Renderer(random.Random(rng.randrange(10 ** 9)), "wild", head_one_line=True, raw_newline_strings=(eol == "\n" and rng.random() < 0.5))
        if eol in ("\r", "mixed"):
            r.no_comments = True
        text = r.program(prog)
        if eol in ("\r", "mixed") and "#" in text:
            eol = "\n"
        if eol == "mixed":
            # every line break independently LF, CR LF or bare CR (each counts as one line)
            rr = random.Random(rng.randrange(10 ** 9))
            out, prev_cr = [], False
            for ch in text:
                if ch == "\n":
                    # a bare CR directly followed by LF would read as one CR LF: never put LF right after a bare CR
                    br = rr.choice(["\r\n", "\r", "\r"] if prev_cr else ["\n", "\r\n", "\r", "\r"])
                    out.append(br)
                    prev_cr = br == "\r"
                else:
                    out.append(ch)
                    prev_cr = False
            text = "".join(out)
        else:
            text = text.replace("\n", eol)
        hist = []
        for _ in range(rng.choice([0, 0, 1, 2, 3])):
            k = rng.choice(["other", "v2", "bad", "same", "shifted", "shifted", "younger", "program"])
            if k in ("younger", "program"):
                # a text parsed by a parser object built after this one (directly, or inside Program.from_source)
                hist.append([k, syntax.render(syntax.gen_program(rng, max_cmds=4), random.Random(rng.randrange(10 ** 9)), "wild")])
            elif k == "other":
                hist.append(["other", syntax.render(syntax.gen_program(rng, max_cmds=3), random.Random(rng.randrange(10 ** 9)), "wild")])
            elif k == "v2":
                hist.append(["v2", V2_TEXT])
            elif k == "bad":
                hist.append(["bad", BAD_TEXT])
            elif k == "shifted":
                # the very same program with a different number of leading blank / comment lines
                hist.append(["shifted", rng.choice(["\n", "\n\n\n", "# moved\n\n", "  \n"]).replace("\n", eol if eol != "mixed" else "\n") + text.lstrip("\r\n \t")])
            else:
                hist.append(["same", text])
        if i % 50 == 0:
            yield {"kind": "syntaxline", "variant": i // 50 + ctx.shard, "rseed": rng.randrange(10 ** 9)}
        yield {"kind": "tree", "prog": prog, "text": text, "eol": {"\n": "lf", "\r\n": "crlf", "\r": "cr", "mixed": "mixed"}[eol], "history": hist}
    for i in range(ctx.n(60, 3000)):
        yield {"kind": "runtime", "fault": sorted(RUNTIME)[i % len(RUNTIME)], "rseed": rng.randrange(10 ** 9)}
    for i in range(ctx.n(8, 100)):
        yield {"kind": "dupline", "variant": i % 2, "rseed": rng.randrange(10 ** 9)}
    for i in range(ctx.n(40, 2000)):
        yield {"kind": "lineless", "fault": sorted(LINELESS)[i % len(LINELESS)], "rseed": rng.randrange(10 ** 9)}
    for i in range(ctx.n(60, 3000)):
        yield {"kind": "cycle", "rseed": rng.randrange(10 ** 9)}
    for i in range(ctx.n(30, 1500)):
        yield {"kind": "duparg", "rseed": rng.randrange(10 ** 9), "fault": ["missing-result", "bad-path", "wrong-kind"][i % 3]}
    for i in range(ctx.n(40, 2000)):
        yield {"kind": "userfault", "fault": ["scalar-out", "raise-syntax", "raise-json", "raise-plain", "scalar-out"][i % 5], "rseed": rng.randrange(10 ** 9)}
    for i in range(ctx.n(30, 600)):
        yield {"kind": "v2fault", "fault": ["unknown-command", "missing-param", "duplicate-result"][i % 3], "rseed": rng.randrange(10 ** 9)}
    req = None
    for i in range(ctx.n(600, 30000)):
        m = models.gen_model(rng, n_ops=rng.randint(1, 6), sinks=True)
        kinds = models.param_kinds()
        req = req or faults.required_params()
        sites = faults.applicable(m, kinds, req)
        # spread fault kinds evenly
        want = faults.ALL_FAULTS[i % len(faults.ALL_FAULTS)]
        cands = [s for s in sites if s[0] == want] or sites
        site = rng.choice(cands)
        inj = faults.inject(m, site, rng)
        if not inj:
            continue
        fm, exp = inj
        yield {"kind": "fault", "model": fm, "expect": exp, "rseed": rng.randrange(10 ** 9), "cli": i % 3 == 0, "ctrl": i % 6 == 0}


def _walk_value(ctx, v, node, path, bad):
    """Compare ExpressionNode line(s) with the renderer's."""
    ctx.count("tree_nodes_compared")
    if getattr(node, "lineno", None) != v["_line"]:
        bad.append((path + ":" + v["t"], getattr(node, "lineno", None), v["_line"]))
    if v["t"] == "list":
        val = node.value
        if isinstance(val, list) and len(val) == len(v["items"]):
            for i, (it, n) in enumerate(zip(v["items"], val)):
                _walk_value(ctx, it, n, path + "[]", bad)
    elif v["t"] == "tuple":
        val = node.value
        if isinstance(val, dict):
            for k, tv in v["pairs"]:
                n = val.get(k["v"])
                if n is not None:
                    ctx.count("tree_nodes_compared")
                    if getattr(n, "lineno", None) != k["_line"]:
                        bad.append((path + ":tuple-pair", getattr(n, "lineno", None), k["_line"]))


def run_tree(ctx, case):
    from mpilot.parser.parser import Parser
    prog, text = case["prog"], case["text"]
    # re-render to recover the line map deterministically is not possible (random gaps): the map is stored in the AST
    parser = Parser()
    kinds = []
    for k, t in case["history"]:
        kinds.append(k)
        try:
            if k == "younger":
                Parser().parse(t)
            elif k == "program":
                from mpilot.program import Program
                try:
                    Program.from_source(t)
                except Exception:
                    pass
            else:
                parser.parse(t)
        except SyntaxError:
            pass
        except Exception as e:
            ctx.dontcare("history text raised %s" % type(e).__name__)
    if kinds:
        ctx.count("histories_with_reuse")
    counter_at_entry = getattr(getattr(parser, "lexer", None), "lineno", None)
    ctx.feature(("tree", case["eol"], tuple(kinds), "\n" in "".join(a for a in _strings(prog))))
    try:
        tree = parser.parse(text)
    except Exception as e:
        ctx.dontcare("text rejected (%s): judged by C10" % type(e).__name__)
        return
    bad = []
    if len(tree.commands) != len(prog["commands"]):
        ctx.dontcare("structure differs: judged by C10")
        return
    for c, n in zip(prog["commands"], tree.commands):
        ctx.count("tree_nodes_compared")
        if n.lineno != c["_line"]:
            bad.append(("command", n.lineno, c["_line"]))
        if len(n.arguments) != len(c["args"]):
            ctx.dontcare("structure differs: judged by C10")
            return
        for a, an in zip(c["args"], n.arguments):
            ctx.count("tree_nodes_compared")
            if an.lineno != a["_line"]:
                bad.append(("argument", an.lineno, a["_line"]))
            _walk_value(ctx, a["value"], an.value, "value", bad)
    if case["history"] and getattr(tree, "version", 3) != 3:
        ctx.fail("history:%s:version-flag-sticks" % "+".join(sorted(set(kinds))), {"version": tree.version, "history": kinds})
    if bad:
        where, got, want = bad[0]
        mech = "history-" + "+".join(sorted(set(kinds))) if kinds and _fresh_ok(prog, text) else "eol-" + case["eol"]
        if mech.startswith("eol") and _has_multiline_string(prog):
            mech += "+multiline-string"
        ctx.fail("tree:%s:%s-line-wrong" % (mech, where.split(":")[0]), {"node": where, "got": got, "want": want, "text": text[:600],
                                                                        "lexer_counter_at_entry": counter_at_entry, "history": kinds})
    elif len(ctx.samples) < 3 and case["history"]:
        ctx.sample({"text": text[:300], "eol": case["eol"], "history": kinds, "lexer_counter_at_entry": counter_at_entry})


def _strings(prog):
    for c in prog["commands"]:
        for a in c["args"]:
            stack = [a["value"]]
            while stack:
                v = stack.pop()
                if v["t"] == "qstr":
                    yield v["v"]
                elif v["t"] == "list":
                    stack.extend(v["items"])
                elif v["t"] == "tuple":
                    stack.extend(val for _, val in v["pairs"])


def _has_multiline_string(prog):
    return any("\n" in s for s in _strings(prog))


def _fresh_ok(prog, text):
    """Does a fresh Parser get the lines right? (separates history defects from layout defects)"""
    from mpilot.parser.parser import Parser
    try:
        tree = Parser().parse(text)
    except Exception:
        return False
    for c, n in zip(prog["commands"], tree.commands):
        if n.lineno != c["_line"]:
            return False
        for a, an in zip(c["args"], n.arguments):
            if an.lineno != a["_line"] or an.value.lineno != a["value"]["_line"]:
                return False
    return True


def run_fault(ctx, case):
    from mpilot.exceptions import MPilotError
    model, exp = case["model"], case["expect"]
    rng = random.Random(case["rseed"])
    d = ctx.scratch()
    models.write_table(model["table"], d)
    text, ast = models.to_text(model, rng, style="wild", head_one_line=True)
    shift = 0
    if case.get("ctrl"):
        # one extra first line: a comment holding characters that only str.splitlines() would treat as line breaks
        text = "# page\x0cbreak \x0b vt \x1c fs \x1d gs \x1e rs \x85 nel \u2028 ls \u2029 ps\n" + text
        shift = 1
    c_ast = ast["commands"][exp["cmd_index"]]
    cmd_line = c_ast["_line"] + shift
    ok_lines = {cmd_line}
    spread = False
    if exp["where"] == "arg":
        a_ast = [a for a in c_ast["args"] if a["name"] == exp["param"]][0]
        ok_lines = {a_ast["_line"] + shift}
        if a_ast["value"]["t"] == "list":
            # list arguments are reported at the line where the list starts (ListArgument.lineno): part of the argument
            ok_lines.add(a_ast["value"]["_line"] + shift)
            spread = a_ast["value"]["_line"] != a_ast["_line"]
        if "elem" in exp and a_ast["value"]["t"] == "list":
            el = a_ast["value"]["items"][exp["elem"]]["_line"] + shift
            spread = spread or el != a_ast["_line"] + shift
            ok_lines.add(el)
    ctx.feature(("fault", exp["fault"], exp["cmd"], exp.get("variant"), spread))
    from mpilot.program import Program
    err = None
    try:
        prog = Program.from_source(text, working_dir=d)
        prog.run()
    except Exception as e:
        err = e
    if err is None or not isinstance(err, MPilotError):
        ctx.dontcare("fault %s not rejected with an MPilot error (judged by C12/C13)" % exp["fault"])
        return
    ctx.count("fault_linenos_checked")
    got = getattr(err, "lineno", None)
    if type(err).__name__ not in [exp["error"]] + exp.get("also_ok", []):
        ctx.dontcare("%s instead of %s for %s (class judged by C12/C13; its line says nothing about this fault)" % (type(err).__name__, exp["error"], exp["fault"]))
        return
    elif got is None:
        ctx.fail("fault:%s:lineno-missing" % exp["fault"], {"error": type(err).__name__, "expected_lines": sorted(ok_lines), "text": text[:800], "expect": exp})
    elif got not in ok_lines:
        rel = "command-line" if got == cmd_line else "other-line"
        ctx.fail("fault:%s:lineno-is-%s" % (exp["fault"], rel), {"error": type(err).__name__, "got": got, "expected_lines": sorted(ok_lines), "text": text[:800], "expect": exp})
    elif len(ctx.samples) < 6:
        ctx.sample({"fault": exp["fault"], "error": type(err).__name__, "lineno": got, "source_line": text.split("\n")[got - 1][:80]})
    if got is not None and got in ok_lines and case.get("rseed", 0) % 3 == 0:
        # the same file evaluated command by command through .result (Program.run is never called): the same error, a line
        # of the same command
        err2 = None
        try:
            prog2 = Program.from_source(text, working_dir=d)
            for c2 in list(prog2.commands.values()):
                c2.result
        except Exception as e:
            err2 = e
        if isinstance(err2, MPilotError) and type(err2).__name__ == type(err).__name__:
            ctx.count("fault_linenos_checked")
            got2 = getattr(err2, "lineno", None)
            if got2 is None or got2 not in ok_lines:
                ctx.fail("fault:%s:evaluated-through-result:%s" % (exp["fault"], "lineno-missing" if got2 is None else "lineno-is-other-line"), {"through_run": got, "through_result": got2, "expected_lines": sorted(ok_lines), "text": text[:600]})
                return
    if case.get("cli") and got is not None:
        _check_cli(ctx, model, text, ok_lines, exp)


_cli_calls = {"n": 0, "dir": None}


def _no_multiline_strings(text):
    """True when no quoted string of the text spans a line break (quotes balance on every line)."""
    return all(ln.count('"') % 2 == 0 and ln.count("'") % 2 == 0 for ln in text.split("\n"))


def _check_cli(ctx, model, text, ok_lines, exp):
    """The line the command-line tool marks with '-->' must be (the text of) the offending command's / argument's line."""
    from click.testing import CliRunner
    from mpilot.cli.mpilot import main
    _cli_calls["n"] += 1
    if _cli_calls["n"] % 2 == 0:
        # the very same command-file path as earlier tool runs of this process, holding another model now (an edited file, run again)
        if _cli_calls["dir"] is None:
            _cli_calls["dir"] = ctx.scratch()
        d = _cli_calls["dir"]
        for f in os.listdir(d):
            try:
                os.remove(os.path.join(d, f))
            except OSError:
                pass
        ctx.count("cli_runs_on_a_path_used_before")
    else:
        d = ctx.scratch()   # fresh directory: the API run above may have left files behind
    models.write_table(model["table"], d)
    path = os.path.join(d, "model.mpt")
    file_text = text
    if _cli_calls["n"] % 3 == 0 and "#" not in text and "\r" not in text and _no_multiline_strings(text):
        # the same file with classic-Mac line ends (bare CR), everywhere or only in a pasted block: every CR is one line break
        out, whole = [], _cli_calls["n"] % 2 == 0
        parts = text.split("\n")
        for i_, seg in enumerate(parts[:-1]):
            nxt = parts[i_ + 1]
            out.append(seg + ("\r" if (whole or i_ < len(parts) // 2) and nxt != "" else "\n"))
        file_text = "".join(out) + parts[-1]
        ctx.count("cli_runs_on_files_with_bare_cr_line_ends")
    with open(path, "w", encoding="utf-8", newline="") as f:
        f.write(file_text)
    try:
        res = CliRunner(mix_stderr=False).invoke(main, ["eems-csv", path])
    except TypeError:
        res = CliRunner().invoke(main, ["eems-csv", path])
    ctx.count("cli_marker_lines_checked")
    try:
        stderr = res.stderr
    except Exception:
        stderr = res.output
    errlines = stderr.split("\n")
    marks = [ln for ln in errlines if ln.startswith("--> ")]
    lines = text.split("\n")
    ok_src = [lines[n - 1].strip("\r") for n in sorted(ok_lines)]
    if marks and marks[0][4:] in ok_src:
        # the marker is identified by position, not by text: the (up to three) context lines printed before it must be the
        # source lines preceding one of the acceptable lines
        mi = errlines.index(marks[0])
        ctx_before = []
        k = mi - 1
        while k >= 0 and errlines[k].startswith("    ") and len(ctx_before) < 3:
            ctx_before.insert(0, errlines[k][4:])
            k -= 1
        okpos = False
        for n in sorted(ok_lines):
            if lines[n - 1].strip("\r") != marks[0][4:]:
                continue
            want_before = [x.strip("\r") for x in lines[max(0, n - 1 - 3):n - 1]]
            # blank source lines are printed as four spaces only; compare what can be compared
            if [x for x in want_before][-len(ctx_before):] == ctx_before or not ctx_before and not any(want_before):
                okpos = True
        if not okpos and ctx_before:
            ctx.fail("cli:%s:marker-at-wrong-position" % exp["fault"], {"marked": marks[0][:100], "context_before_marker": ctx_before, "acceptable_lines": sorted(ok_lines)})
            return
    if not marks:
        ctx.fail("cli:%s:no-marker-line" % exp["fault"], {"stderr": stderr[-600:], "exit": res.exit_code, "exception": repr(res.exception)[:200]})
    elif marks[0][4:] not in ok_src:
        ctx.fail("cli:%s:marker-on-wrong-line" % exp["fault"], {"marked": marks[0][:120], "acceptable_source_lines": [x[:120] for x in ok_src]})


def run_v2fault(ctx, case):
    """Faults in a command written in EEMS 2.0 syntax (no 'Result ='), spread over several lines: the error must carry the
    line on which the command starts."""
    from mpilot.program import Program
    from mpilot.exceptions import MPilotError
    rng = random.Random(case["rseed"])
    d = ctx.scratch()
    with open(os.path.join(d, "in.csv"), "w") as f:
        f.write("X0,X1\n1,2\n3,4\n5,7\n")
    pre = rng.choice(["", "\n", "# header\n\n"])
    lines = pre.split("\n")[:-1] if pre else []
    lines += ['READ(InFileName = "in.csv",', '     InFieldName = X0)', 'READ(InFileName = "in.csv",', '', '     InFieldName = X1,', '     NewFieldName = B)']
    start = len(lines) + 1
    fault = case["fault"]
    if fault == "unknown-command":
        lines += ['NOSUCHCMD(', '    InFieldName = X0,', '    # comment', '    NewFieldName = Out1', ')']
        want = "CommandDoesNotExist"
    elif fault == "missing-param":
        lines += ['WTDSUM(', '    InFieldNames = [X0, B],', '', '    NewFieldName = Out1', ')']
        want = "MissingParameters"
    else:
        lines += ['COPYFIELD(', '    InFieldName = X0,', '    NewFieldName =', '        B', ')']
        want = "DuplicateResult"
    text = "\n".join(lines)
    ctx.feature(("v2fault", fault, bool(pre)))
    err = None
    try:
        Program.from_source(text, working_dir=d).run()
    except Exception as e:
        err = e
    if err is None or type(err).__name__ != want:
        ctx.dontcare("EEMS 2.0 fault %s gave %s" % (fault, type(err).__name__ if err else "no error"))
        return
    ctx.count("fault_linenos_checked")
    ctx.count("eems2_fault_linenos_checked")
    if getattr(err, "lineno", None) != start:
        ctx.fail("fault:eems2-%s:lineno-is-not-the-command-line" % fault, {"got": getattr(err, "lineno", None), "want": start, "text": text})
    _check_cli(ctx, {"table": {"cols": {"X0": {"data": [1, 3, 5], "integer": True}, "X1": {"data": [2, 4, 7], "integer": True}}, "nrows": 3, "missing": None, "file": "in.csv"}},
               text, {start}, {"fault": "eems2-" + fault})


RUNTIME = {
    "bad-direction": ("CvtToFuzzy", "Direction", "InvalidDirection", 'X%d = CvtToFuzzy(\n    InFieldName = A,\n    TrueThreshold = 5,\n    FalseThreshold = 1,\n    Direction = %s\n)'),
    "bad-direction-binary": ("CvtToBinary", "Direction", "InvalidDirection", 'X%d = CvtToBinary(\n    InFieldName = A,\n    Threshold = 2,\n\n    Direction = %s\n)'),
    "dup-raw": ("NormalizeCurve", "RawValues", "DuplicateRawValues", 'X%d = NormalizeCurve(\n    InFieldName = A,\n    RawValues = %s,\n    NormalValues = [0, 1]\n)'),
    "bad-truest": ("FuzzySelectedUnion", "TruestOrFalsest", "InvalidTruestOrFalsest", 'X%d = FuzzySelectedUnion(\n    InFieldNames = [FA],\n    NumberToConsider = 1,\n    TruestOrFalsest = %s\n)'),
    "k-too-big": ("FuzzySelectedUnion", "NumberToConsider", "InvalidNumberToConsider", 'X%d = FuzzySelectedUnion(\n    InFieldNames = [FA],\n    TruestOrFalsest = Truest,\n    # k\n    NumberToConsider = %s\n)'),
}
GOOD = {"bad-direction": "LowToHigh", "bad-direction-binary": "HighToLow", "dup-raw": "[1, 2]", "bad-truest": "Falsest", "k-too-big": "1"}
BAD = {"bad-direction": "Sideways", "bad-direction-binary": "up", "dup-raw": "[1, 1]", "bad-truest": "Middle", "k-too-big": "3"}


def run_shapes(ctx, case):
    """Fields of different lengths listed on separate lines: the error names the command's own line, the line of the argument,
    or the line of the field that does not fit - not the line of a field that does."""
    from mpilot.program import Program
    rng = random.Random(case["rseed"])
    d = ctx.scratch()
    with open(os.path.join(d, "four.csv"), "w") as f:
        f.write("a,b,c\n1,2,3\n4,5,6\n7,8,9\n1,1,1\n")
    with open(os.path.join(d, "two.csv"), "w") as f:
        f.write("z\n1\n2\n")
    k = rng.randint(3, 5)
    odd = rng.randrange(1, k)
    fields = ["F%d" % i for i in range(k)]
    lines = ['F%d = EEMSRead(InFileName = "%s", InFieldName = %s)' % (i, "two.csv" if i == odd else "four.csv", "z" if i == odd else "abc"[i % 3]) for i in range(k)]
    lines += [""] * rng.randint(0, 2)
    cmd = rng.choice(["Sum", "Mean", "Maximum", "Minimum", "Multiply"])
    start = len(lines) + 1
    block = ["X = %s(" % cmd, "    InFieldNames = ["] + ["        %s%s" % (fn, "," if i < k - 1 else "") for i, fn in enumerate(fields)] + ["    ]", ")"]
    text = "\n".join(lines + block)
    ok = {start, start + 1, start + 2 + odd}
    if odd == 1:
        ok.add(start + 2)        # with the second field the odd one out, the first may just as well be named
    err = None
    try:
        Program.from_source(text, working_dir=d).run()
    except Exception as e:
        err = e
    if type(err).__name__ != "MixedArrayShapes":
        ctx.dontcare("fields of different lengths gave %s" % type(err).__name__)
        return
    ctx.count("runtime_fault_linenos_checked")
    ctx.feature(("shapes", cmd, k, odd))
    got = getattr(err, "lineno", None)
    if got is None:
        # the check is made by the command, which knows its line and hands it to the error: the error has to keep it
        ctx.fail("runtime-fault:fields-of-different-lengths:lineno-missing", {"acceptable": sorted(ok), "text": text})
        return
    if got is not None and got not in ok:
        ctx.fail("runtime-fault:fields-of-different-lengths:%s" % ("line-of-a-field-that-fits" if start + 2 <= got < start + 2 + k else "line-of-another-command"), {"got": got, "acceptable": sorted(ok), "text": text})


def run_thresholds(ctx, case):
    """The same run-time error reached in two ways - thresholds written out and equal, thresholds left out on a field with a
    single distinct value - names a line of its own command both times (or neither time)."""
    from mpilot.program import Program
    rng = random.Random(case["rseed"])
    d = ctx.scratch()
    with open(os.path.join(d, "in.csv"), "w") as f:
        f.write("X0,K0\n1,4\n2,4\n3,4\n5,4\n")
    head = ['A = EEMSRead(InFileName = "in.csv", InFieldName = "X0")', 'K = EEMSRead(InFileName = "in.csv", InFieldName = "K0")'] + [""] * rng.randint(0, 3)
    cmdname = rng.choice(["CvtToFuzzy", "CvtToFuzzy", "CVTTOFUZZY"])
    res = (lambda body: "X = %s(\n%s\n)" % (cmdname, body)) if cmdname != "CVTTOFUZZY" else (lambda body: "CVTTOFUZZY(\n%s,\n    NewFieldName = X\n)" % body)
    variants = {"written-out": res("    InFieldName = A,\n    TrueThreshold = 3,\n\n    FalseThreshold = 3"), "left-out": res("    InFieldName = K" + rng.choice(["", ",\n    Direction = LowToHigh"]))}
    got = {}
    for tag, block in variants.items():
        text = "\n".join(head + [block, "", "Y = Copy(InFieldName = A)"])
        err = None
        try:
            Program.from_source(text, working_dir=d).run()
        except Exception as e:
            err = e
        if type(err).__name__ != "InvalidThresholds":
            ctx.dontcare("equal thresholds (%s) gave %s" % (tag, type(err).__name__))
            return
        lines = text.split("\n")
        start = [k + 1 for k, ln in enumerate(lines) if ln.startswith("X = ") or ln.startswith("CVTTOFUZZY(")][0]
        end = start + block.count("\n")
        got[tag] = (getattr(err, "lineno", None), start, end, text)
    ctx.count("runtime_fault_linenos_checked", 2)
    ctx.feature(("thresholds", cmdname, len(head)))
    for tag, (ln, start, end, text) in got.items():
        if ln is not None and not (start <= ln <= end):
            ctx.fail("runtime-fault:equal-thresholds:line-of-another-command", {"way": tag, "got": ln, "own_command_lines": [start, end], "text": text})
            return
    if got["written-out"][0] is None and got["left-out"][0] is None:
        ctx.fail("runtime-fault:equal-thresholds:lineno-missing", {"text": got["written-out"][3]})
        return
    if (got["written-out"][0] is None) != (got["left-out"][0] is None):
        tag = "left-out" if got["left-out"][0] is None else "written-out"
        ctx.fail("runtime-fault:equal-thresholds:no-line-when-the-thresholds-are-%s" % tag, {"written_out": got["written-out"][0], "left_out": got["left-out"][0], "text": got[tag][3]})


def run_runtime(ctx, case):
    """Several commands of one class give the same argument on different lines; one of them fails while executing with an
    error that carries a line: it must be the line of *its own* command or argument."""
    from mpilot.program import Program
    rng = random.Random(case["rseed"])
    kind = case["fault"]
    cls, argname, want, tmpl = RUNTIME[kind]
    d = ctx.scratch()
    with open(os.path.join(d, "in.csv"), "w") as f:
        f.write("X0\n1\n2\n3\n5\n")
    blocks = ['A = EEMSRead(InFileName = "in.csv", InFieldName = "X0")', 'FA = CvtToFuzzy(InFieldName = A, TrueThreshold = 5, FalseThreshold = 1)']
    n = rng.randint(2, 4)
    bad_i = rng.randrange(n)
    for i in range(n):
        blocks.append(tmpl % (i, BAD[kind] if i == bad_i else GOOD[kind]))
        if rng.random() < 0.5:
            blocks.append("")
    rng.shuffle(blocks)
    text = "\n".join(blocks)
    lines = text.split("\n")
    start = [k + 1 for k, ln in enumerate(lines) if ln.startswith("X%d = " % bad_i)][0]
    argline = start + [k for k, ln in enumerate(lines[start - 1:]) if ln.strip().startswith(argname + " =")][0]
    ctx.feature(("runtime", kind, n, bad_i))
    err = None
    try:
        p = Program.from_source(text, working_dir=d)
        p.run()
    except Exception as e:
        err = e
    if err is None or type(err).__name__ != want:
        ctx.dontcare("runtime fault %s gave %s" % (kind, type(err).__name__ if err else "no error"))
        return
    ctx.count("runtime_fault_linenos_checked")
    got = getattr(err, "lineno", None)
    # the program run again (nothing was repaired): the same error, carrying the same line
    err2 = None
    try:
        p.run()
    except Exception as e:
        err2 = e
    ctx.count("reruns_after_a_runtime_fault")
    if type(err2).__name__ != want or getattr(err2, "lineno", None) != got:
        ctx.fail("runtime-fault:%s:second-run-reports-%s" % (kind, "another-line" if type(err2).__name__ == want else "another-error-" + type(err2).__name__),
                 {"first": [want, got], "second": [type(err2).__name__, getattr(err2, "lineno", None)], "text": text})
        return
    if got is not None and got not in (start, argline):
        ctx.fail("runtime-fault:%s:line-of-another-command" % kind, {"got": got, "own_command_line": start, "own_argument_line": argline, "text": text})
    elif got is not None and case["rseed"] % 2 == 0:
        _check_cli(ctx, {"table": {"cols": {"X0": {"data": [1, 2, 3, 5], "integer": True}}, "nrows": 4, "missing": None, "file": "in.csv"}}, text, {got}, {"fault": "runtime-" + kind})


# errors that the library raises without a line, from a command that is *not* a leaf of the model (something downstream of it is)
LINELESS = {
    "weights": ("MismatchedWeights", ['W = WeightedSum(', '    InFieldNames = [A, A],', '    Weights = [1]', ')']),
    "weights-mean": ("MismatchedWeights", ['W = WeightedMean(', '    InFieldNames = [A],', '', '    Weights = [1, 2]', ')']),
    "bad-cell": ("InvalidDataFile", ['W = EEMSRead(', '    InFileName = "bad.csv",', '    InFieldName = "X0"', ')']),
    "empty-file": ("EmptyDataFile", ['W = EEMSRead(InFileName = "empty.csv",', '    InFieldName = "X0")']),
    "lengths": ("MixedArrayLengths", ['W = NormalizeCat(', '    InFieldName = A,', '    RawValues = [1, 2, 3],', '    NormalValues = [0, 1],', '    DefaultNormalValue = 0', ')']),
}


def run_lineless(ctx, case):
    """The failing command feeds other commands (it is not what Program.run starts from) and its error is raised without a
    line: whatever line the error finally carries must lie inside the failing command's own text (or stay absent)."""
    from mpilot.program import Program
    rng = random.Random(case["rseed"])
    kind = case["fault"]
    want, block = LINELESS[kind]
    d = ctx.scratch()
    with open(os.path.join(d, "in.csv"), "w") as f:
        f.write("X0\n1\n2\n3\n5\n")
    with open(os.path.join(d, "bad.csv"), "w") as f:
        f.write("X0\n1\ntwo\n3\n")
    open(os.path.join(d, "empty.csv"), "w").close()
    blocks = [['A = EEMSRead(InFileName = "in.csv", InFieldName = "X0")'], list(block)]
    users = rng.randint(1, 3)
    prev = "W"
    for i in range(users):
        blocks.append(rng.choice([['U%d = Copy(InFieldName = %s)' % (i, prev)], ['U%d = Sum(' % i, '    InFieldNames = [%s, A]' % prev, ')'], ['', 'U%d = Copy(' % i, '', '    InFieldName = %s)' % prev]]))
        if rng.random() < 0.6:
            prev = "U%d" % i
    rng.shuffle(blocks)
    lines = [ln for b in blocks for ln in b]
    if rng.random() < 0.5:
        lines = ["# model", ""] + lines
    text = "\n".join(lines)
    start = [k + 1 for k, ln in enumerate(lines) if ln.startswith("W = ")][0]
    own = set(range(start, start + len(block)))
    ctx.feature(("lineless", kind, users))
    err = None
    try:
        Program.from_source(text, working_dir=d).run()
    except Exception as e:
        err = e
    if err is None or type(err).__name__ != want:
        ctx.dontcare("line-less runtime fault %s gave %s" % (kind, type(err).__name__ if err else "no error"))
        return
    ctx.count("runtime_fault_linenos_checked")
    ctx.count("lineless_runtime_errors_checked")
    got = getattr(err, "lineno", None)
    if got is not None and got not in own:
        ctx.fail("runtime-fault:%s:line-of-another-command" % kind, {"got": got, "own_command_lines": sorted(own), "source_line": lines[got - 1] if 0 < got <= len(lines) else None, "text": text})


def run_duparg(ctx, case):
    """One argument name given twice in a command, on different lines, the last value faulty: whatever the error says, its
    line is one of the two occurrences' (or the command's) - and if it names an occurrence, it is the faulty (last) one."""
    from mpilot.program import Program
    from mpilot.exceptions import MPilotError
    rng = random.Random(case["rseed"])
    d = ctx.scratch()
    with open(os.path.join(d, "in.csv"), "w") as f:
        f.write("X0\n1\n2\n3\n")
    pad = [""] * rng.randint(0, 3)
    if case["fault"] == "missing-result":
        block = ['C = Copy(', '    InFieldName = A,'] + pad + ['    InFieldName = Nope', ')']
    elif case["fault"] == "bad-path":
        block = ['C = EEMSRead(', '    InFileName = "in.csv",', '    InFieldName = "X0",'] + pad + ['    InFileName = "missing/none.csv"', ')']
    else:
        block = ['C = WeightedSum(', '    InFieldNames = [A],', '    Weights = [1],'] + pad + ['    Weights = heavy', ')']
    pre = ["# model"] * rng.randint(0, 2) + ['A = EEMSRead(InFileName = "in.csv", InFieldName = "X0")']
    lines = pre + block if rng.random() < 0.5 else block + [""] + pre
    text = "\n".join(lines)
    start = lines.index(block[0]) + 1
    last = start + len(block) - 2
    first = start + (1 if case["fault"] != "wrong-kind" else 2)
    ctx.feature(("duparg", case["fault"], len(pad)))
    err = None
    try:
        Program.from_source(text, working_dir=d).run()
    except Exception as e:
        err = e
    if not isinstance(err, MPilotError):
        ctx.dontcare("repeated argument name: %s" % (type(err).__name__ if err else "accepted"))
        return
    ctx.count("fault_linenos_checked")
    ctx.count("repeated_argument_linenos_checked")
    got = getattr(err, "lineno", None)
    if got is not None and got == first and first != last:
        ctx.fail("fault:repeated-argument-name:line-of-the-other-occurrence", {"error": type(err).__name__, "got": got, "faulty_occurrence_line": last, "text": text})
    elif got is not None and got not in (start, last):
        ctx.fail("fault:repeated-argument-name:lineno-is-other-line", {"error": type(err).__name__, "got": got, "acceptable": [start, last], "text": text})


def run_userfault(ctx, case):
    """Commands of a user's library: one whose actual result does not match its declared output (reported when a consumer is
    validated after it finished), and ones that fail while executing with ordinary Python exceptions that carry a `lineno`
    of their own. The error's line is the consumer's argument line / the failing command's own line."""
    from mpilot.program import Program
    rng = random.Random(case["rseed"])
    d = ctx.scratch()
    with open(os.path.join(d, "in.csv"), "w") as f:
        f.write("X0\n1\n2\n3\n5\n")
    kind = case["fault"]
    blocks = [['A = EEMSRead(InFileName = "in.csv", InFieldName = "X0")']]
    if kind == "scalar-out":
        blocks.append(['T = ScalarOut(', '    InFieldName = A', ')'])
        # two leaves share the faulty producer: the second is validated after the producer has finished
        blocks.append(['C1 = Copy(', '', '    InFieldName = T', ')'])
        blocks.append(['C2 = Sum(', '    InFieldNames = [', '        A, T', '    ]', ')'])
        want, own = ("ResultTypeNotValid", "ParameterNotValid"), ("C1", "C2")
    else:
        k = {"raise-syntax": "syntax", "raise-json": "json", "raise-plain": "plain"}[kind]
        blocks.append(['R = Raiser(', '', '    Kind = %s,' % k, '    InFieldName = A', ')'])
        blocks.append(['U = Copy(InFieldName = R)'])
        want, own = ("UnexpectedError",), ("R",)
    for _ in range(rng.randint(0, 3)):
        blocks.append(["# filler", ""] if rng.random() < 0.5 else [""])
    rng.shuffle(blocks)
    lines = [ln for b in blocks for ln in b]
    if rng.random() < 0.5:
        lines = ["# model", "", ""] + lines
    text = "\n".join(lines)
    ok_lines = set()
    for nm in own:
        start = [k_ + 1 for k_, ln in enumerate(lines) if ln.startswith(nm + " = ")][0]
        n_ = 1
        while not lines[start - 1 + n_ - 1].rstrip().endswith(")"):
            n_ += 1
        ok_lines |= set(range(start, start + n_))
    ctx.feature(("userfault", kind))
    err = None
    try:
        p = Program.from_source(text, libraries=arr.CSV_LIBS + ("usercmds",), working_dir=d)
        p.run()
        if kind == "scalar-out":
            p.run()
    except Exception as e:
        err = e
    if err is None or type(err).__name__ not in want:
        ctx.dontcare("user-library fault %s gave %s" % (kind, type(err).__name__ if err else "no error"))
        return
    ctx.count("runtime_fault_linenos_checked")
    ctx.count("user_library_fault_linenos_checked")
    got = getattr(err, "lineno", None)
    if got is not None and got not in ok_lines:
        ctx.fail("runtime-fault:%s:line-of-another-command" % kind, {"got": got, "own_lines": sorted(ok_lines), "source_line": lines[got - 1] if 0 < got <= len(lines) else None, "text": text})
    elif got is None and kind != "scalar-out":
        ctx.fail("runtime-fault:%s:lineno-missing" % kind, {"own_lines": sorted(ok_lines), "text": text})


def run_cycle(ctx, case):
    """Circular references among some commands, with other commands (listed anywhere, also first) that merely use a member of
    the cycle or are used by one: the recursive-model error names a command that is on a cycle."""
    from mpilot.program import Program
    rng = random.Random(case["rseed"])
    d = ctx.scratch()
    with open(os.path.join(d, "in.csv"), "w") as f:
        f.write("X0\n1\n2\n3\n")
    k = rng.randint(1, 3)                       # cycle C0 -> C1 -> .. -> C0
    refs = {"Leaf": None}
    for i in range(k):
        refs["C%d" % i] = ["C%d" % ((i + 1) % k)]
        if rng.random() < 0.4:
            refs["C%d" % i].append("Leaf")       # cycle members may also read acyclic data
    nusers = rng.randint(1, 3)
    prev = ["C%d" % rng.randrange(k)]
    for i in range(nusers):
        refs["U%d" % i] = [rng.choice(prev)] + (["Leaf"] if rng.random() < 0.3 else [])
        prev.append("U%d" % i)
    blocks = {}
    for name, r in refs.items():
        if r is None:
            blocks[name] = ['Leaf = EEMSRead(InFileName = "in.csv", InFieldName = "X0")']
        elif len(r) == 1 and rng.random() < 0.5:
            blocks[name] = rng.choice([['%s = Copy(InFieldName = %s)' % (name, r[0])], ['%s = Copy(' % name, '    InFieldName = %s' % r[0], ')']])
        else:
            blocks[name] = rng.choice([['%s = Sum(InFieldNames = [%s])' % (name, ", ".join(r))], ['%s = Sum(' % name, '    InFieldNames = [', '        ' + ", ".join(r), '    ]', ')']])
    order = list(blocks)
    style = rng.choice(["users-first", "shuffled", "shuffled", "cycle-first"])
    if style == "shuffled":
        rng.shuffle(order)
    elif style == "users-first":
        order = sorted(order, key=lambda n: (0 if n.startswith("U") else 1 if n == "Leaf" else 2, rng.random()))
    else:
        order = sorted(order, key=lambda n: (0 if n.startswith("C") else 1, rng.random()))
    lines, first_line = [], {}
    if rng.random() < 0.4:
        lines += ["# cyclic", ""]
    for name in order:
        if rng.random() < 0.3:
            lines.append("")
        first_line[name] = len(lines) + 1
        lines += blocks[name]
    text = "\n".join(lines)
    on_cycle = {first_line["C%d" % i] for i in range(k)}
    ctx.feature(("cycle", k, nusers, style))
    err = None
    try:
        Program.from_source(text, working_dir=d).run()
    except Exception as e:
        err = e
    if err is None or type(err).__name__ != "RecursiveModelStructure":
        ctx.dontcare("cyclic model gave %s (judged by C14)" % (type(err).__name__ if err else "no error"))
        return
    ctx.count("fault_linenos_checked")
    ctx.count("cycle_error_linenos_checked")
    got = getattr(err, "lineno", None)
    if got is None:
        ctx.fail("fault:cycle:lineno-missing", {"text": text, "cycle_member_lines": sorted(on_cycle)})
    elif got not in on_cycle:
        who = [n for n, ln in first_line.items() if ln == got]
        ctx.fail("fault:cycle:lineno-is-%s" % ("a-command-outside-the-cycle" if who else "no-command-line"), {"got": got, "command_there": who, "cycle_member_lines": sorted(on_cycle), "text": text})
    elif k > 0 and case["rseed"] % 3 == 0:
        _check_cli(ctx, {"table": {"cols": {"X0": {"data": [1, 2, 3], "integer": True}}, "nrows": 3, "missing": None, "file": "in.csv"}}, text, on_cycle, {"fault": "cycle"})


def run_dupline(ctx, case):
    """Identical lines around the offending one: the CLI must mark the offending line itself (checked through the context
    lines printed before and after the marker)."""
    rng = random.Random(case["rseed"])
    d = ctx.scratch()
    pre = ["# model"] * rng.randint(0, 2)
    body = ['A = EEMSRead(InFileName = "in.csv", InFieldName = "X0")'] * 2 if case["variant"] == 0 else \
           ['A = EEMSRead(InFileName = "in.csv", InFieldName = "X0")', 'B = Copy(', '    InFieldName = A', ')', 'C = FuzzyNot(', '    InFieldName = A', ')']
    text = "\n".join(pre + body)
    bad_line = len(pre) + (2 if case["variant"] == 0 else 6)
    ctx.feature(("dupline", case["variant"], len(pre)))
    _check_cli(ctx, {"table": {"cols": {"X0": {"data": [1, 2, 3], "integer": True}}, "nrows": 3, "missing": None, "file": "in.csv"}}, text, {bad_line},
               {"fault": "identical-lines-%d" % case["variant"]})


def run_syntaxline(ctx, case):
    """Malformed text whose offending token spans several lines (a quoted string with raw line breaks in front of which a comma
    or colon is missing): a syntax error that names a line names the line on which the token it reports starts, and so does
    the command-line tool if it marks one."""
    import re
    from mpilot.program import Program
    rng = random.Random(case["rseed"])
    body = "\n".join(rng.choice(["first part", "second, part", "x = y", "# not a comment", "", "  indented", "ends here"]) for _ in range(rng.randint(2, 5)))
    q = rng.choice(['"', "'"])
    lead = "".join(rng.choice(["\n", "# a comment\n", "   \n"]) for _ in range(rng.randint(0, 3)))
    read = 'A = EEMSRead(InFileName = "in.csv", InFieldName = X0)\n'
    variants = [
        'B = Copy(\n    InFieldName = A,\n    Metadata = [Desc: ok, Note\n    %s%s%s],\n)\n' % (q, body, q),            # colon missing
        'B = Copy(\n    InFieldName = A,\n    Metadata = [Desc: ok\n      Note: %s%s%s]\n)\n' % (q, body, q),                 # comma missing
        'B = PrintVars(InFieldNames = [A], OutFileName\n %s%s%s)\n' % (q, body, q),                                             # '=' missing
        'B = Copy(InFieldName = A, Metadata = [Desc: %s%s%s %s%s%s])\n' % (q, "a" + body, q, q, body, q),                        # two strings in a row
        'B = Copy(InFieldName = A)\n%s%s%s\nC = Copy(InFieldName = B)\n' % (q, body, q),                                       # a stray string between commands
    ]
    text = lead + read + variants[case["variant"] % len(variants)] + "D = Copy(InFieldName = A)\n"
    ctx.count("multi_line_syntax_faults")
    ctx.feature(("syntaxline", case["variant"] % len(variants), body.count("\n"), len(lead)))
    err = None
    try:
        Program.from_source(text)
    except Exception as e:
        err = e
    if not isinstance(err, SyntaxError):
        ctx.dontcare("malformed text not reported as a syntax error (%s): judged by C10/C13" % type(err).__name__)
        return
    m = re.search(r"at position (\d+)", str(err))
    got = getattr(err, "lineno", None)
    true_line = text[:int(m.group(1))].count("\n") + 1 if m else None
    if got is not None and true_line is not None:
        ctx.count("fault_linenos_checked")
        if got != true_line:
            ctx.fail("syntax-error:names-a-line-that-is-not-where-the-reported-token-starts", {"lineno": got, "line_of_reported_position": true_line, "message": str(err)[:120], "text": text[:500]})
            return
    # the tool: either it marks nothing (it does not handle syntax errors) or it marks the line the token starts on
    from click.testing import CliRunner
    from mpilot.cli.mpilot import main
    d = ctx.scratch()
    with open(os.path.join(d, "in.csv"), "w") as f:
        f.write("X0\n1\n2\n")
    path = os.path.join(d, "model.mpt")
    with open(path, "w", encoding="utf-8", newline="") as f:
        f.write(text)
    try:
        res = CliRunner(mix_stderr=False).invoke(main, ["eems-csv", path])
    except TypeError:
        res = CliRunner().invoke(main, ["eems-csv", path])
    try:
        stderr = res.stderr
    except Exception:
        stderr = res.output
    marks = [ln for ln in stderr.split("\n") if ln.startswith("--> ")]
    ctx.count("cli_marker_lines_checked")
    if marks and true_line is not None and marks[0][4:] != text.split("\n")[true_line - 1]:
        ctx.fail("cli:syntax-error:marker-on-wrong-line", {"marked": marks[0][:100], "line_of_reported_position": true_line, "source_line": text.split("\n")[true_line - 1][:100]})


def run_case(ctx, case):
    if case["kind"] == "syntaxline":
        return run_syntaxline(ctx, case)
    if case["kind"] == "tree":
        return run_tree(ctx, case)
    if case["kind"] == "runtime":
        if case["rseed"] % 6 == 0:
            run_thresholds(ctx, case)
        if case["rseed"] % 4 == 1:
            run_shapes(ctx, case)
        return run_runtime(ctx, case)
    if case["kind"] == "dupline":
        return run_dupline(ctx, case)
    if case["kind"] == "lineless":
        return run_lineless(ctx, case)
    if case["kind"] == "cycle":
        return run_cycle(ctx, case)
    if case["kind"] == "userfault":
        return run_userfault(ctx, case)
    if case["kind"] == "duparg":
        return run_duparg(ctx, case)
    if case["kind"] == "v2fault":
        return run_v2fault(ctx, case)
    return run_fault(ctx, case)
