"""C12 - models are accepted iff well-formed, and rejected before any side effect.

Monitors: API-boundary outcome recorder (exception class and attributes) compared with an independent acceptance rule
(single faults with known expected error; producer/consumer pairings predicted from declared output kind and fuzziness);
phase automaton LOAD -> PREPASS -> EXEC over the event log (any execute() entry or file-system write before a rejection is a
violation), directory snapshot before/after, is_finished of every command after a rejection.
"""
import os
import random

from mpv import arr, models, faults, trace, cmdgen

ANCHORS = ['mpilot/program.py:Program.add_command', 'mpilot/program.py:Program.run', 'mpilot/params.py:ResultParameter.clean', 'mpilot/params.py:NumberParameter.clean', 'mpilot/params.py:TupleParameter.clean', 'mpilot/commands.py:Command.validate_params']   # repository functions the workload must enter (reported as anchors_reached / anchors_missed)
LEVEL = "fault_enumeration"
RULE = ("(1) for every built-in command of the CSV library set a valid base model and every fault site on that command (each "
        "required parameter removed, undeclared parameter added, every wrong kind per declared parameter type, unknown/non-data/"
        "wrong-fuzziness results, bad paths, unknown command, duplicate result); (2) the same faults at random positions of random "
        "models with sinks; (3) every producer x consumer pairing of built-in data commands; (4) unfaulted models must be accepted; "
        "distinct by (fault kind, command, parameter, variant) / (producer, consumer)")
SCRATCH_PER_CASE = True      # no directory is used beyond the case that asked for it
REQUIRED_COUNTERS = ["faulty_models_through_the_tool", "valid_models_through_the_tool_by_bare_name", "history_steps_checked", "rejections_checked", "side_effect_free_rejections", "acceptances_checked", "pairings_checked", "exec_events_seen_in_valid_runs", "netcdf_model_cases", "api_built_models", "incremental_rejections_checked", "user_subclass_models", "shared_argument_programs", "valid_models_through_the_tool"]
ASSUMPTIONS = ["a list or tuple given to a String/Path parameter is don't-care (string cleaning stringifies by design)",
               "value-dependent run-time errors (InvalidThresholds, DuplicateRawValues, ...) are not acceptance errors",
               "the acceptance rule is restated from the declarations (inputs/required/output/is_fuzzy), not from running clean()"]
EXHAUSTIVE_NOTE = "all fault sites of a per-command base model for each of the 35 CSV-set commands; all 31x31 data producer/consumer pairings (thorough; quick samples 1:4)"

ACCEPTANCE_ERRORS = {"CommandDoesNotExist", "DuplicateResult", "MissingParameters", "NoSuchParameter", "ParameterNotValid", "ResultDoesNotExist",
                     "ResultTypeNotValid", "ResultNotFuzzy", "ResultIsFuzzy", "PathDoesNotExist", "InvalidRelativePath"}
REQ_TYPE = {"number": "Number", "boolean": "Boolean", "result": "Result", "tuple": "Tuple", "datatype": "Data Type"}


def _base_model_for(rng, cmd):
    """Small valid model that contains `cmd` (plus what it needs)."""
    if cmd == "EEMSRead":
        return models.gen_model(rng, n_ops=1, sinks=False, cmds=["Copy"])
    if cmd in ("EEMSWrite", "PrintVars"):
        for _ in range(20):
            m = models.gen_model(rng, n_ops=2, sinks=True)
            if any(c["cmd"] == cmd for c in m["commands"]):
                return m
        return None
    need_fuzzy = cmd in arr.FUZZY_INPUT
    for _ in range(30):
        m = models.gen_model(rng, n_ops=0, sinks=False)
        pool = [c["result"] for c in m["commands"]]
        if need_fuzzy:
            k = rng.randint(1, 2)
            fz = []
            for i in range(k):
                m["commands"].append({"result": "Fz%d" % i, "cmd": "CvtToFuzzy", "args": {"InFieldName": rng.choice(pool), "TrueThreshold": 10, "FalseThreshold": -10}})
                fz.append("Fz%d" % i)
            pool = fz
        style = arr.INPUT_STYLE[cmd]
        args = {}
        if style == "one":
            args["InFieldName"] = rng.choice(pool)
            n = 1
        elif style == "ab":
            args["A"], args["B"] = rng.choice(pool), rng.choice(pool)
            n = 2
        else:
            n = rng.randint(2, 3)
            args["InFieldNames"] = [rng.choice(pool) for _ in range(n)]
        args.update(cmdgen.gen_params(rng, cmd, n, None))
        if cmd == "CvtToFuzzy":
            args.update({"TrueThreshold": 5, "FalseThreshold": -5, "Direction": "LowToHigh"})
        if cmd in ("NormalizeZScore",):
            args.update({"StartVal": 0, "EndVal": 1})
        if cmd == "Normalize":
            args.update({"StartVal": 0, "EndVal": 2})
        m["commands"].append({"result": "Target", "cmd": cmd, "args": args})
        if rng.random() < 0.6:
            m["commands"].append({"result": "Out", "cmd": "EEMSWrite", "args": {"OutFileName": "out.csv", "OutFieldNames": ["Target"]}})
        if rng.random() < 0.4:
            m["commands"].append({"result": "Printed", "cmd": "PrintVars", "args": {"InFieldNames": ["Target"], "OutFileName": "vars.txt"}})
        return m
    return None


def cases(ctx):
    rng = ctx.rng("cases")
    kinds = models.param_kinds()
    req = faults.required_params()
    idx = 0
    # (1) complete matrix per command
    for cmd in sorted(kinds):
        m = _base_model_for(random.Random("%s:%s" % (ctx.seed, cmd)), cmd)
        if m is None:
            continue
        for site in faults.applicable(m, kinds, req):
            if m["commands"][site[1]]["cmd"] != cmd:
                continue
            if ctx.mine(idx):
                inj = faults.inject(m, site, random.Random("%s:%s:%s" % (ctx.seed, cmd, idx)))
                if inj:
                    yield {"kind": "fault", "model": inj[0], "expect": inj[1], "shuffle": idx % 2}
            idx += 1
    # (2) placed faults
    for i in range(ctx.n(800, 40000)):
        m = models.gen_model(rng, n_ops=rng.randint(2, 8), sinks=True)
        sites = faults.applicable(m, kinds, req)
        want = faults.ALL_FAULTS[i % len(faults.ALL_FAULTS)]
        site = rng.choice([s for s in sites if s[0] == want] or sites)
        inj = faults.inject(m, site, rng)
        if inj:
            yield {"kind": "fault", "model": inj[0], "expect": inj[1], "shuffle": rng.random() < 0.5, "rseed": rng.randrange(10 ** 9)}
    # the same faults in models over the NetCDF library set (grids of rank 1-3, NetCDF reads and writes)
    nc_kinds = models.param_kinds(arr.NC_LIBS)
    nc_req = faults.required_params(arr.NC_LIBS)
    for i in range(ctx.n(240, 12000)):
        m = models.gen_model(rng, n_ops=rng.randint(1, 6), sinks=True, libs="nc")
        sites = faults.applicable(m, nc_kinds, nc_req)
        want = faults.ALL_FAULTS[i % len(faults.ALL_FAULTS)]
        io_sites = [s for s in sites if m["commands"][s[1]]["cmd"] in ("EEMSRead", "EEMSWrite")]
        pool_ = [s for s in (io_sites if i % 2 else sites) if s[0] == want] or sites
        inj = faults.inject(m, rng.choice(pool_), rng)
        if inj:
            yield {"kind": "fault", "model": inj[0], "expect": inj[1], "shuffle": rng.random() < 0.5, "rseed": rng.randrange(10 ** 9)}
    # relative path without a working directory
    for i in range(ctx.n(40, 1000)):
        m = models.gen_model(rng, n_ops=rng.randint(1, 4), sinks=True)
        yield {"kind": "relpath", "model": m, "which": rng.randrange(100)}
    # commands exist only in the *selected* libraries: a model using fuzzy commands loaded with basic + csv only
    for i in range(ctx.n(60, 2000)):
        m = models.gen_model(rng, n_ops=rng.randint(2, 6), sinks=rng.random() < 0.5)
        if any(c["cmd"] in arr.FUZZY_OUTPUT or c["cmd"] == "CvtFromFuzzy" for c in m["commands"]):
            yield {"kind": "restricted", "model": m, "rseed": rng.randrange(10 ** 9)}
    # duplicate result names in files written (partly) in EEMS 2.0 syntax
    for i in range(ctx.n(12, 300)):
        yield {"kind": "v2dup", "variant": i % 4, "rseed": rng.randrange(10 ** 9)}
    # a model that ran, then grows through add_command by a faulty command (and a further, valid, writer): the second run() is
    # rejected before anything of it executes
    for i in range(ctx.n(120, 6000)):
        m = models.gen_model(rng, n_ops=rng.randint(2, 6), sinks=True)
        sinks = [c["result"] for c in m["commands"] if c["cmd"] in ("PrintVars", "EEMSWrite")]
        fz = [c["result"] for c in m["commands"] if c["cmd"] in arr.FUZZY_OUTPUT]
        nf = [c["result"] for c in m["commands"] if c["cmd"] == "EEMSRead" or (c["cmd"] in arr.INPUT_STYLE and c["cmd"] not in arr.FUZZY_OUTPUT and c["cmd"] != "Copy")]
        fault = ["non-data-result", "wrong-fuzziness", "missing-result", "wrong-kind"][i % 4]
        if fault == "non-data-result":
            if not sinks:
                continue
            bad = {"result": "Late", "cmd": rng.choice(["Sum", "Maximum"]), "args": {"InFieldNames": [rng.choice(nf), rng.choice(sinks)]}} if rng.random() < 0.6 else \
                  {"result": "Late", "cmd": "Copy", "args": {"InFieldName": rng.choice(sinks)}}
            ok = ["ResultTypeNotValid", "ParameterNotValid"]
        elif fault == "wrong-fuzziness":
            if fz and rng.random() < 0.5:
                bad, ok = {"result": "Late", "cmd": "Sum", "args": {"InFieldNames": [rng.choice(nf), rng.choice(fz)]}}, ["ResultIsFuzzy"]
            else:
                bad, ok = {"result": "Late", "cmd": "FuzzyOr", "args": {"InFieldNames": [rng.choice(nf)]}}, ["ResultNotFuzzy"]
        elif fault == "missing-result":
            bad, ok = {"result": "Late", "cmd": "Copy", "args": {"InFieldName": "No_Such_Result"}}, ["ResultDoesNotExist"]
        else:
            bad, ok = {"result": "Late", "cmd": "WeightedSum", "args": {"InFieldNames": [rng.choice(nf)], "Weights": "heavy"}}, ["ParameterNotValid"]
        writer = {"result": "LateOut", "cmd": "EEMSWrite", "args": {"OutFileName": "late.csv", "OutFieldNames": [rng.choice(nf)]}}
        extra = [bad, writer] if rng.random() < 0.5 else [writer, bad]
        yield {"kind": "incremental", "model": m, "extra": extra, "fault": fault, "ok": ok}
    # commands of a user's library that specialise built-in fuzzy commands (their results are fuzzy by inheritance)
    for i in range(ctx.n(16, 400)):
        yield {"kind": "subclass", "variant": i * ctx.nshards + ctx.shard}
    # two programs built through add_command from the very same argument objects (lists of result names): each is judged
    # against its own commands
    for i in range(ctx.n(40, 2000)):
        yield {"kind": "sharedargs", "model": models.gen_model(rng, n_ops=rng.randint(2, 5), sinks=True), "rseed": rng.randrange(10 ** 9)}
    # (3) pairings
    data_cmds = list(cmdgen.ALL)
    k = 0
    for p in data_cmds:
        for c in data_cmds + ["EEMSWrite", "PrintVars"]:
            if ctx.mine(k) and (not ctx.quick or (k // ctx.nshards) % 4 == 0):
                yield {"kind": "pair", "producer": p, "consumer": c, "rseed": k}
            k += 1
    # (3b) histories in one process and one directory: the input file disappears and comes back between programs; a program
    # that failed at run time for an outside reason is run again after the reason was removed
    for i in range(ctx.n(40, 2000)):
        yield {"kind": "history", "model": models.gen_model(rng, n_ops=rng.randint(1, 6), sinks=True, metadata=rng.random() < 0.3), "variant": i % 3, "rseed": rng.randrange(10 ** 9)}
    # (4) valid models are accepted
    for i in range(ctx.n(300, 15000)):
        yield {"kind": "valid", "model": models.gen_model(rng, n_ops=rng.randint(1, 10), sinks=True, metadata=rng.random() < 0.3, libs="nc" if i % 4 == 0 else "csv"),
               "rseed": rng.randrange(10 ** 9)}


def _run_monitored(ctx, text, d, working_dir="use-d", libs=arr.CSV_LIBS, api_model=None):
    """Load + run with the recorder on. Returns (error or None, program or None, log, fs changes)."""
    from mpilot.program import Program
    before = trace.snapshot_dir(d)
    log = trace.start(watch_dirs=[d])
    prog, err = None, None
    try:
        if api_model is not None:
            prog = models.build_api(api_model, d, libs, write=False)    # the table is already there: only mpilot's writes count
        else:
            prog = Program.from_source(text, libraries=libs, working_dir=d if working_dir == "use-d" else working_dir)
        trace.attach(prog)
        prog.run()
    except Exception as e:
        err = e
        try:
            str(e)       # what every caller does with the error (the command-line tool prints it): still inside the monitored window
        except Exception:
            pass
    finally:
        trace.stop()
    after = trace.snapshot_dir(d)
    return err, prog, log, trace.diff_snapshots(before, after)


def _side_effects(log, changed, prog):
    execs = [e["name"] for e in log if e["k"] == "exec_enter"]
    writes = [(e["op"], os.path.basename(e["path"])) for e in log if e["k"] == "fs_write"]
    finished = [n for n, c in prog.commands.items() if c.is_finished] if prog is not None else []
    return execs, writes, changed, finished


def run_history(ctx, case):
    """Acceptance depends on the model and the files as they are *now*, not on what earlier programs of the process saw."""
    model = case["model"]
    d = ctx.scratch()
    path = models.write_table(model["table"], d)
    text, _ = models.to_text(model)
    libs = models.model_libs(model)
    good = open(path, "rb").read()
    reads = [c for c in model["commands"] if c["cmd"] == "EEMSRead"]
    ctx.feature(("history", case["variant"], len(model["commands"])))
    if case["variant"] == 0:
        # type names of the *other* reader, given to the CSV reader after a NetCDF program existed in this process: refused
        from mpilot.program import Program as _P0
        arr.new_program(arr.NC_LIBS)
        for pname in ("ReturnType", "DataType"):
            for bad in ("Fuzzy", "Positive Float", "Positive Integer"):
                err0 = None
                try:
                    _P0.from_source('A = EEMSRead(InFileName = "%s", InFieldName = %s, %s = "%s")' % (model["table"]["file"], list(model["table"]["cols"])[0] if list(model["table"]["cols"])[0].isidentifier() else "X0", pname, bad), libraries=libs, working_dir=d).run()
                except Exception as e:
                    err0 = e
                ctx.count("rejections_checked")
                if type(err0).__name__ != "ParameterNotValid":
                    ctx.fail("history:netcdf-type-name-given-to-the-csv-reader:%s" % ("accepted" if err0 is None else "rejected-with-" + type(err0).__name__), {"parameter": pname, "value": bad})
                    return
                ctx.count("side_effect_free_rejections")
    if case["variant"] in (0, 1):
        # variant 0: accepted, file removed -> rejected before anything runs, file back -> accepted again
        # variant 1: the same, starting with the file absent
        order = ["present", "absent", "present"] if case["variant"] == 0 else ["absent", "present", "absent"]
        for step, state in enumerate(order):
            if state == "present":
                with open(path, "wb") as f:
                    f.write(good)
            elif os.path.exists(path):
                os.remove(path)
            err, prog, log, changed = _run_monitored(ctx, text, d, libs=libs)
            ctx.count("history_steps_checked")
            execs, writes, changed, finished = _side_effects(log, changed, prog)
            name = type(err).__name__ if err is not None else None
            if state == "present":
                ctx.count("acceptances_checked")
                if name in ACCEPTANCE_ERRORS or name == "RecursiveModelStructure":
                    ctx.fail("history:valid-model-rejected-after-earlier-programs:%s" % name, {"step": step, "states": order, "error": str(err)[:300], "text": text[:800]})
                    return
                if err is not None:
                    ctx.dontcare("history: valid model raises run-time %s" % name)
                    return
            else:
                ctx.count("rejections_checked")
                if err is None:
                    ctx.fail("history:missing-input-file:accepted", {"step": step, "states": order, "executed": execs[:6], "text": text[:800]})
                    return
                if name != "PathDoesNotExist":
                    inner = type(getattr(err, "exc", None)).__name__ if name == "UnexpectedError" else None
                    ctx.fail("history:missing-input-file:rejected-with-%s" % (name + ("/" + inner if inner else "")), {"step": step, "states": order, "error": str(err)[:300], "executed_before": execs[:6]})
                    return
                if execs or writes or changed or finished:
                    ctx.fail("history:missing-input-file:side-effect-before-rejection", {"step": step, "states": order, "executed": execs[:6], "fs_writes": writes[:4], "changed_files": changed[:4]})
                    return
                ctx.count("side_effect_free_rejections")
        return
    if case["variant"] == 2 and case["rseed"] % 2 == 0:
        # the documented way of removing a command (del program.commands[name]) after a successful run, while finished commands
        # still refer to it: the next run rejects the model - before anything executes
        from mpilot.program import Program as _P
        models.write_table(model["table"], d)
        try:
            prog = _P.from_source(text, libraries=libs, working_dir=d)
            prog.run()
        except Exception as e:
            ctx.dontcare("history: model raises %s" % type(e).__name__)
            return
        referenced = [n_ for n_ in prog.commands if any(n_ in models.deps_of(c_) for c_ in model["commands"])]
        if not referenced:
            return
        victim = referenced[case["rseed"] % len(referenced)]
        del prog.commands[victim]
        ctx.count("history_steps_checked")
        ctx.count("rejections_checked")
        before = trace.snapshot_dir(d)
        log = trace.start(watch_dirs=[d])
        err = None
        try:
            trace.attach(prog)
            prog.run()
        except Exception as e:
            err = e
        finally:
            trace.stop()
        execs = [e_["name"] for e_ in log if e_["k"] == "exec_enter"]
        changed = trace.diff_snapshots(before, trace.snapshot_dir(d))
        if err is None:
            ctx.fail("history:referenced-command-removed-after-a-run:accepted", {"removed": victim, "executed": execs[:6], "text": text[:600]})
        elif type(err).__name__ != "ResultDoesNotExist":
            ctx.fail("history:referenced-command-removed-after-a-run:rejected-with-%s" % type(err).__name__, {"removed": victim, "error": str(err)[:200]})
        elif execs or changed:
            ctx.fail("history:referenced-command-removed-after-a-run:side-effect-before-rejection", {"removed": victim, "executed": execs[:6], "changed_files": changed[:4]})
        else:
            ctx.count("side_effect_free_rejections")
        return
    # variant 2: a run fails inside a reader because of the file's content; the file is repaired; the same program is run again
    col = reads[case["rseed"] % len(reads)]["args"]["InFieldName"]
    t2 = {k: v for k, v in model["table"].items()}
    t2["cols"] = {(k + "_renamed" if k == col else k): v for k, v in model["table"]["cols"].items()}
    models.write_table(t2, d)
    from mpilot.program import Program
    try:
        prog = Program.from_source(text, libraries=libs, working_dir=d)
    except Exception as e:
        ctx.dontcare("history: load raises %s" % type(e).__name__)
        return
    first = None
    try:
        prog.run()
    except Exception as e:
        first = e
    if first is None:
        ctx.note_inconclusive("history: the damaged table did not make the run fail")
        return
    with open(path, "wb") as f:
        f.write(good)
    ctx.count("history_steps_checked")
    ctx.count("acceptances_checked")
    second = None
    try:
        prog.run()
    except Exception as e:
        second = e
    name = type(second).__name__ if second is not None else None
    if name in ACCEPTANCE_ERRORS or name == "RecursiveModelStructure":
        ctx.fail("history:valid-model-rejected-when-run-again-after-a-repaired-failure:%s" % name, {"first_error": type(first).__name__, "error": str(second)[:300], "text": text[:800]})
    elif second is not None:
        # the same model from a fresh load decides whether this is the model's own run-time behaviour
        try:
            Program.from_source(text, libraries=libs, working_dir=d).run()
            ctx.fail("history:run-again-after-a-repaired-failure-raises-%s" % name, {"first_error": type(first).__name__, "error": str(second)[:300], "text": text[:800]})
        except Exception:
            ctx.dontcare("history: valid model raises run-time %s" % name)


def run_v2dup(ctx, case):
    """The same result name twice in a file that goes through the EEMS 2.0 conversion: DuplicateResult, nothing executed."""
    d = ctx.scratch()
    with open(os.path.join(d, "in.csv"), "w") as f:
        f.write("X0,X1\n1,2\n3,4\n")
    texts = [
        'READ(InFileName = "in.csv", InFieldName = X0)\nREAD(InFileName = "in.csv", InFieldName = X0)\nOut = EEMSWrite(OutFileName = "o.csv", OutFieldNames = [X0])',
        'READ(InFileName = "in.csv", InFieldName = X0, NewFieldName = A)\nREAD(InFileName = "in.csv", InFieldName = X1, NewFieldName = A)\nCOPYFIELD(InFieldName = A, NewFieldName = B, OutFileName = "x.csv")',
        'A = EEMSRead(InFileName = "in.csv", InFieldName = "X0")\nREAD(InFileName = "in.csv", InFieldName = X1, NewFieldName = A)\nS = Sum(InFieldNames = [A])',
        'READ(InFileName = "in.csv", InFieldName = X0)\nX0 = Copy(InFieldName = X0)',
    ]
    text = texts[case["variant"]]
    err, prog, log, changed = _run_monitored(ctx, text, d)
    ctx.count("rejections_checked")
    ctx.feature(("v2dup", case["variant"]))
    execs, writes, changed, finished = _side_effects(log, changed, prog)
    if err is None:
        ctx.fail("duplicate-result-in-eems2-file:accepted", {"text": text, "executed": execs})
    elif type(err).__name__ != "DuplicateResult":
        ctx.fail("duplicate-result-in-eems2-file:rejected-with-%s" % type(err).__name__, {"text": text, "error": str(err)[:200]})
    if execs or writes or changed or finished:
        ctx.fail("duplicate-result-in-eems2-file:side-effect-before-rejection", {"executed": execs[:5], "fs": writes[:4]})
    else:
        ctx.count("side_effect_free_rejections")


def run_incremental(ctx, case):
    import copy
    d = ctx.scratch()
    model = case["model"]
    try:
        prog = models.load(model, d)
        prog.run()
    except Exception as e:
        ctx.dontcare("base model of the incremental case raises %s" % type(e).__name__)
        return
    ctx.count("rejections_checked")
    ctx.count("incremental_rejections_checked")
    ctx.feature(("incremental", case["fault"], case["extra"][0]["result"], tuple(c["cmd"] for c in case["extra"])))
    before = trace.snapshot_dir(d)
    log = trace.start(watch_dirs=[d])
    err = None
    try:
        for c in case["extra"]:
            prog.add_command(prog.find_command_class(c["cmd"]), c["result"], copy.deepcopy(c["args"]))
        trace.attach(prog)
        prog.run()
    except Exception as e:
        err = e
    finally:
        trace.stop()
    changed = trace.diff_snapshots(before, trace.snapshot_dir(d))
    execs = [e["name"] for e in log if e["k"] == "exec_enter"]
    writes = [(e["op"], os.path.basename(e["path"])) for e in log if e["k"] == "fs_write"]
    detail = {"added": case["extra"], "base_commands": [(c["result"], c["cmd"]) for c in model["commands"]]}
    if err is None:
        ctx.fail("incremental:%s:accepted" % case["fault"], dict(detail, executed=execs[:6]))
        return
    if type(err).__name__ not in case["ok"]:
        inner = type(getattr(err, "exc", None)).__name__ if type(err).__name__ == "UnexpectedError" else None
        ctx.fail("incremental:%s:rejected-with-%s" % (case["fault"], type(err).__name__ + ("/" + inner if inner else "")), dict(detail, error=str(err)[:300], executed_before=execs[:6]))
    if execs or writes or changed:
        ctx.fail("incremental:%s:side-effect-before-rejection" % case["fault"], dict(detail, executed=execs[:6], fs_writes=writes[:4], changed_files=changed[:4], error=type(err).__name__))
    else:
        ctx.count("side_effect_free_rejections")


SUBCLASS_TEXTS = [
    # (text after the two reads, expected error or None)
    ("FA = MyConv(InFieldName = A, TrueThreshold = 5, FalseThreshold = 0)\nN = FuzzyNot(InFieldName = FA)", None),
    ("FA = MyConv(InFieldName = A, TrueThreshold = 5, FalseThreshold = 0)\nFB = CvtToFuzzy(InFieldName = B)\nX = MyOr(InFieldNames = [FA, FB])\nU = FuzzyUnion(InFieldNames = [X, FA])", None),
    ("FA = MyConv(InFieldName = A, TrueThreshold = 5, FalseThreshold = 0)\nS = Sum(InFieldNames = [A, FA])\nOut = EEMSWrite(OutFileName = \"o.csv\", OutFieldNames = [S])", "ResultIsFuzzy"),
    ("FB = CvtToFuzzy(InFieldName = B)\nX = MyOr(InFieldNames = [FB])\nC = CvtToFuzzy(InFieldName = X)\nOut = EEMSWrite(OutFileName = \"o.csv\", OutFieldNames = [C])", "ResultIsFuzzy"),
    ("X = MyOr(InFieldNames = [A, B])\nOut = EEMSWrite(OutFileName = \"o.csv\", OutFieldNames = [X])", "ResultNotFuzzy"),
    ("FA = MyConv(InFieldName = A)\nFF = MyConv(InFieldName = FA)", "ResultIsFuzzy"),
]


def run_subclass(ctx, case):
    body, want = SUBCLASS_TEXTS[case["variant"] % len(SUBCLASS_TEXTS)]
    d = ctx.scratch()
    with open(os.path.join(d, "in.csv"), "w") as f:
        f.write("a,b\n1,2\n3,4\n5,7\n")
    text = 'A = EEMSRead(InFileName = "in.csv", InFieldName = a)\nB = EEMSRead(InFileName = "in.csv", InFieldName = b)\n' + body
    err, prog, log, changed = _run_monitored(ctx, text, d, libs=arr.CSV_LIBS + ("usercmds",))
    ctx.count("pairings_checked")
    ctx.count("user_subclass_models")
    ctx.feature(("subclass", case["variant"] % len(SUBCLASS_TEXTS)))
    name = type(err).__name__ if err is not None else None
    if want is None:
        if name is not None:
            ctx.fail("subclass-of-a-fuzzy-command:compatible-rejected:%s" % name, {"text": text, "error": str(err)[:200]})
    else:
        execs, writes, changed, finished = _side_effects(log, changed, prog)
        if name != want:
            ctx.fail("subclass-of-a-fuzzy-command:incompatible-%s:%s" % (want, "accepted" if name is None else "rejected-with-" + name), {"text": text, "error": str(err)[:200]})
        if execs or writes or changed or finished:
            ctx.fail("subclass-of-a-fuzzy-command:side-effect-before-rejection", {"text": text, "executed": execs[:6], "fs": writes[:4]})


def run_sharedargs(ctx, case):
    """Program 1 (valid) and program 2 (one producer left out) are built from the same argument objects."""
    from mpilot.program import Program
    model = case["model"]
    rng = random.Random(case["rseed"])
    d1, d2 = ctx.scratch(), ctx.scratch()
    models.write_table(model["table"], d1)
    models.write_table(model["table"], d2)
    shared = [dict(c, args=dict(c["args"])) for c in model["commands"]]     # the very objects handed to both programs
    consumed = [v for c in shared for k, v in c["args"].items() if k in ("InFieldName", "A", "B") and isinstance(v, str)] + \
               [x for c in shared for k, v in c["args"].items() if k in ("InFieldNames", "OutFieldNames") and isinstance(v, list) for x in v]
    consumed = [x for x in consumed if any(c["result"] == x for c in shared)]
    if not consumed:
        ctx.dontcare("no reference in this model")
        return
    victim = rng.choice(sorted(set(consumed)))
    ctx.count("rejections_checked")
    ctx.count("shared_argument_programs")
    ctx.feature(("sharedargs", len(shared)))
    try:
        p1 = Program(libraries=arr.CSV_LIBS, working_dir=d1)
        for c in shared:
            p1.add_command(p1.find_command_class(c["cmd"]), c["result"], c["args"])
        p1.run()
    except Exception as e:
        ctx.dontcare("first program raises %s" % type(e).__name__)
    before = trace.snapshot_dir(d2)
    log = trace.start(watch_dirs=[d2])
    err = None
    try:
        p2 = Program(libraries=arr.CSV_LIBS, working_dir=d2)
        for c in shared:
            if c["result"] != victim:
                p2.add_command(p2.find_command_class(c["cmd"]), c["result"], c["args"])
        trace.attach(p2)
        p2.run()
    except Exception as e:
        err = e
    finally:
        trace.stop()
    execs = [e["name"] for e in log if e["k"] == "exec_enter"]
    changed = trace.diff_snapshots(before, trace.snapshot_dir(d2))
    detail = {"left_out": victim, "commands": [(c["result"], c["cmd"]) for c in shared]}
    if err is None:
        ctx.fail("shared-argument-objects:missing-result-accepted-in-the-second-program", dict(detail, executed=execs[:6]))
    elif type(err).__name__ != "ResultDoesNotExist":
        ctx.fail("shared-argument-objects:second-program-rejected-with-%s" % type(err).__name__, dict(detail, error=str(err)[:200]))
    if execs or changed:
        ctx.fail("shared-argument-objects:side-effect-before-rejection", dict(detail, executed=execs[:6], changed_files=changed[:4]))
    else:
        ctx.count("side_effect_free_rejections")


def run_case(ctx, case):
    kind = case["kind"]
    if kind == "pair":
        return run_pair(ctx, case)
    if kind == "subclass":
        return run_subclass(ctx, case)
    if kind == "sharedargs":
        return run_sharedargs(ctx, case)
    if kind == "incremental":
        return run_incremental(ctx, case)
    if kind == "v2dup":
        return run_v2dup(ctx, case)
    if kind == "history":
        return run_history(ctx, case)
    d = ctx.scratch()
    model = case["model"]
    if case.get("shuffle"):
        model = models.permuted(model, random.Random(case.get("rseed", 1)))
        if "expect" in case and case["expect"]["fault"] == "duplicate-result":
            model = case["model"]   # which of two equal names is 'the duplicate' depends on file order
    models.write_table(model["table"], d)
    if kind == "relpath":
        return run_relpath(ctx, case, model, d)
    if kind == "restricted":
        return run_restricted(ctx, case, model, d)
    if kind == "valid" and case.get("rseed", 0) % 5 == 2:
        # an empty metadata list is a legal (empty) metadata value
        import copy
        model = copy.deepcopy(model)
        for c in model["commands"][::2]:
            c["args"]["Metadata"] = []
        ctx.count("empty_metadata_models")
    text, _ = models.to_text(model)
    api = (kind == "valid" and case.get("rseed", 0) % 10 == 7) or kind == "fault" and (case.get("rseed", 0) % 4 == 1 or case["expect"].get("variant") in ("none", "none-item")) and case["expect"]["fault"] not in ("unknown-command",)
    if api:
        ctx.count("api_built_models")
    err, prog, log, changed = _run_monitored(ctx, text, d, libs=models.model_libs(model), api_model=model if api else None)
    if model.get("libs") == "nc":
        ctx.count("netcdf_model_cases")
    if kind == "valid":
        ctx.count("acceptances_checked")
        ctx.count("exec_events_seen_in_valid_runs", sum(1 for e in log if e["k"] == "exec_enter"))
        ctx.feature(("valid", tuple(sorted(set(c["cmd"] for c in model["commands"])))[:6]))
        if err is not None and (type(err).__name__ in ACCEPTANCE_ERRORS or type(err).__name__ == "RecursiveModelStructure"):
            # generated models only refer backwards: never circular, however often one result is referred to
            ctx.fail("valid-model-rejected:%s" % type(err).__name__, {"error": str(err)[:300], "text": text[:1500]})
        elif err is not None:
            ctx.dontcare("valid model: run-time %s" % (type(err).__name__ if type(err).__name__ != "UnexpectedError" else "UnexpectedError/" + type(err.exc).__name__))
        elif case.get("rseed", 1) % 4 == 0 and model.get("libs") != "nc":
            # the same (accepted) model through the command-line tool, with a comment line holding characters that only
            # str.splitlines() takes for line breaks, and one inside a quoted metadata value
            from click.testing import CliRunner
            from mpilot.cli.mpilot import main
            d2 = ctx.scratch()
            models.write_table(model["table"], d2)
            fp = os.path.join(d2, "model.mpt")
            with open(fp, "w", encoding="utf-8", newline="") as fh:
                fh.write("# Inputs \x0c page 2 \x0b \x1c \x1d \x1e \x85 \u2028 \u2029\n" + text + "\n# end \x0c\n")
            try:
                res = CliRunner(mix_stderr=False).invoke(main, ["eems-csv", fp])
            except TypeError:
                res = CliRunner().invoke(main, ["eems-csv", fp])
            ctx.count("valid_models_through_the_tool")
            if res.exit_code == 0 and case.get("rseed", 1) % 16 == 0:
                # ... and as a user starts it: from the directory of the file, by its bare name
                from mpv import tool
                r2 = tool.run_tool(["eems-csv", "model.mpt"], cwd=d2)
                if r2 is not None:
                    ctx.count("valid_models_through_the_tool_by_bare_name")
                    if r2[0] != 0:
                        ctx.fail("valid-model-rejected-by-the-command-line-tool:started-in-the-directory-of-the-file", {"exit": r2[0], "stderr": r2[2][-300:], "text": text[:400]})
                        return
            if res.exit_code != 0:
                try:
                    etxt = res.stderr
                except Exception:
                    etxt = res.output
                ctx.fail("valid-model-rejected-by-the-command-line-tool:%s" % (type(res.exception).__name__ if res.exception is not None and not isinstance(res.exception, SystemExit) else "exit-%s" % res.exit_code),
                         {"stderr": etxt[-300:], "text": text[:600]})
        return
    exp = case["expect"]
    ctx.feature(("fault", exp["fault"], exp["cmd"], exp["param"], exp.get("variant")))
    ctx.count("rejections_checked")
    key = "%s:%s" % (exp["fault"], exp.get("declared") or exp["cmd"] if exp["fault"] in ("wrong-kind",) else exp["fault"])
    if exp["fault"] == "wrong-kind":
        key = "wrong-kind:%s<-%s" % (exp["declared"], exp["variant"])
    execs, writes, changed, finished = _side_effects(log, changed, prog)
    if err is None:
        ctx.fail("%s:accepted" % key, {"expect": exp, "text": text[:1500], "executed": execs[:8]})
        return
    name = type(err).__name__
    ok_names = [exp["error"]] + exp.get("also_ok", [])
    if name not in ok_names:
        inner = type(getattr(err, "exc", None)).__name__ if name == "UnexpectedError" else None
        ctx.fail("%s:rejected-with-%s" % (key, name + ("/" + inner if inner else "")), {"expect": exp, "error": str(err)[:300], "text": text[:1500], "executed_before": execs[:8]})
    else:
        bad_attr = _check_attrs(err, exp)
        if bad_attr:
            ctx.fail("%s:error-attribute-%s" % (key, bad_attr[0]), {"expect": exp, "got": bad_attr[1], "error": name})
    if not api and case.get("rseed", 1) % 6 == 0 and model.get("libs") != "nc":
        # the same faulty file through the command-line tool: refused (non-zero exit status), and nothing written either
        from click.testing import CliRunner
        from mpilot.cli.mpilot import main
        d3 = ctx.scratch()
        models.write_table(model["table"], d3)
        fp3 = os.path.join(d3, "model.mpt")
        with open(fp3, "w", encoding="utf-8") as fh:
            fh.write(text)
        before3 = trace.snapshot_dir(d3)
        try:
            res3 = CliRunner(mix_stderr=False).invoke(main, ["eems-csv", fp3])
        except TypeError:
            res3 = CliRunner().invoke(main, ["eems-csv", fp3])
        ctx.count("faulty_models_through_the_tool")
        changed3 = trace.diff_snapshots(before3, trace.snapshot_dir(d3))
        if res3.exit_code == 0:
            ctx.fail("%s:accepted-by-the-command-line-tool" % key, {"expect": exp, "text": text[:800]})
        elif changed3:
            ctx.fail("%s:command-line-tool-writes-before-rejecting" % exp["fault"], {"changed_files": changed3[:5], "expect": exp, "text": text[:800]})
    if execs or writes or changed or finished:
        ctx.fail("%s:side-effect-before-rejection" % exp["fault"], {"executed": execs[:8], "fs_writes": writes[:5], "changed_files": changed[:5],
                                                                   "finished": finished[:8], "error": name, "expect": exp, "text": text[:1500]})
    else:
        ctx.count("side_effect_free_rejections")
        if len(ctx.samples) < 5:
            ctx.sample({"fault": exp["fault"], "cmd": exp["cmd"], "param": exp["param"], "variant": exp.get("variant"), "error": name,
                        "events_before_rejection": len(log), "executes": 0, "fs_writes": 0})


def _check_attrs(err, exp):
    if type(err).__name__ != exp["error"]:
        return None      # an accepted alternative class: its attributes are not specified by the fault
    a = exp.get("attrs", {})
    for k, v in a.items():
        got = getattr(err, k, None)
        if k == "parameters":
            if got is None or not set(v) <= set(got):
                return (k, repr(got))
        elif got != v:
            return (k, repr(got))
    if exp["fault"] == "wrong-kind":
        rt = str(getattr(err, "required_type", ""))
        d = exp["declared"]
        variant = exp["variant"]
        want = None
        if d in REQ_TYPE:
            want = REQ_TYPE[d]
        elif d.startswith("list:"):
            want = "List" if variant in ("scalar", "scalar-number", "scalar-zero", "empty-string", "tuple", "none") else REQ_TYPE.get(d[5:])
        if want and not rt.startswith(want):
            return ("required_type", rt)
    return None


def run_restricted(ctx, case, model, d):
    """Only basic + csv are selected: the first fuzzy-library command in the file does not exist for this program."""
    from mpilot.program import Program
    libs = ("mpilot.libraries.eems.basic", "mpilot.libraries.eems.csv")
    text, _ = models.to_text(model)
    fuzzy_lib = [c["cmd"] for c in model["commands"] if c["cmd"] in arr.FUZZY_OUTPUT or c["cmd"] == "CvtFromFuzzy"]
    fuzzy_lib = [c for c in fuzzy_lib if c not in ("NormalizeZScore",)]
    before = trace.snapshot_dir(d)
    log = trace.start(watch_dirs=[d])
    err, prog = None, None
    try:
        prog = Program.from_source(text, libraries=libs, working_dir=d)
        trace.attach(prog)
        prog.run()
    except Exception as e:
        err = e
    finally:
        trace.stop()
    ctx.count("rejections_checked")
    ctx.feature(("restricted", fuzzy_lib[0]))
    execs, writes, changed, finished = _side_effects(log, trace.diff_snapshots(before, trace.snapshot_dir(d)), prog)
    if err is None:
        ctx.fail("unselected-library-command:accepted", {"libraries": list(libs), "command": fuzzy_lib[0], "text": text[:1000]})
    elif type(err).__name__ != "CommandDoesNotExist":
        ctx.fail("unselected-library-command:rejected-with-%s" % type(err).__name__, {"error": str(err)[:300]})
    elif getattr(err, "name", None) != fuzzy_lib[0]:
        ctx.fail("unselected-library-command:error-attribute-name", {"got": getattr(err, "name", None), "want": fuzzy_lib[0]})
    if execs or writes or changed or finished:
        ctx.fail("unselected-library-command:side-effect-before-rejection", {"executed": execs[:6]})
    else:
        ctx.count("side_effect_free_rejections")


def run_relpath(ctx, case, model, d):
    """All paths absolute except one, loaded without a working directory: InvalidRelativePath before anything runs."""
    import copy
    m = copy.deepcopy(model)
    kinds = models.param_kinds()
    sites = []
    for i, c in enumerate(m["commands"]):
        for p, v in c["args"].items():
            if kinds.get(c["cmd"], {}).get(p) == "path":
                c["args"][p] = os.path.join(d, v)
                sites.append((i, p, v))
    i, p, v = sites[case["which"] % len(sites)]
    m["commands"][i]["args"][p] = v
    text, _ = models.to_text(m)
    err, prog, log, changed = _run_monitored(ctx, text, d, working_dir=None)
    ctx.count("rejections_checked")
    ctx.feature(("relpath", m["commands"][i]["cmd"], p))
    execs, writes, changed, finished = _side_effects(log, changed, prog)
    if err is None:
        ctx.fail("relative-path:accepted", {"text": text[:1200]})
    elif type(err).__name__ != "InvalidRelativePath":
        ctx.fail("relative-path:rejected-with-%s" % type(err).__name__, {"error": str(err)[:300], "text": text[:1200]})
    elif getattr(err, "path", None) != v:
        ctx.fail("relative-path:error-attribute-path", {"got": repr(getattr(err, "path", None)), "want": v})
    if execs or writes or changed or finished:
        ctx.fail("relative-path:side-effect-before-rejection", {"executed": execs[:8], "fs_writes": writes[:5], "changed_files": changed[:5]})
    else:
        ctx.count("side_effect_free_rejections")


def run_pair(ctx, case):
    """Producer P feeding consumer C: accepted/rejected as predicted from the declarations (output kind, is_fuzzy)."""
    from mpilot import params as P
    rng = random.Random(case["rseed"])
    pcmd, ccmd = case["producer"], case["consumer"]
    d = ctx.scratch()
    cat = arr.discover()
    m = models.gen_model(rng, n_ops=0, sinks=False, min_reads=1)
    pool = [c["result"] for c in m["commands"]]
    m["commands"].append({"result": "Fz", "cmd": "CvtToFuzzy", "args": {"InFieldName": pool[0], "TrueThreshold": 10, "FalseThreshold": -10}})

    def mk(cmd, name, src_nonfuzzy, src_fuzzy, force=None):
        style = arr.INPUT_STYLE.get(cmd, "list")
        src = force or (src_fuzzy if cmd in arr.FUZZY_INPUT else src_nonfuzzy)
        args = {}
        if cmd == "EEMSWrite":
            return {"result": name, "cmd": cmd, "args": {"OutFileName": "out.csv", "OutFieldNames": [src]}}
        if cmd == "PrintVars":
            return {"result": name, "cmd": cmd, "args": {"InFieldNames": [src], "OutFileName": "vars.txt"}}
        if style == "one":
            args["InFieldName"] = src
            n = 1
        elif style == "ab":
            args["A"], args["B"] = src, src
            n = 2
        else:
            args["InFieldNames"] = [src, src]
            n = 2
        args.update(cmdgen.gen_params(rng, cmd, n, None))
        if cmd == "CvtToFuzzy":
            args = {"InFieldName": src, "TrueThreshold": 5, "FalseThreshold": -5}
        return {"result": name, "cmd": cmd, "args": args}

    m["commands"].append(mk(pcmd, "Prod", pool[0], "Fz"))
    m["commands"].append(mk(ccmd, "Cons", None, None, force="Prod"))
    models.write_table(m["table"], d)
    text, _ = models.to_text(m)
    err, prog, log, changed = _run_monitored(ctx, text, d)
    ctx.count("pairings_checked")
    ctx.feature(("pair", pcmd, ccmd))
    # prediction from declarations
    pinfo, ccls = cat[pcmd], cat[ccmd]["cls"]
    pname = [n for n, st, fz in cat[ccmd]["result_inputs"]][0]
    decl = ccls.inputs[pname]
    decl = decl.value_type if isinstance(decl, P.ListParameter) else decl
    want = None
    if decl.is_fuzzy is True and not pinfo["is_fuzzy"]:
        want = "ResultNotFuzzy"
    elif decl.is_fuzzy is False and pinfo["is_fuzzy"]:
        want = "ResultIsFuzzy"
    elif decl.output_type is not None and not pinfo["is_data"]:
        want = "ResultTypeNotValid"
    name = type(err).__name__ if err is not None else None
    if want is None:
        if name in ACCEPTANCE_ERRORS:
            ctx.fail("pair:compatible-rejected:%s" % name, {"producer": pcmd, "consumer": ccmd, "error": str(err)[:200]})
    else:
        execs, writes, changed, finished = _side_effects(log, changed, prog)
        if name != want:
            ctx.fail("pair:incompatible-%s:%s" % (want, "accepted" if name is None else "rejected-with-" + name), {"producer": pcmd, "consumer": ccmd, "error": str(err)[:200]})
        elif getattr(err, "result", None) != "Prod":
            ctx.fail("pair:error-attribute-result", {"got": repr(getattr(err, "result", None))})
        if execs or writes or changed or finished:
            ctx.fail("pair:side-effect-before-rejection", {"producer": pcmd, "consumer": ccmd, "executed": execs[:6], "fs": writes[:4]})
