"""C13 - only declared error types escape, and the CLI reports them.

Monitor: API-boundary exception recorder around Parser().parse / Program.from_source / Program.run (exception type, cause
chain) over (a) the kind-confusion matrix including the String/Path don't-cares of C12, (b) token- and character-level
corruptions of valid command files, (c) CSV content faults under valid models, (d) injected I/O errors at the n-th open()
during run(), (e) shape / weight / empty-list run-time faults. For every MPilotError the command-line tool is run on the same
file: exit status non-zero, Problem/Solution text of str(exc) on stderr (str(exc) itself must be computable).
"""
import builtins
import os
import random

import numpy

from mpv import arr, models, faults, syntax, cmdgen

ANCHORS = ['mpilot/commands.py:Command.run', 'mpilot/parser/parser.py:Lexer.t_error', 'mpilot/parser/parser.py:Parser.p_error', 'mpilot/cli/mpilot.py:main', 'mpilot/libraries/eems/csv/io.py:EEMSRead.execute', 'mpilot/exceptions.py:UnexpectedError.__str__', 'mpilot/libraries/eems/exceptions.py:MixedArrayShapes.__str__']   # repository functions the workload must enter (reported as anchors_reached / anchors_missed)
LEVEL = "fault_enumeration"
RULE = ("(a) every fault site (C12 matrix + list/tuple/number given to String and Path parameters) on per-command base models and "
        "random models; (b) character-level edits (delete/insert/replace incl. NUL, BOM, quotes, backslashes, brackets), 10 kB tokens, "
        "lists nested to 6; (c) CSV faults: empty file, header only, ragged rows, non-numeric cells, missing column, duplicate "
        "headers, quoted newlines, NUL bytes, non-UTF-8 bytes, 1 MB field, nan/inf/1e400 cells; (d) open() raising at the n-th call; "
        "(e) mismatched shapes / weights / empty lists; distinct by (class, fault/edit kind, command, outcome class)")
SCRATCH_PER_CASE = True      # no directory is used beyond the case that asked for it
REQUIRED_COUNTERS = ["cli_runs_on_syntax_errors", "edited_programs_rerun", "api_rings_built", "boundary_outcomes_recorded", "mpilot_errors_seen", "cli_runs_checked", "error_messages_rendered", "io_faults_injected", "csv_faults_run", "text_corruptions_run", "cli_subprocess_runs", "netcdf_faults_run", "api_built_fault_models", "api_object_reference_models", "near_type_values_given"]
ASSUMPTIONS = ["SyntaxError vs MPilotError for malformed text: either is allowed", "command files that are not valid UTF-8, KeyboardInterrupt and MemoryError are out of scope",
               "the CLI's behaviour for SyntaxError is not specified by the property and not judged"]

NONFINITE = [("inf-text", faults.WORD("inf"), "inf"), ("nan-text", faults.WORD("nan"), "nan"), ("neg-inf-text", faults.QSTR("-inf"), "-inf"), ("infinity-text", faults.WORD("Infinity"), "Infinity"),
             ("huge-literal", {"t": "float", "v": float("inf"), "text": "1e999"}, float("inf"))]
NESTED = ("nested-list-with-number", faults.LIST([faults.LIST([faults.INT(1), faults.INT(2)]), faults.INT(3)]), [[1, 2], 3])
NESTED2 = ("nested-list-of-names", faults.LIST([faults.LIST([faults.WORD("a"), faults.FLOAT(2.5)]), faults.LIST([])]), [["a", 2.5], []])
EXTRA_WRONG = {
    "number": NONFINITE + [NESTED, NESTED2],
    "boolean": [NESTED, NESTED2],
    "result": [NESTED, NESTED2],
    "datatype": [NESTED],
    "tuple": [NESTED, NESTED2],
    "list:number": [("long-list-bad-item", faults.LIST([faults.INT(k_) for k_ in range(70)] + [faults.WORD("abc")]), list(range(70)) + ["abc"]),
                    ("long-list-huge-item", faults.LIST([faults.INT(k_) for k_ in range(70)] + [faults.INT(10 ** 400)]), list(range(70)) + [10 ** 400]),
                    ("long-list-tuple-item", faults.LIST([faults.INT(k_) for k_ in range(66)] + [faults.TUPLE("a", faults.INT(1))]), list(range(66)) + [{"a": 1}]),
                    ("long-list-none-item", faults.LIST([faults.FLOAT(0.5)] * 64 + [faults.WORD("None")]), [0.5] * 64 + [None]),
                    ("nonfinite-item", faults.LIST([faults.INT(1), faults.WORD("nan")]), [1, "nan"]), ("inf-item", faults.LIST([faults.WORD("inf")]), ["inf"])],
    "string": [NESTED, NESTED2, ("list", faults.LIST([faults.INT(1), faults.WORD("a")]), [1, "a"]), ("tuple", faults.TUPLE("a", faults.WORD("b")), {"a": "b"}), ("number", faults.INT(7), 7)],
    "path": [NESTED, NESTED2, ("through-a-file", faults.QSTR("in.csv/a"), "in.csv/a"), ("file-with-a-slash", faults.QSTR("in.csv/"), "in.csv/"), ("through-a-file-deep", faults.QSTR("in.csv/x/y.csv"), "in.csv/x/y.csv"),
             ("missing-folder-with-braces", faults.QSTR("run{1}/result.csv"), "run{1}/result.csv"), ("missing-folder-with-empty-braces", faults.QSTR("out{}/r{x}.csv"), "out{}/r{x}.csv"),
             ("missing-folder-with-percent", faults.QSTR("100%s/%(x)d.csv"), "100%s/%(x)d.csv"), ("missing-folder-with-one-brace", faults.QSTR("a{b/c}.csv"), "a{b/c}.csv"),
             ("list", faults.LIST([faults.WORD("a")]), ["a"]), ("tuple", faults.TUPLE("a", faults.WORD("b")), {"a": "b"}), ("number", faults.INT(7), 7), ("float", faults.FLOAT(1.5), 1.5)],
}
CSV_FAULTS = ["empty", "header-only", "ragged-short", "ragged-long", "non-numeric", "missing-column", "dup-headers", "quoted-newline", "nul-byte",
              "non-utf8", "huge-field", "nan", "inf", "1e400", "blank-lines", "bom", "only-newlines", "spaces"]
NC_FAULTS = ["no-such-variable", "not-a-netcdf-file", "empty-file", "template-variable-missing", "template-without-dimension-variables", "result-named-like-dimension",
             "negative-as-positive", "out-of-range-as-fuzzy", "missing-value-not-a-number", "scalar-variable", "string-variable", "duplicate-output-names", "unwritable-output", "misspelt-type-name", "number-as-type-name", "list-as-type-name"]
EDIT_CHARS = ["\x00", "\ufeff", '"', "'", "\\", "(", ")", "[", "]", ",", ":", "=", "#", "\n", "\r", "\t", " ", "1", ".", "-", "e", "é", "\\x", "\\u12", "\\N{", "\\"]


def cases(ctx):
    rng = ctx.rng("cases")
    kinds = models.param_kinds()
    req = faults.required_params()
    # (a) matrix on per-command base models, including string/path confusions
    from mpv.props import c12
    idx = 0
    for cmd in sorted(kinds):
        m = c12._base_model_for(random.Random("%s:%s" % (ctx.seed, cmd)), cmd)
        if m is None:
            continue
        sites = [s for s in faults.applicable(m, kinds, req) if m["commands"][s[1]]["cmd"] == cmd]
        for i, c in enumerate(m["commands"]):
            if c["cmd"] != cmd:
                continue
            for p in c["args"]:
                k = kinds[cmd].get(p)
                for label, raw, py in EXTRA_WRONG.get(k, []):
                    sites.append(("extra-kind", i, p, label))
        for site in sites:
            if ctx.mine(idx):
                yield {"kind": "fault", "model": m, "site": list(site), "rseed": idx, "cli": True}
            idx += 1
    for i in range(ctx.n(300, 20000)):
        m = models.gen_model(rng, n_ops=rng.randint(2, 7), sinks=True)
        sites = faults.applicable(m, kinds, req)
        yield {"kind": "fault", "model": m, "site": list(rng.choice(sites)), "rseed": rng.randrange(10 ** 9), "cli": i % 2 == 0}
    # (b) text corruptions
    for i in range(ctx.n(1500, 120000)):
        if rng.random() < 0.5:
            m = models.gen_model(rng, n_ops=rng.randint(1, 4), sinks=rng.random() < 0.5)
            text, _ = models.to_text(m, random.Random(rng.randrange(10 ** 9)), "wild")
            table = m["table"]
        else:
            text = syntax.render(syntax.gen_program(rng, max_cmds=3, max_args=3), random.Random(rng.randrange(10 ** 9)), "wild")
            table = None
        if rng.random() < 0.08:
            t2 = _dup_argument(rng, text)
            if t2:
                yield {"kind": "text", "text": t2, "table": table}
                continue
        yield {"kind": "text", "text": _edit(rng, text), "table": table}
    for special in ("A = C(P = " + "x" * 10000 + ")", "A = C(P = \"" + "y" * 10000 + "\")", "A = C(P = " + "[" * 6 + "1" + "]" * 6 + ")", "A = C(P = " + "[" * 40 + "1" + "]" * 40 + ")",
                    "", "   ", "\n\n", "#only a comment", "A", "A =", "A = C", "A = C(", "= C()", "A = C()()", "A = 1()", "1 = C()", "A = C(P = 1 2 3)", "A = EEMSRead(InFileName = \"da\\0ta.csv\", InFieldName = X)", "A = EEMSRead(InFileName = da\x00ta.csv, InFieldName = X)", "A = EEMSRead(InFileName = \"\", InFieldName = X)",
                    "A = EEMSRead(InFileName = \"" + "d/" * 3000 + "x.csv\", InFieldName = X)", "A = PrintVars(InFieldNames = [], OutFileName = \"o\\0ut.txt\")",
                    "A = C(P = [a: b: c])", "A = C(P = [a, b: c])", "A = C(P = [1, [2, x: y]])", "A = C(P = [a, b: c, d])", "A = Sum(InFieldNames = [A, B: C])",
                    "A = C(P = [a: [1]])", "A = C(P = [[a: b]])", "A = C(P = \"\\N{BULLET}\")", "A = C(P = '\\x4')", "A = C(P = \"\\u12\")", "A = C(P = \"\\777\")", "\ufeffA = C(P = 1)",
                    "A = C(P = 1)\x00", "A = C(P = \x00)", "A = EEMSRead(InFileName = 5, InFieldName = 6)", "A = EEMSRead(InFileName = [a], InFieldName = [b: c])",
                    "A = Sum(InFieldNames = A)", "A = Sum(InFieldNames = [A])", "A = Copy(InFieldName = A, Metadata = 5)", "A = Copy(InFieldName = B, Metadata = [1, 2])",
                    "A = Copy(InFieldName = B, InFieldName = B)", 'A = EEMSRead(InFileName = "x.csv", InFileName = "y.csv", InFieldName = X)', "A = C(P = 1, P = 2)\nB = C(Q = 1)", "A = C(P = 1)\nB = C(Q = 1, Q = [2])",
                    "READ(InFileName = x, InFileName = y, InFieldName = A)", "A = Sum(InFieldNames = [B], InFieldNames = [C], Metadata = [a: b], Metadata = [a: c])",
                    "READ(InFileName = x)", "READ()", "CVTTOFUZZY(InFieldName = [a])", "SUM(NewFieldName = [a, b], InFieldNames = [a])",
                    # syntax errors on later lines of texts whose line ends are lone carriage returns (or mixed)
                    "A = C(P = 1)\rB = C(Q = )", "A = C(P = 1)\r\rB = = C()", "A = C(P = 1)\rB = C(Q = \"x)\rD = C()", "A = C(P = 1)\r\nB = C(\rQ = ]\r)", "# c\rA = C(P = [1, 2)\r", "A = C()\rB = C()\rD = C(P = $)",
                    "A = C(P = 1)\rB = C(Q = 'unterminated\r", "\r\r\rA = C(P = ))",
                    # numbers written with thousands of digits (whole, decimal, exponent, negative; as a value, in a list, as a tuple value)
                    "A = C(P = " + "9" * 5000 + ")", "A = C(P = -" + "1" * 4301 + ")", "A = C(P = [1, " + "7" * 6000 + "])", "A = C(P = [k: " + "3" * 4400 + "])", "A = C(P = 0." + "9" * 5000 + ")",
                    "A = C(P = " + "9" * 5000 + "e5)", "A = C(P = 1e" + "9" * 500 + ")", "A = Sum(InFieldNames = [B], Weights = [" + "9" * 5000 + "])", "A = C(P = " + "0" * 5000 + "1)"):
        if ctx.shard == 0:
            yield {"kind": "text", "text": special, "table": None, "special": True}
    # very deep models (listed top-down and bottom-up) and a very long ring: whatever happens must be an MPilot error
    if ctx.shard == 0:
        for n in (1100, 3000):
            chain = ["N%d = Copy(InFieldName = N%d)" % (i, i + 1) for i in range(n)] + ['N%d = EEMSRead(InFileName = "in.csv", InFieldName = "X0")' % n]
            yield {"kind": "text", "text": "\n".join(chain), "table": {"cols": {"X0": {"data": [1, 2], "integer": True}}, "nrows": 2, "missing": None, "file": "in.csv"}, "nocli": True}
            yield {"kind": "text", "text": "\n".join(reversed(chain)), "table": {"cols": {"X0": {"data": [1, 2], "integer": True}}, "nrows": 2, "missing": None, "file": "in.csv"}, "nocli": True}
            ring = ["N%d = Copy(InFieldName = N%d)" % (i, (i + 1) % n) for i in range(n)]
            yield {"kind": "text", "text": "\n".join(ring), "table": None, "nocli": True}
    # (c) CSV faults
    for i in range(ctx.n(500, 30000)):
        m = models.gen_model(rng, n_ops=rng.randint(1, 4), sinks=rng.random() < 0.4)
        yield {"kind": "csv", "model": m, "fault": CSV_FAULTS[i % len(CSV_FAULTS)], "rseed": rng.randrange(10 ** 9), "cli": i % 3 == 0}
    # NetCDF content faults under valid NetCDF models
    for i in range(ctx.n(120, 6000)):
        m = models.gen_model(rng, n_ops=rng.randint(1, 4), sinks=True, libs="nc")
        yield {"kind": "nc", "model": m, "fault": NC_FAULTS[i % len(NC_FAULTS)], "rseed": rng.randrange(10 ** 9)}
    # (d) I/O faults
    for i in range(ctx.n(300, 15000)):
        m = models.gen_model(rng, n_ops=rng.randint(1, 4), sinks=True)
        yield {"kind": "io", "model": m, "nth": rng.randint(1, 4), "exc": rng.choice(["PermissionError", "OSError", "IsADirectoryError", "FileNotFoundError"])}
    # models built through add_command with Command *objects* as result arguments: the program's own commands, stand-alone
    # finished commands holding data (as the repository's tests build them), commands of another Program
    for i in range(ctx.n(200, 10000)):
        m = models.gen_model(rng, n_ops=rng.randint(1, 6), sinks=True)
        yield {"kind": "apiobj", "model": m, "mode": ["own", "standalone", "other-program", "standalone"][i % 4], "rseed": rng.randrange(10 ** 9)}
    # values that are almost of the expected type, given through the programming interface
    for i in range(ctx.n(160, 6000)):
        yield {"kind": "apinear", "variant": i * ctx.nshards + ctx.shard, "rseed": rng.randrange(10 ** 9)}
    for i in range(ctx.n(30, 1500)):
        yield {"kind": "apicycle", "variant": i % 3, "rseed": rng.randrange(10 ** 9)}
    for i in range(ctx.n(40, 2000)):
        yield {"kind": "editrun", "variant": i % 4, "rseed": rng.randrange(10 ** 9), "model": models.gen_model(rng, n_ops=rng.randint(1, 5), sinks=True)}
    # (e) run-time faults through API and CLI
    for i in range(ctx.n(300, 15000)):
        yield {"kind": "runtime", "fault": rng.choice(["shape", "shape", "weights", "empty", "k-too-big", "bad-direction", "bad-truest", "dup-raw", "len-mismatch", "equal-thresholds"]),
               "rseed": rng.randrange(10 ** 9)}


def _dup_argument(rng, text):
    """Repeats one 'name = value' argument of one command (the last command included)."""
    import re
    ms = list(re.finditer(r"([A-Za-z_][A-Za-z0-9_]*)\s*=\s*([A-Za-z0-9_.\"']+)\s*(?=[,)])", text))
    if not ms:
        return None
    m = rng.choice(ms[-3:] if rng.random() < 0.6 else ms)
    return text[:m.end()] + ", " + m.group(0) + text[m.end():]


def _edit(rng, text):
    n = rng.choice([1, 1, 1, 2, 3])
    for _ in range(n):
        if not text:
            break
        i = rng.randrange(len(text) + 1)
        op = rng.choice(["del", "ins", "rep", "dupspan", "delspan"])
        if op == "del" and i < len(text):
            text = text[:i] + text[i + 1:]
        elif op == "ins":
            text = text[:i] + rng.choice(EDIT_CHARS) + text[i:]
        elif op == "rep" and i < len(text):
            text = text[:i] + rng.choice(EDIT_CHARS) + text[i + 1:]
        elif op == "dupspan":
            j = min(len(text), i + rng.randint(1, 12))
            text = text[:j] + text[i:j] + text[j:]
        else:
            j = min(len(text), i + rng.randint(1, 12))
            text = text[:i] + text[j:]
    return text


class _Boundary(object):
    """Runs load + run and records what escaped."""

    def __init__(self, text, d, libs=arr.CSV_LIBS, api_model=None):
        from mpilot.program import Program
        self.exc = None
        self.stage = "done"
        try:
            self.stage = "load"
            prog = Program.from_source(text, libraries=libs, working_dir=d) if api_model is None else models.build_api(api_model, d, libs)
            self.stage = "run"
            prog.run()
            self.stage = "done"
        except RecursionError as e:
            self.exc = e
        except Exception as e:
            self.exc = e


def _classify(ctx, b, tag, detail):
    """Returns True when an MPilotError escaped (so the CLI part applies)."""
    from mpilot.exceptions import MPilotError
    ctx.count("boundary_outcomes_recorded")
    e = b.exc
    if e is None:
        return False
    if isinstance(e, MPilotError):
        ctx.count("mpilot_errors_seen")
        if len(ctx.samples) < 6 and (not ctx.samples or ctx.samples[-1].get("tag", "").split(":")[0] != tag.split(":")[0]):
            ctx.sample({"tag": tag, "escaped": type(e).__name__, "stage": b.stage, "input": {k: (v if not isinstance(v, str) else v[:200]) for k, v in detail.items()}})
        try:
            s = str(e)
            ctx.count("error_messages_rendered")
            if "Problem" not in s and "Solution" not in s and type(e).__name__ not in ("MPilotError", "ProgramError"):
                ctx.dontcare("message without Problem/Solution for %s" % type(e).__name__)
        except Exception as ee:
            ctx.fail("%s:str-of-%s-raises-%s" % (tag.split(":")[0], type(e).__name__, type(ee).__name__), dict(detail, error=repr(ee)[:200]))
        return True
    if isinstance(e, SyntaxError):
        return False
    import traceback
    tb = traceback.extract_tb(e.__traceback__)
    inner = [f for f in tb if "/mpilot/" in f.filename]
    where = "%s:%s" % (os.path.basename(inner[-1].filename), inner[-1].name) if inner else "?"
    ctx.fail("%s:escapes-%s@%s:%s" % (tag, type(e).__name__, where, b.stage), dict(detail, error=repr(e)[:300]))
    return False


_sub = {"n": 0}


def _cli_subprocess(ctx, path, tag, detail):
    """The real console entry point in its own process (a sample: ~0.4 s each)."""
    import subprocess
    import sys
    try:
        r = subprocess.run([sys.executable, "-c", "import sys; from mpilot.cli.mpilot import main; sys.argv = ['mpilot'] + sys.argv[1:]; main()", "eems-csv", path],
                           capture_output=True, text=True, timeout=120)
    except subprocess.TimeoutExpired:
        ctx.note_inconclusive("CLI subprocess timed out")
        return
    ctx.count("cli_subprocess_runs")
    if r.returncode != 0 and "Traceback (most recent call last)" not in r.stderr:
        # the same file as a user starts it: from its own directory, by its bare name (and as ./name)
        from mpv import tool
        for how in (os.path.basename(path), "./" + os.path.basename(path)):
            r2 = tool.run_tool(["eems-csv", how], cwd=os.path.dirname(path))
            if r2 is None:
                continue
            ctx.count("cli_subprocess_runs")
            first = [ln for ln in r.stderr.splitlines() if ln.startswith("Problem")][:1]
            first2 = [ln for ln in r2[2].splitlines() if ln.startswith("Problem")][:1]
            if r2[0] == 0 or "Traceback (most recent call last)" in r2[2] and "Problem: An unexpected error occurred" not in r2[2] or bool(first) != bool(first2):
                ctx.fail("%s:cli-process-started-in-the-directory-of-the-file-behaves-differently" % tag.split(":")[0], dict(detail, invoked_as=how, exit=r2[0], stderr=r2[2][-400:], with_full_path=r.stderr[-200:]))
                return
    if r.returncode == 0:
        ctx.fail("%s:cli-process-exit-0" % tag, dict(detail, stderr=r.stderr[-300:]))
    elif "Traceback (most recent call last)" in r.stderr and "Problem: An unexpected error occurred" not in r.stderr:
        ctx.fail("%s:cli-process-traceback" % tag, dict(detail, stderr=r.stderr[-500:]))
    elif "Problem" not in r.stderr or "Solution" not in r.stderr:
        ctx.fail("%s:cli-process-no-problem-solution-text" % tag, dict(detail, stderr=r.stderr[-400:], exit=r.returncode))


def _cli(ctx, text, d, tag, detail, expect_error=True, api_exc=None, api_dir=None):
    from click.testing import CliRunner
    from mpilot.cli.mpilot import main
    path = os.path.join(d, "model.mpt")
    with open(path, "w", encoding="utf-8") as f:
        f.write(text)
    _sub["n"] += 1
    if _sub["n"] % (60 if ctx.quick else 400) == 1 and api_exc is not None and type(api_exc).__name__ not in ("MPilotError", "ProgramError"):
        _cli_subprocess(ctx, path, tag, detail)
    try:
        res = CliRunner(mix_stderr=False).invoke(main, ["eems-csv", path])
    except TypeError:
        res = CliRunner().invoke(main, ["eems-csv", path])
    ctx.count("cli_runs_checked")
    try:
        stderr = res.stderr
    except Exception:
        stderr = res.output
    if res.exception is not None and not isinstance(res.exception, SystemExit):
        ctx.fail("%s:cli-dies-with-%s" % (tag, type(res.exception).__name__), dict(detail, error=repr(res.exception)[:300]))
        return
    if res.exit_code == 0:
        ctx.fail("%s:cli-exit-0" % tag, dict(detail, stderr=stderr[-300:]))
        return
    if "Problem" not in stderr or "Solution" not in stderr:
        if api_exc is not None and type(api_exc).__name__ in ("MPilotError", "ProgramError"):
            ctx.dontcare("generic ProgramError message without Problem/Solution")
        else:
            ctx.fail("%s:cli-no-problem-solution-text" % tag, dict(detail, stderr=stderr[-400:], exit=res.exit_code))
    elif api_exc is not None and type(api_exc).__name__ != "UnexpectedError":
        try:
            first = str(api_exc).split("\n")[0]
            if api_dir:
                first = first.replace(api_dir, d)
        except Exception:
            first = None
        import re as _re
        norm = lambda t: _re.sub(r"0x[0-9a-fA-F]+", "0x?", t)   # object addresses differ between the two runs
        if first and norm(first) not in norm(stderr):
            ctx.fail("%s:cli-message-differs" % tag, dict(detail, want=first[:200], stderr=stderr[-400:]))


class _Outcome(object):
    exc, stage = None, "done"


def _near_values():
    import collections
    import pathlib
    from fractions import Fraction
    from decimal import Decimal
    return [("0-d-array", numpy.array(3.0)), ("0-d-int-array", numpy.array(2)), ("numpy-float32", numpy.float32(1.5)), ("numpy-int64", numpy.int64(3)), ("numpy-bool", numpy.bool_(True)),
            ("bytes-ascii", b"in.csv"), ("bytes-latin1", "caf\xe9.csv".encode("latin-1")), ("bytes-utf8", "caf\xe9.csv".encode("utf-8")), ("path", pathlib.Path("in.csv")),
            ("fraction", Fraction(3, 2)), ("decimal", Decimal("1.5")), ("ordered-dict", collections.OrderedDict([("a", "b")])), ("tuple", ("A", "A")), ("generator-like-range", range(2)),
            ("set", {"A"}), ("frozenset", frozenset(["A"])), ("complex", 1 + 2j), ("none", None), ("1-element-array", numpy.array([1.5])), ("str-subclass", type("S", (str,), {})("A")),
            ("int-subclass", type("I", (int,), {})(2)), ("list-subclass", type("L", (list,), {})(["A"])), ("dict-subclass", type("D", (dict,), {})(a="b")),
            ("text-ratio-over-zero", "1/0"), ("text-zero-over-zero", "0/0"), ("text-ratio-over-decimal-zero", "1/0.0"), ("text-ratio", "2/3"), ("text-percent", "50%"), ("text-exponent-only", "e5"),
            ("text-hex", "0x1F"), ("text-underscore-number", "1_000"), ("text-infinity", "Infinity"), ("text-many-digits", "9" * 5000)]


def run_apinear(ctx, case):
    """One value that is almost of the expected type is given - through add_command - to one parameter of a command (built-in
    commands and a user's command with an untyped list): load + run succeeds or fails with an MPilot error."""
    from mpilot.program import Program
    vals = _near_values()
    label, val = vals[case["variant"] % len(vals)]
    rng = random.Random(case["rseed"])
    d = ctx.scratch()
    with open(os.path.join(d, "in.csv"), "w") as f:
        f.write("X0,X1\n1,2\n3,4\n5,7\n")
    sites = [("EEMSRead", "R", {"InFileName": val, "InFieldName": "X0"}), ("EEMSRead", "R", {"InFileName": "in.csv", "InFieldName": val}), ("EEMSRead", "R", {"InFileName": "in.csv", "InFieldName": "X0", "MissingVal": val}),
             ("EEMSRead", "R", {"InFileName": "in.csv", "InFieldName": "X0", "DataType": val}), ("Sum", "S", {"InFieldNames": val}), ("Sum", "S", {"InFieldNames": [val]}), ("Copy", "S", {"InFieldName": val}),
             ("WeightedSum", "S", {"InFieldNames": ["A"], "Weights": [val]}), ("WeightedSum", "S", {"InFieldNames": ["A"], "Weights": val}), ("CvtToFuzzy", "S", {"InFieldName": "A", "TrueThreshold": val, "FalseThreshold": 0}),
             ("CvtToFuzzy", "S", {"InFieldName": "A", "Direction": val}), ("NormalizeMeanToMid", "S", {"InFieldName": "A", "IgnoreZeros": val, "NormalValues": [0, 1, 2, 3, 4]}), ("Copy", "S", {"InFieldName": "A", "Metadata": val}),
             ("dif", "S", {"Anything": [val]}), ("dif", "S", {"Anything": val}), ("dif", "S", {"Anything": [[val], val]}), ("dif", "S", {"OutFileName": val}), ("dif", "S", {"V": val}), ("dif", "S", {"InFieldNames": [val]}),
             ("EEMSWrite", "W", {"OutFileName": val, "OutFieldNames": ["A"]}), ("PrintVars", "W", {"InFieldNames": ["A"], "OutFileName": val})]
    cmd, res, args = sites[rng.randrange(len(sites))]
    ctx.count("near_type_values_given")
    site = "%s.%s" % (cmd, [k for k, v in args.items() if v is val or (isinstance(v, list) and any(x is val or (isinstance(x, list) and val in x) for x in v))][0])
    ctx.feature(("apinear", label, site))
    b = _Outcome()
    try:
        b.stage = "load"
        prog = Program(libraries=arr.CSV_LIBS + ("usercmds",), working_dir=d)
        prog.add_command(prog.find_command_class("EEMSRead"), "A", {"InFileName": "in.csv", "InFieldName": "X1"})
        prog.add_command(prog.find_command_class(cmd), res, args)
        b.stage = "run"
        prog.run()
        b.stage = "done"
    except Exception as e:
        b.exc = e
    _classify(ctx, b, "api-value:%s" % label, {"value": label, "site": site})


def run_apicycle(ctx, case):
    """Rings of commands closed through add_command (no line numbers), alone or completing a forward reference of a loaded
    file: load + run ends with an MPilot error, never with a raw exception."""
    from mpilot.program import Program
    rng = random.Random(case["rseed"])
    d = ctx.scratch()
    with open(os.path.join(d, "in.csv"), "w") as f:
        f.write("X0,X1\n1,2\n3,4\n")
    k = rng.randint(2, 5)
    names = ["R%d" % i for i in range(k)]
    ctx.count("api_rings_built")
    ctx.feature(("apicycle", case["variant"], k))
    b = _Outcome()
    try:
        b.stage = "load"
        if case["variant"] == 0:
            prog = Program(libraries=arr.CSV_LIBS, working_dir=d)
            first = 0
        else:
            # the file refers forward to a result that a later add_command supplies - closing a ring
            text = 'A = EEMSRead(InFileName = "in.csv", InFieldName = X0)\n%s = Sum(InFieldNames = [A, %s])\n' % (names[0], names[1])
            prog = Program.from_source(text, libraries=arr.CSV_LIBS, working_dir=d)
            first = 1
        for i in range(first, k):
            nxt = names[(i + 1) % k]
            if rng.random() < 0.5:
                prog.add_command(prog.find_command_class("Copy"), names[i], {"InFieldName": nxt})
            else:
                prog.add_command(prog.find_command_class("Sum"), names[i], {"InFieldNames": [nxt, nxt] if rng.random() < 0.5 else [nxt]}, **({"lineno": 40 + i} if case["variant"] == 2 and i % 2 else {}))
        b.stage = "run"
        prog.run()
        b.stage = "done"
    except Exception as e:
        b.exc = e
    if b.exc is None:
        ctx.dontcare("ring accepted (judged by C14)")
    _classify(ctx, b, "api-ring:%s" % ["pure", "closing-a-forward-reference", "some-with-line-numbers"][case["variant"]], {"ring": names})


def run_editrun(ctx, case):
    """A program is run, a command is removed the documented way (del program.commands[name]) or put back, and the program is
    run again - possibly after a first run that failed: whatever happens is a syntax error, an MPilot error, or success."""
    from mpilot.program import Program
    rng = random.Random(case["rseed"])
    model = case["model"]
    d = ctx.scratch()
    models.write_table(model["table"], d)
    text, _ = models.to_text(model)
    ctx.count("edited_programs_rerun")
    leaves = [c["result"] for c in model["commands"] if not any(c["result"] in models.deps_of(o) for o in model["commands"])]
    inner = [c["result"] for c in model["commands"] if c["result"] not in leaves]
    ctx.feature(("editrun", case["variant"], len(model["commands"])))
    b = _Outcome()
    try:
        b.stage = "load"
        prog = Program.from_source(text, working_dir=d)
        if case["variant"] == 1:
            os.remove(os.path.join(d, model["table"]["file"]))      # the first run fails: the input is not there
        b.stage = "first-run"
        try:
            prog.run()
        except Exception as e:
            from mpilot.exceptions import MPilotError
            if not isinstance(e, MPilotError):
                raise
        b.stage = "edit"
        victim = rng.choice(leaves if case["variant"] != 2 or not inner else inner)
        removed = prog.commands[victim]
        del prog.commands[victim]
        if case["variant"] == 1:
            models.write_table(model["table"], d)
        b.stage = "second-run"
        try:
            prog.run()
        except Exception as e:
            from mpilot.exceptions import MPilotError
            if not isinstance(e, MPilotError):
                raise
        if case["variant"] == 3:
            b.stage = "re-add"
            prog.add_command(type(removed), victim, {a.name: a.value for a in removed.arguments})
            b.stage = "third-run"
            prog.run()
        b.stage = "done"
    except Exception as e:
        b.exc = e
    _classify(ctx, b, "edited-program:%s" % ["leaf-removed", "leaf-removed-after-a-failed-run", "inner-command-removed", "leaf-removed-and-put-back"][case["variant"]], {"text": text[:600]})


def run_apiobj(ctx, case):
    import copy
    import numpy
    from mpilot.program import Program
    from mpilot.commands import Command
    model, mode = case["model"], case["mode"]
    rng = random.Random(case["rseed"])
    d = ctx.scratch()
    models.write_table(model["table"], d)
    ctx.count("api_object_reference_models")
    ctx.feature(("apiobj", mode, len(model["commands"])))
    b = _Outcome()
    objs = {}
    try:
        b.stage = "load"
        prog = Program(libraries=arr.CSV_LIBS, working_dir=d)
        other = Program(libraries=arr.CSV_LIBS, working_dir=d)
        for c in model["commands"]:
            args = copy.deepcopy(c["args"])
            if c["cmd"] == "EEMSRead" and mode == "standalone":
                col = model["table"]["cols"][args["InFieldName"]]
                a = numpy.ma.array(col["data"], dtype="int64" if col["integer"] else "float64")
                if model["table"]["missing"] is not None:
                    a = numpy.ma.masked_equal(a, model["table"]["missing"])
                cmd = Command(c["result"])
                cmd.is_finished = True
                cmd._result = a
                objs[c["result"]] = cmd
                continue
            target = other if (c["cmd"] == "EEMSRead" and mode == "other-program") else prog
            for k, v in list(args.items()):
                if k in ("InFieldName", "A", "B") and isinstance(v, str) and v in objs and c["cmd"] != "EEMSRead" and rng.random() < 0.8:
                    args[k] = objs[v]
                elif k in ("InFieldNames", "OutFieldNames") and isinstance(v, list):
                    args[k] = [objs[x] if x in objs and rng.random() < 0.8 else x for x in v]
            target.add_command(target.find_command_class(c["cmd"]), c["result"], args)
            objs[c["result"]] = target.commands[c["result"]]
        b.stage = "run"
        prog.run()
        b.stage = "done"
    except Exception as e:
        b.exc = e
    _classify(ctx, b, "api-objects:%s" % mode, {"mode": mode, "commands": [(c["result"], c["cmd"]) for c in model["commands"]]})


def run_case(ctx, case):
    k = case["kind"]
    return {"fault": run_fault, "text": run_text, "csv": run_csv, "io": run_io, "runtime": run_runtime, "nc": run_nc, "apiobj": run_apiobj, "apinear": run_apinear, "apicycle": run_apicycle, "editrun": run_editrun}[k](ctx, case)


def run_fault(ctx, case):
    import copy
    model, site = case["model"], tuple(case["site"])
    rng = random.Random(case["rseed"])
    if site[0] == "extra-kind":
        m = copy.deepcopy(model)
        c = m["commands"][site[1]]
        kind = models.param_kinds()[c["cmd"]][site[2]]
        label, raw, py = [w for w in EXTRA_WRONG[kind] if w[0] == site[3]][0]
        c.setdefault("raw_ast", {})[site[2]] = copy.deepcopy(raw)
        c["args"][site[2]] = py
        exp = {"fault": "extra-kind", "cmd": c["cmd"], "param": site[2], "variant": "%s<-%s" % (kind, label)}
    else:
        inj = faults.inject(model, site, rng)
        if not inj:
            return
        m, exp = inj
    d = ctx.scratch()
    models.write_table(m["table"], d)
    if case["rseed"] % 3 == 0 and exp["fault"] not in ("duplicate-result",):
        m = dict(m, commands=list(reversed(m["commands"])))       # consumers written before the commands they use (the order is free)
    text, _ = models.to_text(m)
    tag = "fault:%s:%s" % (exp["fault"], exp.get("variant") or exp.get("declared") or "-")
    ctx.feature(("fault", exp["fault"], exp["cmd"], exp.get("param"), exp.get("variant")))
    api = case["rseed"] % 3 == 1 and exp["fault"] != "unknown-command"
    if api:
        ctx.count("api_built_fault_models")
        tag = "api-" + tag
    b = _Boundary(text, d, api_model=m if api else None)
    detail = {"text": text[:1200], "expect": {k: v for k, v in exp.items() if k in ("fault", "cmd", "param", "variant")}, "built_through": "add_command" if api else "from_source"}
    if _classify(ctx, b, tag, detail) and case.get("cli") and not api:
        d2 = ctx.scratch()
        models.write_table(m["table"], d2)
        _cli(ctx, text, d2, tag, detail, api_exc=b.exc, api_dir=d)


def run_text(ctx, case):
    from mpilot.parser.parser import Parser
    text = case["text"]
    ctx.count("text_corruptions_run")
    d = ctx.scratch()
    if case.get("table"):
        models.write_table(case["table"], d)
    ctx.count("boundary_outcomes_recorded")
    detail = {"text": text[:800] if len(text) < 3000 else text[:200] + "...(%d chars)" % len(text)}
    try:
        Parser().parse(text)
        outcome = "parsed"
    except SyntaxError:
        outcome = "SyntaxError"
    except Exception as e:
        outcome = type(e).__name__
        import traceback
        tb = traceback.extract_tb(e.__traceback__)
        inner = [f for f in tb if "/mpilot/" in f.filename]
        where = "%s:%s" % (os.path.basename(inner[-1].filename), inner[-1].name) if inner else "?"
        ctx.fail("text:parse-escapes-%s@%s" % (type(e).__name__, where), dict(detail, error=repr(e)[:300]))
        return
    b = _Boundary(text, d)
    ctx.feature(("text", outcome, type(b.exc).__name__ if b.exc else "ok", b.stage))
    if _classify(ctx, b, "text", detail) and len(text) < 3000 and "\x00" not in text and not case.get("nocli"):
        if ctx.rng("cli", len(text)).random() < 0.25 or case.get("special"):      # (every hand-written text also goes through the tool)
            d2 = ctx.scratch()
            if case.get("table"):
                models.write_table(case["table"], d2)
            # the CLI re-reads the file with universal newlines; only judge texts it sees unchanged
            if "\r" not in text:
                _cli(ctx, text, d2, "text", detail, api_exc=b.exc, api_dir=d)
    elif isinstance(b.exc, SyntaxError) and len(text) < 3000 and "\x00" not in text and "\r" not in text and not case.get("nocli") \
            and (case.get("special") or ctx.rng("cli-syntax", len(text)).random() < 0.15):
        # a text the parser refuses, through the tool: the tool stops with that syntax error or with a report of its own and a
        # non-zero exit status - never with an exception of another kind
        from click.testing import CliRunner
        from mpilot.cli.mpilot import main
        d2 = ctx.scratch()
        path = os.path.join(d2, "model.mpt")
        with open(path, "w", encoding="utf-8") as f:
            f.write(text)
        try:
            res = CliRunner(mix_stderr=False).invoke(main, ["eems-csv", path])
        except TypeError:
            res = CliRunner().invoke(main, ["eems-csv", path])
        ctx.count("cli_runs_on_syntax_errors")
        if res.exception is not None and not isinstance(res.exception, (SystemExit, SyntaxError)):
            ctx.fail("text:cli-dies-with-%s-on-a-syntax-error" % type(res.exception).__name__, dict(detail, error=repr(res.exception)[:300], syntax_error=str(b.exc)[:200]))
        elif res.exception is None and res.exit_code == 0:
            ctx.fail("text:cli-exit-0-on-a-syntax-error", dict(detail, syntax_error=str(b.exc)[:200]))


def _write_bad_csv(rng, table, d, fault):
    names = list(table["cols"])
    rows = [[repr(table["cols"][n]["data"][r]) for n in names] for r in range(table["nrows"])]
    header = list(names)
    path = os.path.join(d, table["file"])
    raw = None
    if fault == "empty":
        raw = b""
    elif fault == "only-newlines":
        raw = b"\n\n\n"
    elif fault == "header-only":
        rows = []
    elif fault == "ragged-short":
        rows[rng.randrange(len(rows))] = rows[0][:max(0, len(names) - 1)]
        if len(names) == 1:
            rows[rng.randrange(len(rows))] = []
    elif fault == "ragged-long":
        rows[rng.randrange(len(rows))] = rows[0] + ["5", "6"]
    elif fault == "non-numeric":
        rows[rng.randrange(len(rows))][rng.randrange(len(names))] = rng.choice(["abc", "", "1,5", "NULL", "--", "1e", "0x10", "1_000"])
    elif fault == "missing-column":
        header = ["Q%d" % i for i in range(len(names))]
    elif fault == "dup-headers":
        header = [names[0]] * len(names)
    elif fault == "quoted-newline":
        rows[rng.randrange(len(rows))][0] = '"1\n2"'
    elif fault == "nul-byte":
        rows[rng.randrange(len(rows))][0] = "1\x002"
    elif fault == "non-utf8":
        raw = (",".join(header) + "\n" + "\n".join(",".join(r) for r in rows) + "\n").encode() + b"\xff\xfe1,2\n"
    elif fault == "huge-field":
        rows[rng.randrange(len(rows))][0] = "9" * 1000000
    elif fault in ("nan", "inf", "1e400"):
        rows[rng.randrange(len(rows))][rng.randrange(len(names))] = {"nan": "nan", "inf": rng.choice(["inf", "-inf", "Infinity"]), "1e400": "1e400"}[fault]
    elif fault == "blank-lines":
        rows.insert(rng.randrange(len(rows)), [])
        rows.append([])
    elif fault == "bom":
        header[0] = "\ufeff" + header[0]
    elif fault == "spaces":
        rows = [[" " + v + " " for v in r] for r in rows]
        header = [" " + h for h in header]
    if raw is None:
        raw = (",".join(header) + "\n" + "\n".join(",".join(r) for r in rows) + ("\n" if rows else "")).encode("utf-8")
    with open(path, "wb") as f:
        f.write(raw)


def run_csv(ctx, case):
    m = case["model"]
    rng = random.Random(case["rseed"])
    d = ctx.scratch()
    _write_bad_csv(rng, m["table"], d, case["fault"])
    text, _ = models.to_text(m)
    ctx.count("csv_faults_run")
    b = _Boundary(text, d)
    tag = "csv:%s" % case["fault"]
    ctx.feature(("csv", case["fault"], type(b.exc).__name__ if b.exc else "ok"))
    detail = {"csv_fault": case["fault"], "text": text[:600]}
    if _classify(ctx, b, tag, detail) and case.get("cli"):
        d2 = ctx.scratch()
        _write_bad_csv(random.Random(case["rseed"]), m["table"], d2, case["fault"])
        _cli(ctx, text, d2, tag, detail, api_exc=b.exc, api_dir=d)


def run_nc(ctx, case):
    import copy
    import numpy
    from netCDF4 import Dataset
    m = copy.deepcopy(case["model"])
    rng = random.Random(case["rseed"])
    f = case["fault"]
    d = ctx.scratch()
    models.write_table(m["table"], d)
    path = os.path.join(d, m["table"]["file"])
    reads = [c for c in m["commands"] if c["cmd"] == "EEMSRead"]
    writes = [c for c in m["commands"] if c["cmd"] == "EEMSWrite"]
    if f == "no-such-variable":
        reads[0]["args"]["InFieldName"] = "NoSuchVar"
    elif f == "not-a-netcdf-file":
        open(path, "w").write("this is not a NetCDF dataset\n")
    elif f == "empty-file":
        open(path, "w").close()
    elif f == "template-variable-missing" and writes:
        writes[0]["args"]["DimensionFieldName"] = "NoSuchVar"
    elif f == "template-without-dimension-variables" and writes:
        tp = os.path.join(d, "bare.nc")
        with Dataset(tp, "w") as ds:
            shape = m["table"].get("shape") or [m["table"]["nrows"]]
            for i_, n_ in enumerate(shape):
                ds.createDimension("d%d" % i_, n_)
            ds.createVariable("v", "f8", tuple("d%d" % i_ for i_ in range(len(shape))))
        writes[0]["args"].update({"DimensionFileName": "bare.nc", "DimensionFieldName": "v"})
    elif f == "result-named-like-dimension" and writes:
        tgt = writes[0]["args"]["OutFieldNames"][0]
        for c in m["commands"]:
            if c["result"] == tgt:
                c["result"] = "d0"
            for k, v in c["args"].items():
                if v == tgt:
                    c["args"][k] = "d0"
                elif isinstance(v, list):
                    c["args"][k] = ["d0" if x == tgt else x for x in v]
    elif f == "negative-as-positive":
        reads[0]["args"]["DataType"] = rng.choice(["Positive Float", "Positive Integer"])
    elif f == "out-of-range-as-fuzzy":
        reads[0]["args"]["DataType"] = "Fuzzy"
    elif f == "missing-value-not-a-number":
        reads[0]["args"]["MissingValue"] = "abc"
        reads[0].setdefault("raw_ast", {})["MissingValue"] = {"t": "ustr", "v": "abc", "cls": "word"}
    elif f in ("scalar-variable", "string-variable"):
        with Dataset(path, "a") as ds:
            if f == "scalar-variable":
                v = ds.createVariable("Odd", "f8", ())
                v[...] = 3.5
            else:
                ds.createDimension("nchar", 4)
                v = ds.createVariable("Odd", "S1", ("nchar",))
                v[:] = numpy.array(list("abcd"), dtype="S1")
        reads[0]["args"]["InFieldName"] = "Odd"
    elif f in ("misspelt-type-name", "number-as-type-name", "list-as-type-name"):
        bad_ = {"misspelt-type-name": rng.choice(["Fuzy", "Double", "float"]), "number-as-type-name": 4, "list-as-type-name": ["Float"]}[f]
        reads[0]["args"]["DataType"] = bad_
        reads[0].setdefault("raw_ast", {})["DataType"] = ({"t": "ustr", "v": bad_, "cls": "word"} if isinstance(bad_, str) else {"t": "int", "v": 4, "text": "4"} if isinstance(bad_, int)
                                                           else {"t": "list", "items": [{"t": "ustr", "v": "Float", "cls": "word"}], "trail": False})
        # consumers written before the read (fuzzy operators and conversions among them), then the read
        m["commands"] = [c for c in m["commands"] if c is not reads[0]] + [reads[0]]
        m["commands"].insert(0, {"result": "Early_%d" % (case["rseed"] % 97), "cmd": rng.choice(["Sum", "CvtToFuzzy", "Copy"]), "args": ({"InFieldNames": [reads[0]["result"]]} if False else {"InFieldName": reads[0]["result"]})})
        if m["commands"][0]["cmd"] == "Sum":
            m["commands"][0]["args"] = {"InFieldNames": [reads[0]["result"], reads[0]["result"]]}
    elif f == "duplicate-output-names" and writes:
        writes[0]["args"]["OutFieldNames"] = writes[0]["args"]["OutFieldNames"] * 2
    elif f == "unwritable-output" and writes:
        os.makedirs(os.path.join(d, "out.nc"))       # the output path is a directory
    text, _ = models.to_text(m)
    ctx.count("netcdf_faults_run")
    b = _Boundary(text, d, libs=arr.NC_LIBS)
    ctx.feature(("nc", f, type(b.exc).__name__ if b.exc else "ok"))
    _classify(ctx, b, "nc:%s" % f, {"nc_fault": f, "text": text[:700]})


def run_io(ctx, case):
    """open() fails at the n-th call made during run() (paths under the case directory only)."""
    from mpilot.program import Program
    m = case["model"]
    d = ctx.scratch()
    models.write_table(m["table"], d)
    text, _ = models.to_text(m)
    real_open = builtins.open
    state = {"n": 0, "raised": False}
    exc_cls = getattr(builtins, case["exc"])

    def failing_open(file, *a, **kw):
        try:
            p = os.path.abspath(os.fspath(file))
        except TypeError:
            return real_open(file, *a, **kw)
        if p.startswith(d):
            state["n"] += 1
            if state["n"] == case["nth"]:
                state["raised"] = True
                raise exc_cls(13, "injected I/O fault", p)
        return real_open(file, *a, **kw)

    class B(object):
        exc = None
        stage = "load"
    b = B()
    try:
        prog = Program.from_source(text, working_dir=d)
        b.stage = "run"
        builtins.open = failing_open
        try:
            prog.run()
        finally:
            builtins.open = real_open
        b.stage = "done"
    except Exception as e:
        b.exc = e
    finally:
        builtins.open = real_open
    if state["raised"]:
        ctx.count("io_faults_injected")
    ctx.feature(("io", case["exc"], case["nth"], type(b.exc).__name__ if b.exc else "ok"))
    _classify(ctx, b, "io:%s" % case["exc"], {"nth": case["nth"], "text": text[:600], "raised": state["raised"]})


def run_runtime(ctx, case):
    rng = random.Random(case["rseed"])
    f = case["fault"]
    d = ctx.scratch()
    # two tables with different row counts give mismatched shapes
    t1 = models.gen_table(rng, ncols=2, nrows=rng.randint(2, 6))
    t2 = models.gen_table(rng, ncols=1, nrows=t1["nrows"] + rng.randint(1, 3))
    t2["file"] = "other.csv"
    t1["missing"] = t2["missing"] = None
    for t in (t1, t2):
        for c in t["cols"].values():
            c["data"] = [v if v not in (-9999, 99) else 1 for v in c["data"]]
        models.write_table(t, d)
    lines = ['A = EEMSRead(InFileName = "in.csv", InFieldName = "X0")', 'B = EEMSRead(InFileName = "in.csv", InFieldName = "X1")',
             'C = EEMSRead(InFileName = "other.csv", InFieldName = "X0")', 'FA = CvtToFuzzy(InFieldName = A, TrueThreshold = 10, FalseThreshold = -10)',
             'FC = CvtToFuzzy(InFieldName = C, TrueThreshold = 10, FalseThreshold = -10)']
    if f == "shape":
        cmd = rng.choice(["Sum", "Multiply", "Mean", "Minimum", "Maximum", "AMinusB", "ADividedByB", "WeightedSum", "WeightedMean", "FuzzyOr", "FuzzyAnd", "FuzzyUnion",
                          "FuzzyXOr", "FuzzySelectedUnion", "FuzzyWeightedUnion", "EEMSWrite"])
        if cmd in ("AMinusB", "ADividedByB"):
            lines.append("R = %s(A = A, B = C)" % cmd)
        elif cmd.startswith("Fuzzy"):
            extra = ", Weights = [1, 2]" if cmd == "FuzzyWeightedUnion" else ", TruestOrFalsest = Truest, NumberToConsider = 1" if cmd == "FuzzySelectedUnion" else ""
            lines.append("R = %s(InFieldNames = [FA, FC]%s)" % (cmd, extra))
        elif cmd == "EEMSWrite":
            lines.append('R = EEMSWrite(OutFileName = "o.csv", OutFieldNames = [A, C])')
        else:
            extra = ", Weights = [1, 2]" if cmd.startswith("Weighted") else ""
            lines.append("R = %s(InFieldNames = [A, C]%s)" % (cmd, extra))
        tag = "runtime:shape"
    elif f == "weights":
        cmd = rng.choice(["WeightedSum", "WeightedMean", "FuzzyWeightedUnion"])
        src = "[FA, FA]" if cmd.startswith("Fuzzy") else "[A, B]"
        lines.append("R = %s(InFieldNames = %s, Weights = %s)" % (cmd, src, rng.choice(["[1]", "[1, 2, 3]", "[]"])))
        tag = "runtime:weights"
    elif f == "empty":
        cmd = rng.choice(["Sum", "Multiply", "Mean", "Minimum", "Maximum", "WeightedSum", "FuzzyOr", "FuzzyAnd", "FuzzyUnion", "FuzzyXOr", "FuzzySelectedUnion", "FuzzyWeightedUnion", "EEMSWrite", "PrintVars"])
        extra = ", Weights = []" if "Weighted" in cmd else ", TruestOrFalsest = Truest, NumberToConsider = 1" if cmd == "FuzzySelectedUnion" else ""
        if cmd == "EEMSWrite":
            lines.append('R = EEMSWrite(OutFileName = "o.csv", OutFieldNames = [])')
        else:
            lines.append("R = %s(InFieldNames = []%s)" % (cmd, extra))
        tag = "runtime:empty"
    elif f == "k-too-big":
        lines.append("R = FuzzySelectedUnion(InFieldNames = [FA, FA], TruestOrFalsest = Truest, NumberToConsider = %s)" % rng.choice(["3", "0", "-1", "1.5", "2.0"]))
        tag = "runtime:k"
    elif f == "bad-direction":
        lines.append(rng.choice(["R = CvtToFuzzy(InFieldName = A, Direction = Sideways)", "R = CvtToBinary(InFieldName = A, Threshold = 1, Direction = up)",
                                 "R = CvtToBinary(InFieldName = A, Threshold = 1, Direction = 5)"]))
        tag = "runtime:direction"
    elif f == "bad-truest":
        lines.append("R = FuzzySelectedUnion(InFieldNames = [FA], TruestOrFalsest = Middle, NumberToConsider = 1)")
        tag = "runtime:truest"
    elif f == "dup-raw":
        lines.append(rng.choice(["R = NormalizeCat(InFieldName = A, RawValues = [1, 1], NormalValues = [2, 3], DefaultNormalValue = 0)",
                                 "R = CvtToFuzzyCurve(InFieldName = A, RawValues = [1, 1.0], FuzzyValues = [0, 1])"]))
        tag = "runtime:dup-raw"
    elif f == "len-mismatch":
        lines.append(rng.choice(["R = NormalizeCat(InFieldName = A, RawValues = [1, 2], NormalValues = [2], DefaultNormalValue = 0)",
                                 "R = CvtToFuzzyCurve(InFieldName = A, RawValues = [1], FuzzyValues = [0, 1])", "R = NormalizeCurve(InFieldName = A, RawValues = [], NormalValues = [])",
                                 "R = CvtToFuzzyCurveZScore(InFieldName = A, ZScoreValues = [1, 2], FuzzyValues = [0])", "R = CvtToFuzzyCurveZScore(InFieldName = A, ZScoreValues = [], FuzzyValues = [])",
                                 "R = CvtToFuzzyMeanToMid(InFieldName = A, IgnoreZeros = False, FuzzyValues = [0, 1])", "R = NormalizeMeanToMid(InFieldName = A, IgnoreZeros = True, NormalValues = [])"]))
        tag = "runtime:len-mismatch"
    else:
        lines.append(rng.choice(["R = CvtToFuzzy(InFieldName = A, TrueThreshold = 1, FalseThreshold = 1)", "R = CvtFromFuzzy(InFieldName = FA, TrueThreshold = 2, FalseThreshold = 2.0)"]))
        tag = "runtime:equal-thresholds"
    rng.shuffle(lines)
    text = "\n".join(lines)
    ctx.feature(("runtime", tag))
    b = _Boundary(text, d)
    detail = {"text": text}
    if _classify(ctx, b, tag, detail):
        d2 = ctx.scratch()
        for t in (t1, t2):
            models.write_table(t, d2)
        _cli(ctx, text, d2, tag, detail, api_exc=b.exc, api_dir=d)
