"""C14 - cyclic models are rejected, never silently skipped.

Monitor: outcome recorder around Program.run() (normal return / exception class / cause chain), run-depth counter on
Command.run (the recorder's wrapper) and the execute log, over *all* labelled digraphs on <=4 commands that contain a cycle
(sampled in the quick tier) and random ones on 5-8, each edge realised as a direct parameter or inside a (nested) list, in
shuffled textual order, over the probe library and over real EEMS commands.
"""
import itertools
import random
import re

from mpv import arr, models, trace

ANCHORS = ['mpilot/program.py:Program.run', 'mpilot/exceptions.py:RecursiveModelStructure.__str__']   # repository functions the workload must enter (reported as anchors_reached / anchors_missed)
LEVEL = "fault_enumeration"
RULE = ("labelled digraphs with at least one cycle (self-loops, 2-cycles, longer cycles, cycles with tails, with separate acyclic "
        "components) on 1-4 commands enumerated (quick: sampled), 5-8 random; edge realisation in {direct, list, nested list, mixed}; "
        "probe library and real EEMS commands; distinct by (n, canonical cycle structure: self-loop / 2-cycle / longer, has-tail, "
        "has-acyclic-part, realisation, library)")
REQUIRED_COUNTERS = ["cyclic_programs_run", "recursive_model_errors_seen", "run_depth_observations", "api_built_programs", "late_cycle_closures", "second_runs_of_rejected_programs", "eems2_self_references", "results_read_before_the_run", "cycle_members_with_injected_results", "cyclic_files_through_the_tool"]
EXHAUSTIVE = {"thorough": False}
EXHAUSTIVE_NOTE = "thorough tier enumerates every cyclic labelled digraph on 1-4 commands (64 839 edge sets) in one realisation each plus random realisations"
ASSUMPTIONS = ["whether commands outside the cycle executed before the rejection is not judged", "lineno of the error: any value"]


def has_cycle(n, edges):
    adj = {i: [j for (a, j) in edges if a == i] for i in range(n)}
    color = {}

    def dfs(u):
        color[u] = 1
        for v in adj[u]:
            if color.get(v) == 1:
                return True
            if v not in color and dfs(v):
                return True
        color[u] = 2
        return False
    return any(dfs(i) for i in range(n) if i not in color)


def structure(n, edges):
    es = set(edges)
    selfloop = any(a == b for a, b in es)
    two = any((b, a) in es for a, b in es if a != b)
    # nodes on some cycle: u reaches itself
    adj = {i: [j for (a, j) in es if a == i] for i in range(n)}

    def reach(u):
        seen, st = set(), list(adj[u])
        while st:
            v = st.pop()
            if v not in seen:
                seen.add(v)
                st.extend(adj[v])
        return seen
    on = [i for i in range(n) if i in reach(i)]
    off = [i for i in range(n) if i not in on]
    tail = any(any(j in on for j in reach(i)) for i in off) or any(any(j in off for j in adj[i]) for i in on)
    return ("self" if selfloop else "", "2cyc" if two else "", "long" if on and not selfloop and not two else "", len(on), "tail" if tail else "", "free" if off else "")


def all_edge_sets(n):
    pairs = [(a, b) for a in range(n) for b in range(n)]
    for mask in range(1, 1 << len(pairs)):
        yield [pairs[i] for i in range(len(pairs)) if mask >> i & 1]


def cases(ctx):
    rng = ctx.rng("cases")
    idx = 0
    for n in (1, 2, 3, 4):
        for edges in all_edge_sets(n):
            if n == 4 and ctx.quick and (idx % 23) != 0:
                idx += 1
                continue
            if ctx.mine(idx) and has_cycle(n, edges):
                yield {"n": n, "edges": [list(e) for e in edges], "real": rng.choice(["direct", "list", "nested", "mixed", "mixed"]),
                       "lib": "eems" if idx % 5 == 0 else "probe", "order": rng.randrange(10 ** 6), "multiline": idx % 3 == 0, "dupe": idx % 4 == 1,
                       "sorted_order": idx % 3 == 0 and idx % 2 == 0, "api": idx % 5 == 2, "noout": idx % 7 == 3, "late": idx % 11 == 4}
            idx += 1
    # the smallest programs there are: one command that refers to itself, and nothing else in the program
    k1 = 0
    for real in ("direct", "list", "nested"):
        for api in (False, True):
            for dupe in (False, True):
                if ctx.mine(k1):
                    yield {"n": 1, "edges": [[0, 0]], "real": real, "lib": "probe", "order": 1 + k1 * 15, "multiline": k1 % 2 == 0, "dupe": dupe, "sorted_order": False, "api": api, "noout": k1 % 5 == 4, "late": False}
                k1 += 1
    for i in range(ctx.n(2, 10)):
        yield {"kind": "v2self", "variant": i * ctx.nshards + ctx.shard}
    for i in range(ctx.n(300, 20000)):
        n = rng.randint(5, 8)
        edges = set()
        for _ in range(rng.randint(n, 2 * n)):
            edges.add((rng.randrange(n), rng.randrange(n)))
        # plant a cycle
        k = rng.randint(1, min(4, n))
        cyc = rng.sample(range(n), k)
        for a, b in zip(cyc, cyc[1:] + cyc[:1]):
            edges.add((a, b))
        yield {"n": n, "edges": [list(e) for e in sorted(edges)], "real": rng.choice(["direct", "list", "nested", "mixed"]),
               "lib": rng.choice(["probe", "probe", "eems"]), "order": rng.randrange(10 ** 6), "multiline": rng.random() < 0.4, "dupe": rng.random() < 0.3,
               "sorted_order": rng.random() < 0.3, "api": rng.random() < 0.25, "noout": rng.random() < 0.2, "late": rng.random() < 0.15}


V2_SELF = [
    'READ(InFileName = "in.csv", InFieldName = X0)\nNOT(InFieldName = NotX)',
    'READ(InFileName = "in.csv", InFieldName = X0)\nCVTTOFUZZY(InFieldName = X0, NewFieldName = F)\nOR(InFieldNames = [F, G], NewFieldName = G)',
    'READ(InFileName = "in.csv", InFieldName = X0)\nCOPYFIELD(InFieldName = C)',
    'READ(InFileName = "in.csv", InFieldName = X0)\nSUM(InFieldNames = [X0, S], NewFieldName = S)\nCOPYFIELD(InFieldName = S, NewFieldName = T)',
    'READ(InFileName = "in.csv", InFieldName = X0)\nA = Copy(InFieldName = B)\nCOPYFIELD(InFieldName = A, NewFieldName = B)',
]


def run_v2self(ctx, case):
    """Commands written in EEMS 2.0 form whose (derived) result name is their own input, or that close a cycle with MPilot-form
    commands: loaded like any other file and rejected by run() with the recursive-model error."""
    from mpilot.program import Program
    text = V2_SELF[case["variant"] % len(V2_SELF)]
    d = ctx.scratch()
    with open(d + "/in.csv", "w") as f:
        f.write("X0\n1\n2\n3\n")
    ctx.count("cyclic_programs_run")
    ctx.count("eems2_self_references")
    ctx.feature(("v2self", case["variant"] % len(V2_SELF)))
    err = None
    stage = "load"
    try:
        prog = Program.from_source(text, working_dir=d)
        stage = "run"
        prog.run()
        stage = "done"
    except BaseException as e:
        err = e
    ctx.count("run_depth_observations")
    if err is None:
        ctx.fail("returned-normally:eems2-form", {"text": text})
    elif type(err).__name__ != "RecursiveModelStructure" or stage != "run":
        chain, e = [], err
        while e is not None and len(chain) < 4:
            chain.append(type(e).__name__)
            e = getattr(e, "exc", None) or e.__cause__
        ctx.fail("%s:eems2-form" % ("stack-exhausted" if "RecursionError" in chain else "wrong-error-%s-at-%s" % (chain[0], stage)), {"text": text, "error": str(err)[:200]})
    else:
        ctx.count("recursive_model_errors_seen")


def _layout(line, multi):
    """'N = Op(A = x, L = [..])' -> the one-argument-per-line layout Program.to_string() writes."""
    if not multi:
        return line
    head, rest = line.split("(", 1)
    body = rest[:-1]
    parts, depth, cur = [], 0, ""
    for ch in body:
        if ch == "[":
            depth += 1
        elif ch == "]":
            depth -= 1
        if ch == "," and depth == 0:
            parts.append(cur.strip())
            cur = ""
        else:
            cur += ch
    if cur.strip():
        parts.append(cur.strip())
    return head + "(\n    " + ",\n    ".join(parts) + "\n)"


def build_text(case):
    n, edges, real = case["n"], [tuple(e) for e in case["edges"]], case["real"]
    rng = random.Random(case["order"])
    multi = bool(case.get("multiline"))
    dupe = bool(case.get("dupe"))
    lines = []
    if case["lib"] == "probe":
        for i in range(n):
            outs = ["N%d" % j for (a, j) in edges if a == i]
            if dupe and outs:
                outs = outs + [outs[0]]          # the same result referenced twice by one command
            if case["order"] % 4 == 2 and not case.get("noout"):
                # commands that produce texts and take them where they declare paths
                lines.append("N%d = PathChain(%s)" % (i, ", ".join((["P = %s" % outs[0]] if outs else []) + (["L = [%s]" % ", ".join(outs[1:])] if len(outs) > 1 else []))))
                continue
            if not outs:
                lines.append("N%d = Src(V = %d)" % (i, i))
                continue
            mode = real if real != "mixed" else rng.choice(["direct", "list", "nested"])
            args = []
            if mode == "direct":
                args.append("A = %s" % outs[0])
                if len(outs) > 1:
                    args.append("B = %s" % outs[1])
                if len(outs) > 2:
                    args.append("L = [%s]" % ", ".join(outs[2:]))
            elif mode == "list":
                args.append("L = [%s]" % ", ".join(outs))
            else:
                half = max(1, len(outs) // 2)
                args.append("LL = [[%s], [%s]]" % (", ".join(outs[:half]), ", ".join(outs[half:])) if len(outs) > 1 else "N3 = [[[%s]]]" % outs[0])
            if case.get("noout") and mode in ("direct", "list"):
                # a command class without an output declaration, referenced through typed result parameters
                lines.append("N%d = NoOut(%s)" % (i, "A = %s" % outs[0] if len(outs) == 1 else "L = [%s]" % ", ".join(outs)))
            else:
                lines.append("N%d = %s(%s)" % (i, "IterOp" if (case["order"] + i) % 5 == 0 else "Op", ", ".join(args)))
        libs = ("vprobe",)
    else:
        if case["order"] % 9 == 4:
            lines.append('Leaf = EEMSRead(InFileName = "in.nc", InFieldName = "X0", DataType = "Fuzzy")')      # the NetCDF reader, its variable read as fuzzy
        else:
            lines.append('Leaf = EEMSRead(InFileName = "in.csv", InFieldName = "X0")')
        for i in range(n):
            outs = ["N%d" % j for (a, j) in edges if a == i]
            if dupe and outs:
                outs = outs + [outs[0]]
            if not outs:
                lines.append("N%d = Copy(InFieldName = Leaf)" % i if case["order"] % 9 != 4 else "N%d = Sum(InFieldNames = [Leaf, Leaf])" % i)
            elif case["order"] % 5 == 3:
                # report commands referring to one another
                lines.append("N%d = PrintVars(InFieldNames = [%s], OutFileName = \"pv%d.txt\")" % (i, ", ".join(outs), i))
            elif case["order"] % 9 == 4:
                lines.append("N%d = Sum(InFieldNames = [Leaf, %s])" % (i, ", ".join(outs)))        # every member also adds the field read as fuzzy
            elif len(outs) == 1 and real in ("direct", "mixed"):
                lines.append("N%d = Copy(InFieldName = %s)" % (i, outs[0]))
            elif len(outs) == 2 and real in ("direct", "mixed"):
                lines.append("N%d = AMinusB(A = %s, B = %s)" % (i, outs[0], outs[1]))
            else:
                lines.append("N%d = %s(InFieldNames = [%s])" % (i, rng.choice(["Sum", "Maximum", "Mean"]), ", ".join(outs)))
        libs = arr.NC_LIBS if case["order"] % 9 == 4 else arr.CSV_LIBS
    if case["lib"] == "eems" and case["order"] % 9 != 4 and case["order"] % 8 in (2, 6):
        # a conversion beside the ring whose optional arguments are written out empty / at their defaults
        lines.append('FzFar = CvtToFuzzy(InFieldName = Leaf, Direction = "")' if case["order"] % 8 == 2 else 'FzFar = CvtToFuzzy(InFieldName = Leaf, Direction = LowToHigh, Metadata = [])')
    if case["lib"] == "eems" and case["order"] % 9 != 4 and case["order"] % 4 == 1 and case["order"] % 5 != 1:
        # a writer in a separate, acyclic part of the model whose output folder does not exist yet
        lines.append('OutFar = EEMSWrite(OutFileName = "results/not_there_yet/out.csv", OutFieldNames = [Leaf])')
    if case["lib"] == "eems" and case["order"] % 5 == 1:
        # some commands in the EEMS 2.0 layout (no "Result =", the result named by NewFieldName) under their MPilot names
        lines = [re.sub(r"^(N\d+) = (Copy|Sum|Maximum|Mean|AMinusB)\((.*)\)$", r"\2(\3, NewFieldName = \1)", ln) if k_ % 2 == 0 else ln for k_, ln in enumerate(lines)]
    if case["order"] % 6 == 2 and not case.get("late") and not case.get("sorted_order") and case["order"] % 7 not in (1, 2):
        # commands named like the words for yes and no (ordinary identifiers)
        ren = {"N0": "True", "N1": "False", "N2": "TRUE"}
        lines = [re.sub(r"\bN[0-2]\b", lambda m_: ren[m_.group(0)], ln) for ln in lines]
    if case["order"] % 3 == 0:
        # metadata written in front of the other arguments (argument order is free)
        lines = [ln.replace("(", "(Metadata = [DisplayName: Loop, Note: \"x, y\"], ", 1) if "(" in ln and not ln.startswith("Leaf") and "NoOut" not in ln else ln for ln in lines]
    if case.get("sorted_order"):
        lines.sort(key=lambda ln: (not ln.startswith("Leaf"), int(ln.split(" ")[0][1:]) if ln[0] == "N" else -1))   # no forward references where avoidable
    else:
        rng.shuffle(lines)
    return "\n".join(_layout(ln, multi) for ln in lines), libs


def _plain(v):
    from mpilot.arguments import Argument
    if isinstance(v, Argument):
        v = v.value
    if isinstance(v, list):
        return [_plain(x) for x in v]
    return v


def run_case(ctx, case):
    if case.get("kind") == "v2self":
        return run_v2self(ctx, case)
    from mpilot.program import Program
    text, libs = build_text(case)
    d = ctx.scratch()
    if case["lib"] == "eems":
        with open(d + "/in.csv", "w") as f:
            f.write("X0\n1\n2\n3\n")
        if "in.nc" in text:
            from netCDF4 import Dataset
            with Dataset(d + "/in.nc", "w") as ds:
                ds.createDimension("x", 3)
                xv = ds.createVariable("x", "f8", ("x",))
                xv[:] = [0.0, 1.0, 2.0]
                v = ds.createVariable("X0", "f8", ("x",))
                v[:] = [0.5, -0.25, 1.0]
    st = structure(case["n"], [tuple(e) for e in case["edges"]])
    ctx.count("cyclic_programs_run")
    late = None
    if case.get("late") and not case.get("api"):
        # one command of a cycle is missing at first: run() fails on the dangling reference; the command is then added through
        # add_command (closing the cycle) and the program is run again
        edges = [tuple(e) for e in case["edges"]]
        adj = {i: [j for (a, j) in edges if a == i] for i in range(case["n"])}

        def reaches(u, target):
            seen, st = set(), list(adj[u])
            while st:
                v = st.pop()
                if v == target:
                    return True
                if v not in seen:
                    seen.add(v)
                    st.extend(adj[v])
            return False
        members = [i for i in range(case["n"]) if reaches(i, i) and any(a != i and j == i for (a, j) in edges)]
        if members:
            late = "N%d" % members[case["order"] % len(members)]
    ctx.feature((case["n"] if case["n"] <= 4 else "5-8", st, case["real"], case["lib"], bool(case.get("multiline")), bool(case.get("dupe")), bool(case.get("sorted_order")), bool(case.get("api")), bool(case.get("noout")), bool(late)))
    try:
        if late:
            full = Program.from_source(text, libraries=libs, working_dir=d)
            src_cmd = full.commands[late]
            # the program without the late command: re-render from the parsed one
            prog = Program(libraries=libs, working_dir=d)
            for name, cmd in full.commands.items():
                if name != late:
                    prog.add_command(type(cmd), name, {a.name: _plain(a.value) for a in cmd.arguments}, lineno=cmd.lineno)
            try:
                prog.run()
                first = "no error"
            except Exception as e:
                first = type(e).__name__
            ctx.count("late_cycle_closures")
            if first != "ResultDoesNotExist":
                ctx.dontcare("first run of the incomplete program gave %s" % first)
            prog.add_command(type(src_cmd), late, {a.name: _plain(a.value) for a in src_cmd.arguments})
        else:
            prog = Program.from_source(text, libraries=libs, working_dir=d)
        if case.get("api"):
            # the same program rebuilt through add_command (no line numbers anywhere)
            ctx.count("api_built_programs")
            src = prog
            prog = Program(libraries=libs, working_dir=d)
            for name, cmd in src.commands.items():
                # (list values given as tuples in every other program: any sequence will do)
                prog.add_command(type(cmd), name, {a.name: (tuple(_plain(a.value)) if isinstance(_plain(a.value), list) and case["order"] % 2 and a.name != "Metadata" else _plain(a.value)) for a in cmd.arguments})
    except Exception as e:
        # the text is well-formed (every generated layout loads on a tree where the property holds): a cyclic model is turned down
        # when it is run, with the recursive-model error - not while it is loaded, with something else
        ctx.fail("cyclic-program-does-not-load:%s" % type(e).__name__, {"error": repr(e)[:200], "text": text})
        return
    pre = None
    if not late and not case.get("api") and case["order"] % 7 == 1:
        # before the program is run, one result is asked for directly (it lies on or downstream of the cycle: whatever that
        # gives, it is not an answer) - then the program is run as usual
        pre = "result-read-first"
        ctx.count("results_read_before_the_run")
        try:
            list(prog.commands.values())[case["order"] % len(prog.commands)].result
        except BaseException:
            pass
    elif not late and case["lib"] == "probe" and not case.get("api") and case["order"] % 7 == 2:
        # one command of the cycle already carries a result (set from outside, as the repository's test helpers do): its
        # references still make the model circular
        edges_ = [tuple(e) for e in case["edges"]]
        adj_ = {i: [j for (a, j) in edges_ if a == i] for i in range(case["n"])}

        def _reach(u, t):
            seen, st_ = set(), list(adj_[u])
            while st_:
                v = st_.pop()
                if v == t:
                    return True
                if v not in seen:
                    seen.add(v)
                    st_.extend(adj_[v])
            return False
        members_ = [i for i in range(case["n"]) if _reach(i, i)]
        if members_:
            pre = "cycle-member-holds-a-result"
            ctx.count("cycle_members_with_injected_results")
            c_ = prog.commands["N%d" % members_[case["order"] % len(members_)]]
            c_.is_finished, c_._result = True, ("given", c_.result_name)
    log = trace.start()
    trace.attach(prog)
    err = None
    try:
        prog.run()
    except RecursionError as e:
        err = e
    except Exception as e:
        err = e
    finally:
        trace.stop()
    depth = trace.max_run_depth()
    ctx.count("run_depth_observations")
    executed = [e["name"] for e in log if e["k"] == "exec_enter"]
    skey = "+".join(x for x in st if isinstance(x, str) and x) or "cycle"
    rkey = "%s:%s" % (case["lib"], case["real"] if case["real"] != "mixed" else "mixed")
    if err is None:
        unfinished = [n for n, c in prog.commands.items() if not c.is_finished]
        ctx.fail("returned-normally:%s%s%s" % ("nothing-ran" if not executed else "partly-ran", ":cycle-closed-after-a-failed-run" if late else "", ":" + pre if pre else ""), {"late_command": late, "text": text, "executed": executed, "unfinished": unfinished, "structure": skey, "via": rkey})
        return
    name = type(err).__name__
    if name == "RecursiveModelStructure" and case["lib"] == "eems" and not case.get("api") and not late and case["order"] % 4 == 0 and "PrintVars(" not in text and "NewFieldName" not in text and "True" not in text and "in.nc" not in text:
        # the same file, with a writer at its end, through the command-line tool: the recursive-model report, not a crash
        from click.testing import CliRunner
        from mpilot.cli.mpilot import main
        d2 = ctx.scratch()
        with open(d2 + "/in.csv", "w") as f:
            f.write("X0\n1\n2\n3\n")
        fp = d2 + "/cyclic.mpt"
        tail = '\nOutW = EEMSWrite(OutFileName = "o.csv", OutFieldNames = [Leaf, N%d])\nShown = PrintVars(InFieldNames = [N%d], OutFileName = "vars.txt")\n' % (case["order"] % case["n"], (case["order"] // 3) % case["n"])
        with open(fp, "w") as f:
            f.write(text + tail)
        try:
            res = CliRunner(mix_stderr=False).invoke(main, ["eems-csv", fp])
        except TypeError:
            res = CliRunner().invoke(main, ["eems-csv", fp])
        try:
            etxt = res.stderr
        except Exception:
            etxt = res.output
        ctx.count("cyclic_files_through_the_tool")
        if res.exit_code == 0 or "recursive" not in etxt.lower() or "recursion depth" in etxt.lower() or (res.exception is not None and not isinstance(res.exception, SystemExit)):
            ctx.fail("command-line-tool:%s" % ("accepts-the-cyclic-file" if res.exit_code == 0 else "stack-exhausted" if "recursion" in etxt.lower() else "no-recursive-model-report"), {"text": text + tail, "stderr": etxt[-300:], "exit": res.exit_code})
            return
    if name == "RecursiveModelStructure":
        ctx.count("recursive_model_errors_seen")
        if isinstance(err, (RecursionError, MemoryError)):
            # what a caller (and this monitor) recognises a run out of stack by: the report of a circular model must not be one
            ctx.fail("recursive-model-error-is-itself-a-stack-overflow-error", {"mro": [c.__name__ for c in type(err).__mro__][:6], "text": text})
            return
        if case["order"] % 3 == 0:
            # asked again, the same program is rejected again (nothing was "resolved" by the failed run)
            ctx.count("second_runs_of_rejected_programs")
            trace.start()
            err2 = None
            try:
                prog.run()
            except BaseException as e2:
                err2 = e2
            finally:
                trace.stop()
            if type(err2).__name__ != "RecursiveModelStructure":
                chain2 = []
                e2 = err2
                while e2 is not None and len(chain2) < 4:
                    chain2.append(type(e2).__name__)
                    e2 = getattr(e2, "exc", None) or e2.__cause__
                ctx.fail("second-run-of-a-rejected-program:%s" % ("returned-normally" if err2 is None else "stack-exhausted" if "RecursionError" in chain2 else "wrong-error-" + chain2[0]),
                         {"text": text, "unfinished": [n for n, c in prog.commands.items() if not c.is_finished][:6]})
                return
        try:
            str(err)
        except Exception as e:
            ctx.fail("error-message-raises-%s" % type(e).__name__, {"text": text})
        if depth > case["n"] + 2:
            ctx.fail("run-depth-exceeds-command-count", {"depth": depth, "n": case["n"], "text": text})
        if len(ctx.samples) < 4:
            ctx.sample({"text": text, "outcome": name, "max_run_depth": depth, "executed_before_rejection": executed})
        return
    chain, e = [], err
    while e is not None and len(chain) < 6:
        chain.append(type(e).__name__)
        e = getattr(e, "exc", None) or e.__cause__
    if "RecursionError" in chain or depth > 50:
        ctx.fail("stack-exhausted:%s%s" % (rkey.split(":")[1], ":cycle-closed-after-a-failed-run" if late else ""), {"late_command": late, "chain": chain, "depth": depth, "text": text, "structure": skey})
    else:
        ctx.fail("wrong-error-%s%s" % (name, ":" + pre if pre else ""), {"chain": chain, "text": text, "error": str(err)[:300], "structure": skey})
