"""C15 - serialising a program and loading it back gives the same program.

Monitor: structural comparison (result names and order, command classes, argument names and order, *cleaned* argument values
with references compared by result name and floats bit-exact, metadata) of P and Q = from_source(P.to_string()), comparison of
the results of both when run, and the second-generation fixpoint structure(Q) == structure(from_source(Q.to_string()));
over programs of a harness command with one parameter of every kind (built from source text and through add_command with
Python values) and over random EEMS models.
"""
import copy
import os
import random
import struct

import numpy

from mpv import arr, models, syntax

ANCHORS = ['mpilot/program.py:Program.to_string', 'mpilot/program.py:Program.from_source', 'mpilot/parser/parser.py:Lexer.t_STRING', 'mpilot/parser/parser.py:Lexer.t_FLOAT']   # repository functions the workload must enter (reported as anchors_reached / anchors_missed)
LEVEL = "exploration"
RULE = ("programs of 1-6 Echo commands (string, number, boolean, path, data type, lists of numbers/strings/booleans, nested lists, "
        "result, list and nested list of results, tuple, metadata) with hostile string contents (quotes, backslashes, delimiters, '#', "
        "non-ASCII, leading/trailing blanks, empty, control characters) and numbers (huge ints, exponent-form floats, -0.0), built from "
        "source and through add_command (names and Command objects as references); plus random EEMS models from source and API; "
        "distinct by (builder, parameter kinds used, string/number feature classes)")
REQUIRED_COUNTERS = ["saved_strings_through_the_tool", "round_trips", "values_compared", "result_pairs_compared", "fixpoints_checked", "to_file_checks", "eems2_histories", "cli_runs_of_saved_files"]
ASSUMPTIONS = ["layout of the text and key order of metadata are not judged", "type objects as argument values are never generated; non-finite numbers are compared by their bits",
               "result names are identifiers"]

STR_POOL = ["plain", "two words", "", " lead", "trail ", "  ", 'say "hi"', "it's", "back\\slash", "C:\\path\\to\\file.csv", "a,b", "k: v", "[x]", "(y)", "a = b", "# not a comment",
            "é ü Ω 日本 —", "tab\there", "line\nbreak", "ls\u2028sep ps\u2029", "zero\u200bwidth", "bom\ufeffinside", "ideographic\u3000space", "ff\x0cvt\x0bnel\x85", "nul-free ctrl \x01\x1f\x7f", "emoji 😀",
            "cr\rlf", 'mix "\' \\ #:,=()[]', "\\", '"', "'", "\\\\n", "ends with backslash\\", "100%", "True", "1.5", "12", "Float", "1e-05", "01234", "007", "1.50", "+5", ".5", "1e3", "-0", "0x10", "1_000", "inf", "nan", " 12 ",
            "{year}", "{}", "{{z}}", "a}b", "{pad}", "{0}", "%(x)s {", "cost in $$", "$$", "$NAME", "${x} $", "e\u0301 not in composed form", "\u212b angstrom sign", "\u2126 ohm sign \ufb01 ligature", "\u1e9b\u0323 long s with dots"]
NUM_POOL = [0, 1, -1, 12, 2 ** 70, -2 ** 63, 0.0, -0.0, 1.5, 1e-05, 1e+22, 5e-324, 1.7976931348623157e+308, 0.1, 123456789.125, 2.5e-7, 1e16, 1e15]


NONFINITE = {"$inf": float("inf"), "$-inf": float("-inf"), "$nan": float("nan")}       # spelled out in cases (JSON), converted when the program is built


def _unspell(v):
    if isinstance(v, list):
        return [_unspell(x) for x in v]
    if isinstance(v, str) and v.startswith("$np:"):
        kind, text = v[4:].split(":", 1)
        return {"0d": lambda t: numpy.array(float(t) if "." in t else int(t)), "f64": lambda t: numpy.float64(t), "i64": lambda t: numpy.int64(t), "f32": lambda t: numpy.float32(t)}[kind](text)
    if isinstance(v, str) and v.startswith("$path:"):
        import pathlib
        return pathlib.Path(v[6:])
    return NONFINITE.get(v, v) if isinstance(v, str) else v


NEAR_NUMBERS = ["$np:0d:2000", "$np:f64:2.5", "$np:i64:7", "$np:f32:0.5", "$np:f64:1e+22"]       # API-only spellings of numbers


def gen_echo_program(rng):
    n = rng.randint(1, 6)
    cmds = []
    for i in range(n):
        name = "E%d" % i
        prev = [c["result"] for c in cmds]
        args = {}
        kinds = rng.sample(["S", "N", "B", "P", "T", "LN", "LS", "LB", "LLN", "LLS", "R", "LR", "LLR", "Tup", "Metadata", "LU"], rng.randint(1, 6))
        for k in kinds:
            if k == "S":
                args[k] = rng.choice(STR_POOL)
            elif k == "N":
                args[k] = rng.choice(NUM_POOL) if rng.random() < 0.92 else rng.choice(sorted(NONFINITE))
                if rng.random() < 0.06:
                    args[k] = rng.choice(NEAR_NUMBERS)
            elif k == "B":
                args[k] = rng.choice([True, False, "true", "False", 0, 1])
            elif k == "P":
                args[k] = rng.choice(["rel/file.csv", "out dir/x.nc", "/abs/p.csv", "weird \"name\".csv", "back\\slash.csv", "é.csv"])
                if rng.random() < 0.1:
                    args[k] = "$path:" + rng.choice(["rel/file.csv", "out dir/x.nc", "/abs/p.csv"])
            elif k == "T":
                args[k] = rng.choice(["Float", "Integer"])
            elif k == "LN":
                args[k] = [rng.choice(NUM_POOL) if rng.random() < 0.92 else rng.choice(sorted(NONFINITE)) for _ in range(rng.randint(0, 4))]
            elif k == "LS":
                args[k] = [rng.choice(STR_POOL) for _ in range(rng.randint(0, 4))]
            elif k == "LB":
                args[k] = [rng.choice([True, False]) for _ in range(rng.randint(0, 3))]
            elif k == "LU":
                args[k] = [rng.choice([1, 2.5, "w", "two words"]) if rng.random() < 0.5 else [rng.choice([1, 0.25, "x"]) for _ in range(rng.randint(0, 3))] for _ in range(rng.randint(0, 4))]
            elif k == "LLN":
                args[k] = [[rng.choice(NUM_POOL) for _ in range(rng.randint(0, 3))] for _ in range(rng.randint(0, 3))]
            elif k == "LLS":
                args[k] = [[rng.choice(STR_POOL) for _ in range(rng.randint(0, 2))] for _ in range(rng.randint(1, 3))]
            elif k == "R" and prev:
                args[k] = rng.choice(prev)
            elif k == "LR" and prev:
                args[k] = [rng.choice(prev) for _ in range(rng.randint(0, 3))]
            elif k == "LLR" and prev:
                args[k] = [[rng.choice(prev) for _ in range(rng.randint(0, 2))] for _ in range(rng.randint(1, 2))]
            elif k in ("Tup", "Metadata"):
                args[k] = {rng.choice(["Color", "Display Name", "k1", "a:b", 'q"uote']): rng.choice(STR_POOL) for _ in range(rng.randint(0, 3))}
                if args[k] and rng.random() < 0.1:
                    args[k][sorted(args[k])[0]] = "$none"      # None / a number / a boolean as a value (programming interface only)
                elif args[k] and rng.random() < 0.1:
                    args[k][sorted(args[k])[0]] = rng.choice(["$num:7", "$num:2.5", "$true"])
        cmd = "Echo"
        if rng.random() < 0.15:
            # a command that takes undeclared arguments too: names that differ from declared ones in letter case only
            cmd = "EchoX"
            for k in rng.sample(["s", "n", "metadata", "tup", "Xtra", "lN", "b"], rng.randint(1, 3)):
                args[k] = rng.choice(STR_POOL) if rng.random() < 0.6 else rng.choice(NUM_POOL)
        cmds.append({"result": name, "cmd": cmd, "args": args})
    if rng.random() < 0.15:
        # result names that look like keywords or numbers' relatives (all of them identifiers)
        new = rng.sample(["True", "False", "None", "class", "Float", "Integer", "inf", "nan", "_", "x1e5", "e5", "E", "true", "TRUE", "lambda", "Metadata"], len(cmds))
        ren = {c["result"]: nm for c, nm in zip(cmds, new)}

        def rn(x):
            return [rn(i) for i in x] if isinstance(x, list) else ren.get(x, x)
        for c in cmds:
            c["result"] = ren[c["result"]]
            for k in ("R", "LR", "LLR"):
                if k in c["args"]:
                    c["args"][k] = rn(c["args"][k])
    return cmds


def cases(ctx):
    rng = ctx.rng("cases")
    for i in range(ctx.n(1500, 120000)):
        cmds = gen_echo_program(rng)
        builder = rng.choice(["source", "api", "api-objects"])
        if builder != "api-objects" and rng.random() < 0.5:
            rng.shuffle(cmds)      # forward references: names are resolved lazily, so any order is a valid program
        yield {"kind": "echo", "commands": cmds, "builder": builder, "rseed": rng.randrange(10 ** 9)}
    for i in range(ctx.n(300, 20000)):
        m = models.gen_model(rng, n_ops=rng.randint(1, 8), sinks=True, metadata=rng.random() < 0.5)
        if rng.random() < 0.6:
            m = models.permuted(m, rng)
        yield {"kind": "eems", "model": m, "builder": rng.choice(["source", "api"]), "rseed": rng.randrange(10 ** 9)}


# ---------------------------------------------------------------- building P
ECHO_KINDS = {"S": "string", "N": "number", "B": "boolean", "P": "path", "T": "datatype", "LN": "list:number", "LS": "list:string", "LB": "list:boolean",
              "LLN": "list:list:number", "LLS": "list:list:string", "R": "result", "LR": "list:result", "LLR": "list:list:result", "Tup": "tuple", "Metadata": "tuple", "LU": "list:any"}


def echo_ast(cmds, rng):
    out = []
    for c in cmds:
        args = []
        for k, v in c["args"].items():
            kind = ECHO_KINDS.get(k) or ("number" if isinstance(v, (int, float)) else "string")
            if kind == "boolean":
                val = {"t": "ustr", "v": "True" if v in (True, "true", 1) and v is not False and v != 0 else ("False" if not isinstance(v, str) else v), "cls": "word"} if not isinstance(v, str) else {"t": "ustr", "v": v, "cls": "word"}
                if isinstance(v, bool):
                    val = {"t": "ustr", "v": str(v), "cls": "word"}
                elif isinstance(v, int):
                    val = {"t": "int", "v": v, "text": str(v)}
            elif kind == "list:boolean":
                val = {"t": "list", "items": [{"t": "ustr", "v": str(x), "cls": "word"} for x in v], "trail": False}
            elif kind == "tuple":
                txt = lambda vv: "None" if vv == "$none" else "True" if vv == "$true" else vv[5:] if isinstance(vv, str) and vv.startswith("$num:") else vv
                val = {"t": "tuple", "pairs": [[{"v": kk, "q": '"'}, {"t": "qstr", "v": txt(vv), "q": '"'}] for kk, vv in v.items()], "trail": False} if v else {"t": "list", "items": [], "trail": False}
            elif kind == "number" and isinstance(v, str) and v.startswith("$np:"):
                val = models.number_ast(float(v.split(":")[2]) if ("." in v.split(":")[2] or "e" in v.split(":")[2]) else int(v.split(":")[2]))
            elif kind == "path" and isinstance(v, str) and v.startswith("$path:"):
                val = models.value_ast(v[6:], kind, None)
            elif (kind == "number" and isinstance(v, str) and v in NONFINITE) or (kind == "list:number" and any(isinstance(x, str) for x in v)):
                # in a command file a non-finite number is the bare word the serialiser itself writes
                word = lambda x: {"t": "ustr", "v": x[1:], "cls": "word"} if isinstance(x, str) else models.number_ast(x)
                val = word(v) if isinstance(v, str) else {"t": "list", "items": [word(x) for x in v], "trail": False}
            else:
                val = models.value_ast(v, kind, None)
                _force_quotes(val)
            args.append({"name": k, "value": val})
        out.append({"result": c["result"], "command": c.get("cmd", "Echo"), "args": args, "trail": False})
    return {"commands": out}


def _force_quotes(v):
    if v["t"] == "list":
        for it in v["items"]:
            _force_quotes(it)


def build(case, d):
    """Returns the program P."""
    from mpilot.program import Program
    rng = random.Random(case["rseed"])
    if case["kind"] == "echo":
        libs = ("qecho",)
        if case["builder"] == "source":
            text = syntax.render(echo_ast(case["commands"], rng), rng, "wild")
            return Program.from_source(text, libraries=libs, working_dir=d), libs
        prog = Program(libraries=libs, working_dir=d)
        for c in case["commands"]:
            cls = prog.find_command_class(c.get("cmd", "Echo"))
            args = copy.deepcopy(c["args"])
            for k in ("N", "LN", "P"):
                if k in args:
                    args[k] = _unspell(args[k])
            for k in ("Tup", "Metadata"):
                if k in args:
                    args[k] = {kk: (None if vv == "$none" else True if vv == "$true" else (float(vv[5:]) if "." in vv else int(vv[5:])) if isinstance(vv, str) and vv.startswith("$num:") else vv) for kk, vv in args[k].items()}
            if case["rseed"] % 3 == 0:
                # list values handed over as tuples (any sequence is accepted by the programming interface)
                for k in ("LN", "LS", "LB"):
                    if isinstance(args.get(k), list):
                        args[k] = tuple(args[k])
            if case["builder"] == "api-objects":
                def objs(x):
                    if isinstance(x, list):
                        return [objs(i) for i in x]
                    return prog.commands[x]
                for k in ("R", "LR", "LLR"):
                    if k in args:
                        args[k] = objs(args[k])
            prog.add_command(cls, c["result"], args)
        if case["rseed"] % 6 == 1 and len(case["commands"]) >= 2 and case["builder"] == "api":
            # a command replaced the documented way: removed (del program.commands[name]) and added again under its name - it
            # now stands last, in the program and in what is written
            victim = case["commands"][case["rseed"] % (len(case["commands"]) - 1)]["result"]
            old_cmd = prog.commands[victim]
            del prog.commands[victim]
            prog.add_command(type(old_cmd), victim, {a.name: a.value for a in old_cmd.arguments})
        return prog, libs
    model = case["model"]
    models.write_table(model["table"], d)
    libs = arr.CSV_LIBS
    if case["builder"] == "source":
        text, _ = models.to_text(model, rng, "wild")
        return Program.from_source(text, libraries=libs, working_dir=d), libs
    prog = Program(libraries=libs, working_dir=d)
    for c in model["commands"]:
        prog.add_command(prog.find_command_class(c["cmd"]), c["result"], copy.deepcopy(c["args"]))
    return prog, libs


# ---------------------------------------------------------------- structure
def canon(v):
    from mpilot.commands import Command
    if isinstance(v, Command):
        return ("ref", v.result_name)
    if isinstance(v, numpy.ndarray) and v.ndim == 0:
        v = v.item()                # a 0-d array is the number it holds
    if isinstance(v, numpy.generic) and not isinstance(v, (bool, numpy.bool_)):
        v = v.item()                # NumPy scalars: the same number
    if isinstance(v, bool):
        return ("bool", v)
    if isinstance(v, float):
        return ("float", struct.pack("<d", v).hex())
    if isinstance(v, int):
        return ("int", v)
    if isinstance(v, str):
        return ("str", v)
    if isinstance(v, (list, tuple)):
        return ("list" if isinstance(v, list) else "tuple", [canon(x) for x in v])       # a cleaned list is a list, whatever sequence was given
    if isinstance(v, dict):
        return ("dict", sorted((str(k), canon(x)) for k, x in v.items()))
    if isinstance(v, type):
        return ("type", v.__name__)
    if isinstance(v, numpy.ndarray):
        return ("array", arr.digest(v))
    return ("other", repr(v)[:80])


def structure(prog):
    out = []
    for name, cmd in prog.commands.items():
        cleaned = cmd.validate_params({a.name: a.value for a in cmd.arguments})
        out.append((name, type(cmd).__name__, [(a.name, canon(cleaned[a.name])) for a in cmd.arguments], canon(cmd.metadata)))
    return out


def result_canon(v):
    if isinstance(v, numpy.ndarray):
        return ("array", arr.digest(v))
    if isinstance(v, (list, tuple)):
        return ("seq", [result_canon(x) for x in v])
    if isinstance(v, dict):
        return ("dict", sorted((k, result_canon(x)) for k, x in v.items()))
    return canon(v)


def _value_feature(name, v):
    """Mechanism class of the first differing argument value (for failure keys)."""
    feats = set()

    def walk(x, depth):
        if isinstance(x, str):
            if '"' in x:
                feats.add("dquote")
            if "\\" in x:
                feats.add("backslash")
            if "\n" in x or "\t" in x:
                feats.add("ctrl")
            if any(ord(c) > 127 for c in x):
                feats.add("nonascii")
            if x != x.strip() or x == "":
                feats.add("edge-blank")
        elif isinstance(x, float):
            feats.add("float-exp" if "e" in repr(x) else "float")
        elif isinstance(x, (list, tuple)):
            feats.add("nested-list" if depth >= 1 else "list")
            for i in x:
                walk(i, depth + 1)
        elif isinstance(x, dict):
            feats.add("tuple")
            for k, i in x.items():
                walk(k, depth)
                walk(i, depth)
    walk(v, 0)
    return "+".join(sorted(feats)) or "plain"


def run_case(ctx, case):
    from mpilot.program import Program
    d = ctx.scratch()
    try:
        P, libs = build(case, d)
        sp = structure(P)
    except Exception as e:
        ctx.dontcare("program under test could not be built (%s): judged by C10/C12" % type(e).__name__)
        return
    builder = case["builder"]
    if case["rseed"] % 11 == 0:
        # history: an EEMS 2.0 style file was loaded earlier in this process
        try:
            Program.from_source('READ(InFileName = "nowhere.csv", InFieldName = Q, NewFieldName = Q2, OutFileName = "x")', libraries=arr.CSV_LIBS, working_dir=d)
        except Exception:
            pass
        ctx.count("eems2_histories")
    raw_args = {}
    for c in (case["commands"] if case["kind"] == "echo" else case["model"]["commands"]):
        for k, v in c["args"].items():
            raw_args[(c["result"], k)] = v
    used = tuple(sorted(set(k for (_, k) in raw_args)))[:8] if case["kind"] == "echo" else ("eems",)
    ctx.feature((case["kind"], builder, used, tuple(sorted(set(_value_feature(k, v) for (r, k), v in raw_args.items())))[:6]))
    ctx.count("round_trips")
    try:
        text = P.to_string()
    except Exception as e:
        ctx.fail("%s:to_string-raises-%s" % (builder, type(e).__name__), {"error": repr(e)[:300]})
        return
    # to_file: by path and by file object, the file must hold exactly the serialised text (read back as UTF-8)
    if case["rseed"] % 4 == 0:
        ctx.count("to_file_checks")
        import io
        fp = os.path.join(d, "saved_%d.mpt" % (case["rseed"] % 1000))
        overwrite = case["rseed"] % 8 == 0
        if overwrite:
            # the path already holds an older, longer command file: saving replaces it
            with open(fp, "w", encoding="utf-8") as fh:
                fh.write(text + "\n# an older version of this model\nOld_%d = Copy(InFieldName = Gone)\n" % (case["rseed"] % 97) + "# padding\n" * 40)
        try:
            P.to_file(fp)
            with open(fp, encoding="utf-8") as fh:
                on_disk = fh.read()
            buf = io.StringIO()
            P.to_file(buf)
            if on_disk != text or buf.getvalue() != text:
                ctx.fail("%s:to_file-differs-from-to_string%s" % (builder, ":path-held-an-older-file" if overwrite and on_disk.startswith(text) else ""),
                         {"to_string": text[:300], "file": on_disk[:300], "file_tail": on_disk[-120:], "file_object": buf.getvalue()[:300]})
                return
        except UnicodeError as e:
            ctx.dontcare("to_file under a non-UTF-8 locale: %s" % type(e).__name__)
        except Exception as e:
            ctx.fail("%s:to_file-raises-%s" % (builder, type(e).__name__), {"error": repr(e)[:300]})
            return
    try:
        Q = Program.from_source(text, libraries=libs, working_dir=d)
        sq = structure(Q)
    except Exception as e:
        # isolate the argument whose serialised form does not load
        culprit = _isolate(P, libs, d)
        feat = _value_feature(culprit[1], raw_args.get(culprit, None)) if culprit else "?"
        kind = (ECHO_KINDS.get(culprit[1], "") if case["kind"] == "echo" else "eems") if culprit else "?"
        ctx.fail("%s:reload-fails:%s:%s:%s" % (builder if builder != "source" else "source", type(e).__name__, kind.replace("list:list:", "nested-"), feat),
                 {"text": text[:1200], "error": repr(e)[:300], "argument": culprit})
        return
    ctx.count("values_compared", sum(len(c[2]) for c in sp))
    if [c[:2] for c in sp] != [c[:2] for c in sq]:
        ctx.fail("%s:commands-differ" % builder, {"P": [c[:2] for c in sp], "Q": [c[:2] for c in sq], "text": text[:800]})
        return
    for cp, cq in zip(sp, sq):
        if [a[0] for a in cp[2]] != [a[0] for a in cq[2]]:
            ctx.fail("%s:argument-names-differ" % builder, {"command": cp[0], "P": [a[0] for a in cp[2]], "Q": [a[0] for a in cq[2]]})
            return
        for (an, vp), (_, vq) in zip(cp[2], cq[2]):
            if vp != vq:
                raw = raw_args.get((cp[0], an))
                kind = ECHO_KINDS.get(an, "eems") if case["kind"] == "echo" else "eems"
                ctx.fail("%s:value-differs:%s:%s" % (builder, kind.replace("list:list:", "nested-"), _value_feature(an, raw)),
                         {"command": cp[0], "argument": an, "P": repr(vp)[:300], "Q": repr(vq)[:300], "text": text[:800]})
                return
        if cp[3] != cq[3]:
            ctx.fail("%s:metadata-differs" % builder, {"command": cp[0], "P": repr(cp[3])[:300], "Q": repr(cq[3])[:300]})
            return
    # fixpoint of the second generation
    ctx.count("fixpoints_checked")
    try:
        t2 = Q.to_string()
        s3 = structure(Program.from_source(t2, libraries=libs, working_dir=d))
        if s3 != sq:   # compared structurally: the order of tuple keys in the text is not part of the statement
            ctx.fail("%s:not-a-fixpoint" % builder, {"second": t2[:600], "third_structure": repr(s3)[:600]})
            return
    except Exception as e:
        ctx.fail("%s:second-generation-fails-%s" % (builder, type(e).__name__), {"error": repr(e)[:300]})
        return
    # results
    rp = rq = None
    try:
        P.run()
        rp = {n: result_canon(c.result) for n, c in P.commands.items()}
    except Exception as e:
        ctx.dontcare("P.run raises %s" % type(e).__name__)
        return
    try:
        # fresh directory state is not needed: both read the same inputs and overwrite the same outputs
        Q.run()
        rq = {n: result_canon(c.result) for n, c in Q.commands.items()}
    except Exception as e:
        ctx.fail("%s:reloaded-program-fails-to-run-%s" % (builder, type(e).__name__), {"error": repr(e)[:300], "text": text[:800]})
        return
    ctx.count("result_pairs_compared", len(rp))
    if rp != rq:
        bad = [n for n in rp if rp[n] != rq.get(n)]
        ctx.fail("%s:results-differ" % builder, {"commands": bad[:4], "text": text[:800]})
        return
    if case["kind"] == "echo" and case["rseed"] % 5 == 0:
        # strings of this program handed to a command that writes down what it receives, the program saved with to_file and run
        # by the command-line tool: the command receives the strings of the program
        import json as _json
        from click.testing import CliRunner
        from mpilot.cli.mpilot import main
        strs = [v for (r_, k_), v in raw_args.items() if k_ == "S" and isinstance(v, str)] + [x for (r_, k_), v in raw_args.items() if k_ == "LS" for x in v if isinstance(x, str)]
        strs = [x for x in strs if "\x00" not in x][:4] or ["plain"]
        dump = os.path.join(d, "dump.json")
        P2 = Program(libraries=("usercmds",), working_dir=d)
        P2.add_command(P2.find_command_class("Dump"), "D", {"OutFileName": dump, "NewFieldName": strs[0], "Anything": list(strs)})
        fp2 = os.path.join(d, "for_tool.mpt")
        P2.to_file(fp2)
        try:
            res = CliRunner(mix_stderr=False).invoke(main, ["eems-csv", fp2, "-l", "usercmds"])
        except TypeError:
            res = CliRunner().invoke(main, ["eems-csv", fp2, "-l", "usercmds"])
        ctx.count("saved_strings_through_the_tool")
        if res.exit_code != 0 or not os.path.exists(dump):
            ctx.fail("tool:saved-program-fails", {"exit": res.exit_code, "exception": repr(res.exception)[:200], "strings": [repr(x)[:40] for x in strs]})
            return
        got = _json.load(open(dump, encoding="utf-8"))
        if got != {"NewFieldName": strs[0], "Anything": list(strs)}:
            ctx.fail("tool:saved-program-delivers-other-strings:%s" % _value_feature("S", strs), {"got": repr(got)[:300], "want": repr(strs)[:300]})
            return
    # the saved file run by the command-line tool: a program that ran through the API runs through the tool as well
    if case["kind"] == "eems" and case["rseed"] % 3 == 0:
        from click.testing import CliRunner
        from mpilot.cli.mpilot import main
        fp = os.path.join(d, "saved_for_cli.mpt")
        linked = case["rseed"] % 6 == 0
        try:
            if linked:
                # the command file is kept elsewhere and reached through a symbolic link placed next to the data: relative
                # paths are relative to where the user finds the command file
                os.makedirs(os.path.join(d, "store"), exist_ok=True)
                P.to_file(os.path.join(d, "store", "model_v7.mpt"))
                if os.path.lexists(fp):
                    os.remove(fp)
                os.symlink(os.path.join(d, "store", "model_v7.mpt"), fp)
            else:
                P.to_file(fp)
            try:
                res = CliRunner(mix_stderr=False).invoke(main, ["eems-csv", fp])
            except TypeError:
                res = CliRunner().invoke(main, ["eems-csv", fp])
            ctx.count("cli_runs_of_saved_files")
            if res.exit_code != 0 or (res.exception is not None and not isinstance(res.exception, SystemExit)):
                try:
                    err_text = res.stderr
                except Exception:
                    err_text = res.output
                ctx.fail("%s:saved-file-fails-in-command-line-tool%s" % (builder, ":reached-through-a-symbolic-link" if linked else ""), {"exit": res.exit_code, "exception": repr(res.exception)[:200], "stderr": err_text[-400:], "text": text[:600]})
                return
        except UnicodeError:
            ctx.dontcare("non-UTF-8 locale")
    if len(ctx.samples) < 4:
        ctx.sample({"builder": builder, "kind": case["kind"], "serialised": text[:700]})


def _isolate(P, libs, d):
    """Find one (command, argument) whose serialised form alone does not load back."""
    from mpilot.program import Program
    for name, cmd in P.commands.items():
        for a in cmd.arguments:
            Q = Program(libraries=libs, working_dir=d)
            try:
                Q.commands[name] = type(cmd)(name, [a], program=Q)
                text = Q.to_string()
                Program.from_source(text, libraries=libs, working_dir=d)
            except Exception:
                return (name, a.name)
    return None
