"""C16 - EEMS 2.0 command files translate to equivalent MPilot programs.

Monitors: (1) existence monitor: every EEMS 2.0 name must resolve to a command class in the CSV or NetCDF library set;
(2) translation monitor: a command file in EEMS 2.0 syntax and the harness's own translation of it (independent copy of the
name table; result name = explicit name, else NewFieldName, else InFieldName; NewFieldName/OutFileName dropped) are both
loaded and run - same outcome class, same program structure (result names, order, command classes, cleaned arguments), same
results.
"""
import copy
import os
import random

import numpy

from mpv import arr, models, syntax
from mpv.props import c15

ANCHORS = ['mpilot/utils.py:convert_eems2_commands', 'mpilot/parser/parser.py:Parser.p_eems2_command', 'mpilot/program.py:Program.from_source']   # repository functions the workload must enter (reported as anchors_reached / anchors_missed)
LEVEL = "exploration"
RULE = ("exhaustive: 25 EEMS 2.0 names x {with, without NewFieldName} x {with, without OutFileName} x {bare, 'Result =' form}; random: "
        "EEMS models of 2-12 commands written in 2.0 syntax (any graph shape, optionally mixed with MPilot-style commands) in all "
        "W-SYNTAX layouts; distinct by (set of 2.0 names used, naming styles, mixed?, layout style)")
REQUIRED_COUNTERS = ["renaming_reads_next_to_a_namesake", "repeated_loads_compared", "translated_command_lines_compared", "user_library_files", "cli_runs_of_eems2_files", "names_checked", "translations_compared", "result_sets_compared", "restricted_library_histories"]
EXHAUSTIVE_NOTE = "all 25 mapped names x 8 naming/argument forms in both tiers"
ASSUMPTIONS = ["the harness's name table restates the mapping by meaning (MEANTOMID is the fuzzy mean-to-mid conversion, ORNEG the minimum)",
               "2.0 commands with neither a result name nor NewFieldName/InFieldName, and OutFileName on MPilot-style commands inside a 2.0 file, are don't-care"]

V2 = {
    "READ": "EEMSRead", "CVTTOFUZZY": "CvtToFuzzy", "CVTTOFUZZYCURVE": "CvtToFuzzyCurve", "CVTTOFUZZYCAT": "CvtToFuzzyCat", "MEANTOMID": "CvtToFuzzyMeanToMid",
    "COPYFIELD": "Copy", "NOT": "FuzzyNot", "OR": "FuzzyOr", "AND": "FuzzyAnd", "ORNEG": "FuzzyAnd", "XOR": "FuzzyXOr", "SUM": "Sum", "MULT": "Multiply",
    "DIVIDE": "ADividedByB", "MIN": "Minimum", "MAX": "Maximum", "MEAN": "Mean", "UNION": "FuzzyUnion", "DIF": "AMinusB", "SELECTEDUNION": "FuzzySelectedUnion",
    "WTDUNION": "FuzzyWeightedUnion", "WTDMEAN": "WeightedMean", "WTDSUM": "WeightedSum", "SCORERANGEBENEFIT": "ScoreRangeBenefit", "SCORERANGECOST": "ScoreRangeCost",
}
INV = {}
for k, v in V2.items():
    INV.setdefault(v, []).append(k)


def cases(ctx):
    rng = ctx.rng("cases")
    idx = 0
    for name in sorted(V2):
        for newfield in (True, False):
            for outfile in (True, False):
                for explicit in (True, False):
                    if ctx.mine(idx):
                        yield {"kind": "name", "v2": name, "newfield": newfield, "outfile": outfile, "explicit": explicit, "rseed": idx}
                    idx += 1
    # files that mix EEMS 2.0 commands with MPilot-style commands of a user's own library whose names equal 2.0 names but for
    # letter case: only the 2.0 names are translated
    for i in range(ctx.n(60, 3000)):
        yield {"kind": "usermix", "rseed": rng.randrange(10 ** 9)}
    for i in range(ctx.n(24, 1000)):
        yield {"kind": "alias", "rseed": rng.randrange(10 ** 9)}
    for i in range(ctx.n(500, 40000)):
        m = models.gen_model(rng, n_ops=rng.randint(1, 10), sinks=False, table=models.gen_table(rng, exotic_names=False), metadata=rng.random() < 0.35)   # READ may take its result name from the column
        if i % 5 == 0:
            # a legal POSIX file name with a backslash in it (what a Windows-style relative path looks like here)
            newname = rng.choice(["da\\ta.csv", "in\\put\\table.csv", "t\\x.csv"])
            m["table"]["file"] = newname
            for c in m["commands"]:
                if c["cmd"] == "EEMSRead":
                    c["args"]["InFileName"] = newname
        reads = [c for c in m["commands"] if c["cmd"] == "EEMSRead"]
        if i % 6 == 1 and reads:
            # the same column of the same file read a second time under another name, as another kind of number / with another
            # missing marker: a second read in the translation, too
            dup = copy.deepcopy(reads[0])
            dup["result"] = "In_again"
            dup["args"].pop("Metadata", None)
            how = rng.choice(["type", "missing", "same"])
            if how == "type":
                dup["args"]["DataType"] = "Float" if dup["args"].get("DataType") == "Integer" else "Integer" if m["table"]["cols"][dup["args"]["InFieldName"]]["integer"] else "Float"
            elif how == "missing":
                dup["args"]["MissingVal"] = rng.choice([v for v in m["table"]["cols"][dup["args"]["InFieldName"]]["data"]][:3])
            m["commands"].insert(m["commands"].index(reads[0]) + 1 + rng.randrange(len(m["commands"]) - m["commands"].index(reads[0])), dup)
            m["commands"].append({"result": "AgainCopy", "cmd": "Copy", "args": {"InFieldName": "In_again"}})
        if i % 9 == 4:
            # a model that is not well-typed (a plain field given to a fuzzy operator, or a fuzzy result converted again): the
            # 2.0 file and its translation stop alike
            fz = [c for c in m["commands"] if c["cmd"] in arr.FUZZY_INPUT and c["cmd"] != "CvtFromFuzzy"]
            if fz and reads:
                c = rng.choice(fz)
                if "InFieldName" in c["args"]:
                    c["args"]["InFieldName"] = reads[0]["result"]
                elif "InFieldNames" in c["args"]:
                    c["args"]["InFieldNames"] = list(c["args"]["InFieldNames"][:-1]) + [reads[0]["result"]]
                m["ill_typed"] = True
            else:
                m["commands"].append({"result": "OrPlain", "cmd": "FuzzyOr", "args": {"InFieldNames": [reads[0]["result"]]}})
                m["ill_typed"] = True
        yield {"kind": "model", "model": m, "mixed": rng.random() < 0.4, "style": rng.choice(["canon", "wild", "wild"]), "rseed": rng.randrange(10 ** 9)}


def _v2_form(c, rng, mixed, force=None):
    """Abstract command -> (v2 command dict for rendering, translated command dict)."""
    cmd = c["cmd"]
    names = [n for n in INV.get(cmd, [])]
    if not names or (mixed and rng.random() < 0.4 and force is None):
        return None
    v2name = force or rng.choice(names)
    style = rng.choice(["newfield", "newfield", "explicit", "infield"])
    if force is None and rng.random() < 0.12:
        # 2.0 style (no result name, named through NewFieldName) under the command's MPilot name
        v2name = cmd
        style = rng.choice(["newfield", "infield"])
    args = dict(c["args"])
    res = c["result"]
    out = {"cmd": v2name, "args": args, "result": None}
    if style == "explicit":
        out["result"] = res
        if rng.random() < 0.5:
            args["NewFieldName"] = "Ignored_" + res
    elif style == "newfield" or "InFieldName" not in args or not isinstance(args.get("InFieldName"), str):
        args["NewFieldName"] = res
    else:
        # result name will be the input field name: only meaningful for READ (a column read under its own name)
        if cmd == "EEMSRead":
            res = args["InFieldName"]
        else:
            args["NewFieldName"] = res
    if cmd == "EEMSRead" and style != "explicit" and isinstance(args.get("InFieldName"), str) and rng.random() < 0.25:
        # a column read under its own name, said twice
        args["NewFieldName"] = args["InFieldName"]
        res = args["InFieldName"]
    if rng.random() < 0.4:
        args["OutFileName"] = "ignored_out.csv"
        if rng.random() < 0.3:
            # the output file of the 2.0 model as users write Windows paths (single backslashes, not all of them escapes)
            args["OutFileName"] = {"t": "raw", "text": rng.choice(['"C:\\My Data\\eems\\results.csv"', "'D:\\Models\\EEMS\\out dir\\m.csv'", '"..\\Output\\Model_1.csv"'])}
    if rng.random() < 0.5:
        # EEMS 2.0 files do not promise any argument order (NewFieldName may come first)
        keys = list(args)
        rng.shuffle(keys)
        out["args"] = {k: args[k] for k in keys}
    return out, res


def render_pair(model, rng, mixed, style):
    """(v2 text, translated MPilot text)"""
    kinds = models.param_kinds()
    rename = {}
    v2cmds, v3cmds = [], []
    for c in model["commands"]:
        f = _v2_form(c, rng, mixed)
        if f is None:
            v2cmds.append({"result": c["result"], "cmd": c["cmd"], "args": dict(c["args"]), "kinds": kinds.get(c["cmd"], {})})
            v3cmds.append({"result": c["result"], "cmd": c["cmd"], "args": dict(c["args"])})
        else:
            out, res = f
            rename[c["result"]] = res
            v2cmds.append({"result": out["result"], "cmd": out["cmd"], "args": out["args"], "kinds": dict(kinds.get(c["cmd"], {}), NewFieldName="string", OutFileName="string")})
            # the translation keeps the arguments in the order the 2.0 text gives them, minus the two dropped ones
            v3cmds.append({"result": res, "cmd": c["cmd"], "args": {k: c["args"][k] for k in out["args"] if k in c["args"]}})

    def ren(v):
        if isinstance(v, str):
            return rename.get(v, v)
        if isinstance(v, list):
            return [ren(x) for x in v]
        return v
    for lst in (v2cmds, v3cmds):
        for c in lst:
            k = kinds.get(V2.get(c["cmd"], c["cmd"]), {})
            for a, v in list(c["args"].items()):
                if k.get(a) in ("result", "list:result"):
                    c["args"][a] = ren(v)

    def ast(cmds, v2):
        out = []
        for c in cmds:
            ks = c.get("kinds") or kinds.get(c["cmd"], {})
            args = [{"name": a, "value": v if isinstance(v, dict) and v.get("t") == "raw" else models.value_ast(v, ks.get(a, "any"), None)} for a, v in c["args"].items()]
            out.append({"result": c["result"], "command": c["cmd"], "args": args, "trail": False})
        return {"commands": out}

    a2 = ast(v2cmds, True)
    t2 = _render(a2, rng, style)
    for c_, a_ in zip(v2cmds, a2["commands"]):
        c_["_line"] = a_.get("_line")       # the line of the command-name token in the rendered 2.0 text
    return t2, _render(ast(v3cmds, False), None, "canon"), v2cmds


def _render(a, rng, style):
    return syntax.render(a, rng, style)


_last = {"lines": None}


def _load_run(text, d, libs=None):
    from mpilot.program import Program
    _last["lines"] = None
    try:
        p = Program.from_source(text, working_dir=d) if libs is None else Program.from_source(text, libraries=libs, working_dir=d)
    except Exception as e:
        return ("load-error", type(e).__name__, e), None, None
    _last["lines"] = [getattr(c, "lineno", None) for c in p.commands.values()]
    try:
        st = c15.structure(p)
    except Exception as e:
        st = ("structure-error", type(e).__name__)
    try:
        p.run()
        res = {n: c15.result_canon(c.result) for n, c in p.commands.items()}
    except Exception as e:
        res = ("run-error", type(e).__name__ if type(e).__name__ != "UnexpectedError" else "UnexpectedError/" + type(e.exc).__name__)
    return ("ok",), st, res


def run_alias(ctx, case):
    """A 2.0 READ that renames a column (a -> b) next to another command whose result is called a: commands referring to a get
    that result, exactly as in the MPilot translation."""
    rng = random.Random(case["rseed"])
    d = ctx.scratch()
    with open(os.path.join(d, "in.csv"), "w") as f:
        f.write("X0,X1\n1,10\n2,20\n3,40\n")
    order = rng.random() < 0.5
    v2 = ['READ(InFileName = "in.csv", InFieldName = X0, NewFieldName = R0)', 'READ(InFileName = "in.csv", InFieldName = X1, NewFieldName = R1)',
          rng.choice(["SUM(InFieldNames = [R1, R1], NewFieldName = X0)", "COPYFIELD(InFieldName = R1, NewFieldName = X0)", "X0 = MULT(InFieldNames = [R1, R1])"]),
          rng.choice(["SUM(InFieldNames = [X0, R0], NewFieldName = Total)", "DIF(A = X0, B = R0, NewFieldName = Total)", "MAX(InFieldNames = [X0], NewFieldName = Total)"])]
    if order:
        v2 = [v2[1], v2[2], v2[0], v2[3]]
    text = "\n".join(v2)
    ctx.count("translations_compared")
    ctx.count("renaming_reads_next_to_a_namesake")
    ctx.feature(("alias", order, v2[-1][:3]))
    o2, s2, r2 = _load_run(text, d)
    if o2[0] != "ok" or not isinstance(r2, dict):
        ctx.fail("renaming-read-next-to-a-result-of-the-old-name:fails", {"text": text, "outcome": repr(o2)[:200], "results": repr(r2)[:100]})
        return
    import numpy
    x1 = numpy.array([10.0, 20.0, 40.0])
    x0 = numpy.array([1.0, 2.0, 3.0])
    mid = x1 * x1 if "MULT" in text else (x1 + x1 if "SUM(InFieldNames = [R1, R1]" in text else x1)
    want = mid + x0 if v2[-1].startswith("SUM") else mid - x0 if v2[-1].startswith("DIF") else mid
    from mpilot.program import Program
    got = Program.from_source(text, working_dir=d)
    got.run()
    val = numpy.ma.getdata(got.commands["Total"].result)
    if not numpy.array_equal(val, want):
        ctx.fail("renaming-read-next-to-a-result-of-the-old-name:reference-resolved-to-the-renamed-field", {"text": text, "got": val.tolist(), "want": want.tolist()})


def run_usermix(ctx, case):
    from mpilot.program import Program
    rng = random.Random(case["rseed"])
    d = ctx.scratch()
    with open(os.path.join(d, "in.csv"), "w") as f:
        f.write("X0,X1\n1,2\n3,4\n5,7\n")
    names = ["dif", "Dif", "union", "Union", "min", "sum", "not", "Not", "or", "read", "Read", "mean", "Copyfield", "xor"]
    lines = ['READ(InFileName = "in.csv", InFieldName = X0)', 'READ(InFileName = "in.csv", InFieldName = X1, NewFieldName = B)']
    want = {"X0": "EEMSRead", "B": "EEMSRead"}
    for k in range(rng.randint(1, 4)):
        nm = rng.choice(names)
        args = rng.choice(["A = X0", "InFieldNames = [X0, B]", "V = %d" % k, "A = B, V = 2"])
        lines.append("U%d = %s(%s)" % (k, nm, args))
        want["U%d" % k] = nm
    if rng.random() < 0.5:
        lines.append("SUM(InFieldNames = [X0, B], NewFieldName = S)")
        want["S"] = "Sum"
    head, tail = lines[:2], lines[2:]
    rng.shuffle(tail)
    text = "\n".join(head + tail)
    ctx.count("translations_compared")
    ctx.count("user_library_files")
    ctx.feature(("usermix", tuple(sorted(set(want.values())))[:5]))
    try:
        p = Program.from_source(text, libraries=arr.CSV_LIBS + ("usercmds",), working_dir=d)
    except Exception as e:
        ctx.fail("user-library-command-in-an-eems2-file:load-fails-%s" % type(e).__name__, {"text": text, "error": str(e)[:200]})
        return
    got = {n: type(c).__name__ for n, c in p.commands.items()}
    if got != want:
        bad = sorted(n for n in want if got.get(n) != want[n])
        ctx.fail("user-library-command-in-an-eems2-file:%s" % ("replaced-by-a-built-in" if any(n.startswith("U") for n in bad) else "program-differs"),
                 {"text": text, "differs": {n: [want[n], got.get(n)] for n in bad[:4]}})


def run_case(ctx, case):
    if case["kind"] == "name":
        return run_name(ctx, case)
    if case["kind"] == "usermix":
        return run_usermix(ctx, case)
    if case["kind"] == "alias":
        return run_alias(ctx, case)
    rng = random.Random(case["rseed"])
    model = case["model"]
    d = ctx.scratch()
    models.write_table(model["table"], d)
    t2, t3, v2cmds = render_pair(model, rng, case["mixed"], case["style"])
    used = tuple(sorted(set(c["cmd"] for c in v2cmds if c["cmd"] in V2)))
    ctx.feature((used[:8], case["mixed"], case["style"], any(c["result"] is None for c in v2cmds)))
    if not used and not any(c["result"] is None for c in v2cmds):
        ctx.dontcare("no 2.0 command in this rendering")
        return
    ctx.count("translations_compared")
    if case["rseed"] % 3 == 0:
        # history: some other 2.0 file was loaded earlier in this process for a program without the fuzzy library
        from mpilot.program import Program
        try:
            Program.from_source('READ(InFileName = "in.csv", InFieldName = X0)\nCVTTOFUZZY(InFieldName = X0, NewFieldName = Fz0)\nOR(InFieldNames = [Fz0], NewFieldName = Or0)',
                                libraries=("mpilot.libraries.eems.basic", "mpilot.libraries.eems.csv"), working_dir=d)
        except Exception:
            pass
        ctx.count("restricted_library_histories")
    libs = None
    if case["rseed"] % 4 == 3:
        # the libraries named in another legitimate way: only those the model needs, or the reader by its module
        fuzzy = any(c["cmd"] in arr.FUZZY_OUTPUT or c["cmd"] in arr.FUZZY_INPUT for c in model["commands"])
        libs = ("mpilot.libraries.eems.basic", "mpilot.libraries.eems.csv") if not fuzzy else ("mpilot.libraries.eems.fuzzy", "mpilot.libraries.eems.csv.io", "mpilot.libraries.eems.basic")
        ctx.count("other_library_lists")
    o2, s2, r2 = _load_run(t2, d, libs)
    lines2 = _last["lines"]
    o3, s3, r3 = _load_run(t3, d, libs)
    detail = {"v2_text": t2[:1500], "translated_text": t3[:1500]}
    if lines2 is not None and case["style"] != "canon":
        # every translated command still knows the line its command name stands on (what errors and the tool's marker use)
        ctx.count("translated_command_lines_compared")
        wantl = [c.get("_line") for c in v2cmds]
        if len(lines2) == len(wantl) and all(w is not None for w in wantl) and lines2 != wantl:
            k_ = [i for i, (a_, b_) in enumerate(zip(lines2, wantl)) if a_ != b_][0]
            ctx.fail("translated-command-carries-another-line", dict(detail, command=v2cmds[k_]["cmd"], got=lines2[k_], want=wantl[k_]))
            return
    if o2[0] != o3[0] or (o2[0] == "load-error" and o2[1] != o3[1]):
        bad = [c["cmd"] for c in v2cmds if c["cmd"] in V2]
        ctx.fail("outcome-differs:%s-vs-%s" % ("/".join(o2[:2]), "/".join(o3[:2])), dict(detail, error=repr(o2[2])[:200] if len(o2) > 2 else None, names=bad[:6]))
        return
    if o2[0] == "load-error":
        ctx.dontcare("both sides fail to load alike (%s)" % o2[1])
        return
    if s2 != s3:
        ctx.fail("program-structure-differs", dict(detail, v2=repr(s2)[:600], translated=repr(s3)[:600]))
        return
    ctx.count("result_sets_compared")
    if r2 != r3:
        ctx.fail("results-differ", dict(detail, v2=repr(r2)[:300], translated=repr(r3)[:300]))
        return
    if case["rseed"] % 5 == 1 and not isinstance(r2, tuple):
        # the same 2.0 file through the command-line tool, whatever the file is called
        from click.testing import CliRunner
        from mpilot.cli.mpilot import main
        d3 = ctx.scratch()
        models.write_table(model["table"], d3)
        fname = "model" + ["", ".mpt", ".eem", ".txt", ".eems", ".MPT"][(case["rseed"] // 5) % 6]
        with open(os.path.join(d3, fname), "w", encoding="utf-8") as fh:
            fh.write(t2)
        try:
            res = CliRunner(mix_stderr=False).invoke(main, ["eems-csv", os.path.join(d3, fname)])
        except TypeError:
            res = CliRunner().invoke(main, ["eems-csv", os.path.join(d3, fname)])
        ctx.count("cli_runs_of_eems2_files")
        if res.exit_code != 0:
            try:
                err_text = res.stderr
            except Exception:
                err_text = res.output
            ctx.fail("eems2-file-runs-through-the-api-but-not-through-the-tool:%s" % (os.path.splitext(fname)[1] or "no-extension"), dict(detail, exit=res.exit_code, stderr=err_text[-300:]))
            return
    if case["rseed"] % 2 == 0:
        # the very same 2.0 file loaded again in this process translates to the very same program
        ctx.count("repeated_loads_compared")
        o2b, s2b, r2b = _load_run(t2, d, libs)
        if o2b[:2] != o2[:2]:
            ctx.fail("second-load-of-the-same-file:outcome-%s" % "/".join(o2b[:2]), dict(detail, error=repr(o2b[2])[:200] if len(o2b) > 2 else None))
            return
        if s2b != s2:
            ctx.fail("second-load-of-the-same-file:program-structure-differs", dict(detail, first=repr(s2)[:500], second=repr(s2b)[:500]))
            return
    if len(ctx.samples) < 3:
        ctx.sample({"v2_text": t2[:700], "translated": t3[:700]})


def run_name(ctx, case):
    """One 2.0 name in one naming/argument form, inside a minimal model."""
    name = case["v2"]
    target = V2[name]
    rng = random.Random(case["rseed"])
    ctx.count("names_checked")
    ctx.feature(("name", name, case["newfield"], case["outfile"], case["explicit"]))
    csvp = arr.discover(arr.CSV_LIBS)
    ncp = arr.discover(arr.NC_LIBS)
    if target not in csvp and target not in ncp:
        ctx.fail("eems2-name-unmapped:%s" % name, {"v2": name, "maps_to": _actual_mapping(name), "expected": target, "exists": False})
        return
    actual = _actual_mapping(name)
    if actual is not None and actual not in csvp and actual not in ncp:
        ctx.fail("eems2-name-maps-to-missing-command:%s" % name, {"v2": name, "maps_to": actual, "expected": target})
        return
    # minimal model using the command
    from mpv.props import c12
    for attempt in range(30):
        m = c12._base_model_for(rng, target)
        if m is None:
            return
        m["commands"] = [c for c in m["commands"] if c["cmd"] not in ("EEMSWrite", "PrintVars")]
        tgt = [c for c in m["commands"] if c["cmd"] == target][-1]
        break
    d = ctx.scratch()
    models.write_table(m["table"], d)
    kinds = models.param_kinds()
    lines2, lines3 = [], []
    for c in m["commands"]:
        t, _ = models.to_text({"table": m["table"], "commands": [c]})
        if c is not tgt:
            lines2.append(t)
            lines3.append(t)
            continue
        args = dict(c["args"])
        res = c["result"]
        if case["newfield"]:
            args["NewFieldName"] = res if not case["explicit"] else "Other_Name"
        if case["outfile"]:
            args["OutFileName"] = "ignored.csv"
        if not case["explicit"] and not case["newfield"]:
            # result name falls back to InFieldName
            if isinstance(args.get("InFieldName"), str) and target == "EEMSRead":
                res = args["InFieldName"]
            else:
                ctx.dontcare("fallback to InFieldName only meaningful for READ")
                return
        ks = dict(kinds[target], NewFieldName="string", OutFileName="string")
        body = ", ".join("%s = %s" % (a, syntax.render({"commands": [{"result": "X", "command": "Y", "args": [{"name": "Z", "value": models.value_ast(v, ks.get(a, "any"), None)}]}]}, None, "canon")[len("X=Y(Z="):-1]) for a, v in args.items())
        lines2.append(("%s = " % res if case["explicit"] else "") + "%s(%s)" % (name, body))
        t3, _ = models.to_text({"table": m["table"], "commands": [dict(c, result=res)]})
        lines3.append(t3)
        # consumers of the renamed result
    t2, t3 = "\n".join(lines2), "\n".join(lines3)
    ctx.count("translations_compared")
    o2, s2, r2 = _load_run(t2, d)
    o3, s3, r3 = _load_run(t3, d)
    detail = {"v2_text": t2, "translated_text": t3}
    if o2[0] != o3[0] or (o2[0] == "load-error" and o2[1] != o3[1]):
        ctx.fail("eems2-form-fails:%s:%s" % (name, "/".join(o2[:2])), dict(detail, error=repr(o2[2])[:300] if len(o2) > 2 else None))
    elif o2[0] == "ok" and s2 != s3:
        ctx.fail("program-structure-differs", dict(detail, v2=repr(s2)[:600], translated=repr(s3)[:600]))
    elif o2[0] == "ok":
        ctx.count("result_sets_compared")
        if r2 != r3:
            ctx.fail("results-differ", dict(detail, v2=repr(r2)[:300], translated=repr(r3)[:300]))


def _actual_mapping(name):
    try:
        from mpilot.utils import EEMS_COMMANDS
        return EEMS_COMMANDS.get(name)
    except Exception:
        return None
