"""C17 - CSV reading and writing are faithful.

Monitors: reference comparison of every EEMSRead result with the table the harness wrote (values bit-exact, row order, element
kind, mask == cells equal to the declared missing value, independence from other columns - the same column is re-read from a
file whose other columns were changed); error monitor (missing header / non-numeric cell => InvalidDataFile naming the header /
the file line); written-file monitor (header == result names in listed order, one row per cell, every cell text parses back to
the identical double, parsed with the standard csv module); read-after-write monitor (bit-identical arrays).
"""
import csv
import math
import os
import random
import re
import struct

import numpy

from mpv import arr

ANCHORS = ['mpilot/libraries/eems/csv/io.py:EEMSRead.execute', 'mpilot/libraries/eems/csv/io.py:EEMSWrite.execute']   # repository functions the workload must enter (reported as anchors_reached / anchors_missed)
LEVEL = "exploration"
RULE = ("tables of 0-60 rows x 1-6 columns (and of 8 192 - 70 000 rows x 1-3 columns); header names needing CSV quoting (commas, quotes, blanks, non-ASCII); cells from a hostile "
        "double pool (subnormals, extremes, -0.0, 17-digit values, integers up to 2^53, values within one ulp / 1e-6 of the missing "
        "value) and int64; missing value in {absent, 0, -9999, only in other columns, everywhere}; Float / Integer / default type; blank "
        "lines; LF / CRLF; write cases with 1-4 results in any type order; distinct by (case kind, dtype request, missing class, ncols, "
        "has-blank-lines, eol, header class)")
SCRATCH_PER_CASE = True      # no directory is used beyond the case that asked for it
REQUIRED_COUNTERS = ["tables_updated_in_place", "tool_started_in_the_directory_of_the_file", "tables_through_the_command_line_tool", "columns_read_and_compared", "mask_checks", "other_column_independence_checks", "error_line_checks", "files_written_and_parsed", "read_after_write_checks", "same_path_rereads", "ragged_other_column_checks", "large_files_read", "reruns_after_the_file_was_repaired"]
ASSUMPTIONS = ["don't-care: textual form of missing cells in written files, fractional cells read as Integer, NaN/inf, rows too short to hold the requested column, rank != 1 on write",
               "integers are generated within +-2^53 (cells are parsed through float())"]

DOUBLES = [0.0, -0.0, 1.0, -1.0, 0.1, 1 / 3.0, 5e-324, -5e-324, 2.2250738585072014e-308, 1.7976931348623157e+308, -1.7976931348623157e+308, 123456789.12345679,
           0.30000000000000004, 1e22, 1e-7, 9007199254740992.0, 9007199254740993.0, 3.141592653589793, 2.5, -9998.999999999998, -9999.000000000002, -9999.05,
           -9999.0000001, 1e-300, 3e-9, -3e-9, 1e-12, 99.00000000000001, 98.99999999999999]
HEADERS = ["A", "B", "Elev", "my col", "a,b", 'say "hi"', "é_ü", " lead", "x:y", "#c", "日本", "Value (m)", "a;b", "'q'", "two\nlines", "twolines", "ff\x0cx", "ffx",
           "ls\u2028sep", "nel\x85x", "soil{0}", "{id}", "a}b", "{{x}}", "100%", "%s", "$col", "a{b",
           "e\u0301te\u0301", "\u212b", "R (\u2126)", "\ufb01eld", "A\u030a"]      # names that are not in composed normal form


def bits(x):
    return struct.pack("<d", float(x))


def gen_table(rng):
    ncols = rng.randint(1, 6)
    nrows = rng.choice([0, 1, 2, 3, 5, 8, 13, 30, 60])
    names = rng.sample(HEADERS, ncols)
    missing = rng.choice([None, 0, -9999, -9999, 99, "only-other", "everywhere", "fractional"])
    cols = []
    for ci in range(ncols):
        integer = rng.random() < 0.4
        data = []
        for r in range(nrows):
            if integer:
                data.append(rng.choice([0, 1, -1, 7, -9999, 99, 2 ** 53, -2 ** 53, rng.randint(-10 ** 6, 10 ** 6)]))
            else:
                data.append(rng.choice(DOUBLES) if rng.random() < 0.7 else rng.uniform(-1e6, 1e6))
        cols.append({"name": names[ci], "integer": integer, "data": data})
    mv = missing
    if missing == "only-other":
        mv = 424242
        for c in cols[1:]:
            for r in range(nrows):
                if rng.random() < 0.3:
                    c["data"][r] = 424242 if c["integer"] else 424242.0
    elif missing == "fractional":
        # a marker that is not a whole number, next to cells holding the whole number below it
        mv = -9999.5
        for c in cols:
            for r in range(nrows):
                k_ = rng.random()
                if k_ < 0.2:
                    c["data"][r] = -9999 if c["integer"] else -9999.5
                elif k_ < 0.4:
                    c["data"][r] = -9999 if c["integer"] else -9999.0
    elif missing == "everywhere":
        mv = 7
        for c in cols:
            c["data"] = [7 if c["integer"] else 7.0 for _ in c["data"]]
    elif missing is not None:
        for c in cols:
            for r in range(nrows):
                if rng.random() < 0.25:
                    c["data"][r] = missing if c["integer"] else float(missing)
    return {"cols": cols, "nrows": nrows, "missing": mv, "missing_class": str(missing), "blank_lines": rng.random() < 0.3, "eol": rng.choice(["\n", "\n", "\r\n"]), "lead_dot": rng.random() < 0.3}


def cases(ctx):
    rng = ctx.rng("cases")
    for i in range(ctx.n(900, 60000)):
        t = gen_table(rng)
        yield {"kind": "read", "table": t, "target": rng.randrange(len(t["cols"])), "dtype": rng.choice([None, "Float", "Integer"]), "rseed": rng.randrange(10 ** 9)}
    # files of tens of thousands of lines (block-wise readers), with blank lines anywhere
    for i in range(ctx.n(2, 12)):
        yield {"kind": "bigread", "nrows": rng.choice([8192, 8193, 9000, 20000, 16384 + 5, 70000]), "ncols": rng.randint(1, 3), "rseed": rng.randrange(10 ** 9),
               "blanks": rng.choice([0, 1, 3, 40]), "dtype": rng.choice([None, "Float", "Integer"]), "eol": rng.choice(["\n", "\r\n"])}
    for i in range(ctx.n(300, 15000)):
        t = gen_table(rng)
        if t["nrows"] == 0:
            t["nrows"] = 3
            for c in t["cols"]:
                c["data"] = [1, 2, 3] if c["integer"] else [1.5, 2.5, -0.0]
        yield {"kind": "error", "table": t, "fault": rng.choice(["missing-header", "non-numeric", "non-numeric", "empty-cell", "all-empty-row", "all-empty-row"]), "rseed": rng.randrange(10 ** 9)}
    for i in range(ctx.n(500, 30000)):
        t = gen_table(rng)
        t["missing"] = None
        t["missing_class"] = "None"
        for c in t["cols"]:
            pass
        order = rng.sample(range(len(t["cols"])), rng.randint(1, len(t["cols"])))
        if rng.random() < 0.25:
            order = order + [order[0]] + ([order[-1]] if rng.random() < 0.5 else [])      # a result listed more than once: one column per listed name
        yield {"kind": "write", "table": t, "order": order, "rseed": rng.randrange(10 ** 9)}


def write_csv(table, path, blank_positions=None, mutate_other=None, target=None, ragged=None):
    """The harness's own writer: repr() floats, csv quoting for headers. Returns {row index -> 1-based file line}."""
    eol = table["eol"]
    lines = []
    out = []
    w = csv.writer(_Collector(out), lineterminator="\n")
    w.writerow([c["name"] for c in table["cols"]])
    lines.append("".join(out)[:-1])
    del out[:]
    extra = lines[0].count("\n")      # a quoted header may span several physical lines
    row_line = {}
    for r in range(table["nrows"]):
        if blank_positions and r in blank_positions:
            lines.append("")
        cells = []
        for ci, c in enumerate(table["cols"]):
            v = c["data"][r]
            if mutate_other is not None and ci != target:
                v = mutate_other(ci, r, v)
            txt = repr(int(v)) if c["integer"] else repr(float(v))
            if not c["integer"] and table.get("lead_dot") and (txt.startswith("0.") or txt.startswith("-0.")) and "e" not in txt:
                txt = txt.replace("0.", ".", 1)          # .5 and -.25 are numbers, too
            cells.append(txt)
        if ragged is not None:
            # rows that are longer or shorter than the header in *other* columns: a trailing delimiter, an extra cell, or the
            # cells after the requested column left out
            k = ragged.random()
            if k < 0.3:
                cells.append("")
            elif k < 0.45:
                cells.append("17")
            elif k < 0.7 and target is not None and target < len(cells) - 1:
                cells = cells[:ragged.randint(target + 1, len(cells) - 1)]
        lines.append(",".join(cells))
        row_line[r] = len(lines) + extra
    if blank_positions and table["nrows"] in blank_positions:
        lines.append("")
    with open(path, "w", newline="", encoding="utf-8") as f:
        f.write(eol.join(lines) + (eol if lines else ""))
    return row_line


class _Collector(object):
    def __init__(self, out):
        self.out = out

    def write(self, s):
        self.out.append(s)


_reads = {"n": 0}


def _read(prog, path, name, header, dtype, missing):
    args = {"InFileName": path, "InFieldName": header}
    if dtype:
        args["DataType"] = dtype
    if missing is not None:
        _reads["n"] += 1
        # every third read hands the marker over as a NumPy scalar (the programming interface is given what the caller has)
        args["MissingVal"] = numpy.float32(missing) if _reads["n"] % 3 == 0 and float(numpy.float32(missing)) == float(missing) else numpy.float64(missing) if _reads["n"] % 3 == 1 and isinstance(missing, float) else missing
    return arr.invoke(prog, "EEMSRead", name, args)


def run_bigread(ctx, case):
    rs = numpy.random.RandomState(case["rseed"] % (2 ** 31))
    n, ncols = case["nrows"], case["ncols"]
    integer = case["dtype"] == "Integer"
    cols = [rs.randint(-10 ** 6, 10 ** 6, size=n) if integer else numpy.round(rs.uniform(-1e6, 1e6, size=n), 6) for _ in range(ncols)]
    target = case["rseed"] % ncols
    missing = -9999 if case["rseed"] % 3 == 0 else None
    if missing is not None:
        cols[target][rs.uniform(size=n) < 0.01] = missing
    blank_after = set(int(x) for x in rs.randint(0, n, size=case["blanks"])) if case["blanks"] else set()
    d = ctx.scratch()
    path = os.path.join(d, "big.csv")
    with open(path, "w", newline="") as f:
        f.write(",".join("C%d" % k for k in range(ncols)) + case["eol"])
        for r in range(n):
            f.write(",".join(repr(int(c[r])) if integer else repr(float(c[r])) for c in cols) + case["eol"])
            if r in blank_after:
                f.write(case["eol"])
    ctx.feature(("bigread", n > 8192 * 2, ncols, bool(blank_after), case["dtype"], case["eol"] == "\r\n", missing is not None))
    ctx.count("large_files_read")
    out = _read(arr.new_program(working_dir=d), path, "R", "C%d" % target, case["dtype"], missing)
    if not out.ok:
        ctx.fail("read:valid-table-rejected:%s:large-file" % (out.inner() or out.err), {"rows": n, "error": str(out.exc)[:300]})
        return
    res = out.value
    ctx.count("columns_read_and_compared")
    if not isinstance(res, numpy.ndarray) or res.shape != (n,):
        ctx.fail("read:row-count:large-file", {"got": list(getattr(res, "shape", [])), "want": n, "blank_lines": len(blank_after), "first_blank_after_row": min(blank_after) if blank_after else None})
        return
    want = cols[target].astype("int64" if integer else "float64")
    wmask = (want == missing) if missing is not None else numpy.zeros(n, bool)
    gm, gd = numpy.ma.getmaskarray(res), numpy.ma.getdata(res)
    if (gm != wmask).any() or (gd[~wmask] != want[~wmask]).any():
        i = int(numpy.flatnonzero((gm != wmask) | ((gd != want) & ~wmask))[0])
        ctx.fail("read:value:large-file", {"row": i, "got": None if gm[i] else gd[i].item(), "want": None if wmask[i] else want[i].item(), "rows": n})


def run_case(ctx, case):
    return {"read": run_read, "error": run_error, "write": run_write, "bigread": run_bigread}[case["kind"]](ctx, case)


def _hclass(name):
    return "quoted" if any(ch in name for ch in ',"') else "nonascii" if any(ord(ch) > 127 for ch in name) else "blank" if " " in name else "plain"


def run_read(ctx, case):
    t = case["table"]
    rng = random.Random(case["rseed"])
    d = ctx.scratch()
    path = os.path.join(d, "t.csv")
    blanks = set(rng.sample(range(t["nrows"] + 1), min(t["nrows"] + 1, rng.randint(1, 3)))) if t["blank_lines"] else None
    write_csv(t, path, blanks)
    col = t["cols"][case["target"]]
    dtype, missing = case["dtype"], t["missing"]
    integer_req = dtype == "Integer"
    ctx.feature(("read", dtype, t["missing_class"], len(t["cols"]), bool(blanks), t["eol"] == "\r\n", _hclass(col["name"]), col["integer"], min(t["nrows"], 3)))
    if integer_req and not col["integer"]:
        ctx.dontcare("fractional cells read as Integer")
        return
    prog = arr.new_program(working_dir=d)
    out = _read(prog, path, "R", col["name"], dtype, missing)
    if not out.ok:
        ctx.fail("read:valid-table-rejected:%s" % (out.inner() or out.err), {"error": str(out.exc)[:300], "header": col["name"], "dtype": dtype, "nrows": t["nrows"], "missing": missing})
        return
    res = out.value
    ctx.count("columns_read_and_compared")
    if not isinstance(res, numpy.ndarray) or res.shape != (t["nrows"],):
        ctx.fail("read:row-count", {"got": list(getattr(res, "shape", [])), "want": t["nrows"], "blank_lines": bool(blanks)})
        return
    if (res.dtype.kind in "iu") != integer_req:
        ctx.fail("read:element-kind", {"dtype": str(res.dtype), "requested": dtype})
        return
    data = numpy.ma.getdata(res)
    mask = numpy.ma.getmaskarray(res)
    mclass = "near-missing" if missing is not None and any(v != missing and abs(float(v) - float(missing)) <= 0.1 for v in col["data"]) else "plain"
    for r, v in enumerate(col["data"]):
        want_missing = missing is not None and (int(v) if integer_req else float(v)) == (int(missing) if integer_req else float(missing))
        if bool(mask[r]) != want_missing:
            ctx.fail("read:mask-%s:%s" % ("valid-cell-masked" if mask[r] else "missing-cell-not-masked", mclass),
                     {"row": r, "cell": repr(v), "missing": missing, "dtype": dtype})
            return
        if not want_missing:
            got = data[r].item()
            if integer_req:
                if got != int(v):
                    ctx.fail("read:value:integer", {"row": r, "got": got, "want": int(v)})
                    return
            elif bits(got) != bits(v):
                ctx.fail("read:value:float-not-bit-identical", {"row": r, "got": repr(got), "want": repr(float(v))})
                return
    ctx.count("mask_checks")
    # independence from other columns: same target column, every other cell changed
    if len(t["cols"]) > 1:
        # written to the *same path* (a new program of the same process must see the file as it is now)
        path2 = path
        write_csv(t, path2, blanks, mutate_other=lambda ci, r, v: (missing if missing is not None and r % 2 == 0 else (v + 1 if abs(v) < 1e15 else 0)), target=case["target"])
        prog2 = arr.new_program(working_dir=d)
        out2 = _read(prog2, path2, "R", col["name"], dtype, missing)
        ctx.count("other_column_independence_checks")
        if not out2.ok or arr.digest(out2.value) != arr.digest(res):
            ctx.fail("read:other-columns-influence-result", {"second": arr.describe(out2.value) if out2.ok else out2.err, "first": arr.describe(res)})
            return
    # other columns cut short or running over (a trailing delimiter, an extra cell, cells after the requested one left out)
    if t["nrows"] and (len(t["cols"]) > 1 or case["target"] == 0):
        write_csv(t, path, blanks, target=case["target"], ragged=random.Random(case["rseed"] + 1))
        outr = _read(arr.new_program(working_dir=d), path, "R", col["name"], dtype, missing)
        ctx.count("ragged_other_column_checks")
        if not outr.ok or arr.digest(outr.value) != arr.digest(res):
            ctx.fail("read:other-columns-influence-result:rows-of-other-length", {"second": arr.describe(outr.value) if outr.ok else (outr.inner() or outr.err), "error": str(outr.exc)[:200] if not outr.ok else None, "first": arr.describe(res)})
            return
    # the same path rewritten with different values in the target column itself: the next read must return the new values
    if t["nrows"] and not integer_req:
        import copy as _copy
        t3 = _copy.deepcopy(t)
        c3 = t3["cols"][case["target"]]
        c3["data"] = [(v + 2 if abs(v) < 1e15 and (missing is None or v != missing) else v) for v in c3["data"]]
        write_csv(t3, path, blanks)
        out3 = _read(arr.new_program(working_dir=d), path, "R", col["name"], dtype, missing)
        ctx.count("same_path_rereads")
        if not out3.ok:
            ctx.fail("read:reread-of-rewritten-file-raises-%s" % (out3.inner() or out3.err), {"error": str(out3.exc)[:200]})
            return
        got3 = numpy.ma.getdata(out3.value)
        for r, v in enumerate(c3["data"]):
            if (missing is None or float(v) != float(missing)) and bits(got3[r].item()) != bits(v):
                ctx.fail("read:stale-data-after-file-changed", {"row": r, "got": repr(got3[r].item()), "file_now_holds": repr(float(v))})
                return
    if len(ctx.samples) < 3 and t["nrows"] >= 2:
        ctx.sample({"header": col["name"], "dtype": dtype, "missing": missing, "cells": [repr(v) for v in col["data"][:5]], "result": arr.describe(res, 5), "blank_lines": sorted(blanks or [])})


def _msg(ctx, out, what):
    """The text of the error (what the tool prints); rendering it must work whatever the header is called."""
    try:
        return str(out.exc)
    except Exception as e:
        ctx.fail("error:%s:rendering-the-message-raises-%s" % (what, type(e).__name__), {"error_class": out.err, "raised": repr(e)[:200]})
        return None


def run_error(ctx, case):
    t = case["table"]
    rng = random.Random(case["rseed"])
    d = ctx.scratch()
    path = os.path.join(d, "t.csv")
    blanks = set(rng.sample(range(t["nrows"]), min(t["nrows"], rng.randint(1, 3)))) if t["blank_lines"] or rng.random() < 0.5 else None
    target = rng.randrange(len(t["cols"]))
    col = t["cols"][target]
    ctx.feature(("error", case["fault"], bool(blanks), len(t["cols"]), t["eol"] == "\r\n"))
    ctx.count("error_line_checks")
    prog = arr.new_program(working_dir=d)
    if case["fault"] == "missing-header":
        write_csv(t, path, blanks)
        # a name no column has: an unrelated one, or one that differs from an existing header only in letter case, in blanks
        # around it, or by being a prefix of it
        have = [c["name"] for c in t["cols"]]
        cands = ["No Such Header"]
        for h in have:
            for v in (h.upper(), h.lower(), h.swapcase(), " " + h, h + " ", h[:-1], h + "x"):
                if v and v not in have and "\n" not in v:
                    cands.append(v)
        want = cands[case["rseed"] % len(cands)]
        vclass = "unrelated" if want == "No Such Header" else "case-variant" if want.lower() in [h.lower() for h in have] else "blank-variant" if want.strip() in have else "prefix-or-extension"
        out = _read(prog, path, "R", want, None, None)
        if out.ok or out.err != "InvalidDataFile":
            ctx.fail("error:missing-header:%s:%s" % (vclass, "accepted" if out.ok else out.inner() or out.err), {"requested": want, "headers": have, "error": repr(out.exc)[:200]})
        else:
            msg = _msg(ctx, out, "missing-header")
            if msg is not None and want.strip() not in msg:
                ctx.fail("error:missing-header:message-does-not-name-header", {"message": msg[:300]})
        return
    bad_row = rng.randrange(t["nrows"])
    row_line = write_csv(t, path, blanks)
    # poison one cell of the target column in the written file
    with open(path, encoding="utf-8", newline="") as f:
        lines = f.read().split(t["eol"])
    ln = row_line[bad_row]
    if "\n" in col["name"] or any("\n" in c["name"] for c in t["cols"]):
        ctx.dontcare("error-line case with a multi-line header (line arithmetic of the harness poisoner)")
        return
    cells = lines[ln - 1].split(",")
    if case["fault"] == "all-empty-row":
        # a line that is not blank but whose cells are all empty or blank: the cell of the requested column is not a number
        lines[ln - 1] = ",".join(rng.choice(["", " ", "  "]) for _ in cells) if len(cells) > 1 else rng.choice([" ", "   ", "\t"])
        with open(path, "w", encoding="utf-8", newline="") as f:
            f.write(t["eol"].join(lines))
        out = _read(prog, path, "R", col["name"], None, None)
        if out.ok or out.err != "InvalidDataFile":
            ctx.fail("error:row-of-empty-cells:%s" % ("accepted" if out.ok else out.inner() or out.err), {"line": repr(lines[ln - 1]), "rows_read": getattr(out.value, "shape", None) if out.ok else None})
            return
        msg = _msg(ctx, out, "row-of-empty-cells")
        if msg is None:
            return
        m = re.search(r"line (\d+)", msg)
        if not m or int(m.group(1)) != ln:
            ctx.fail("error:row-of-empty-cells:wrong-file-line", {"reported": m and int(m.group(1)), "actual_file_line": ln})
        return
    cells[target] = "" if case["fault"] == "empty-cell" and len(cells) > 1 else rng.choice(["abc", "1,5" if False else "x1", "NULL", "--", "1e", "12abc"])
    lines[ln - 1] = ",".join(cells)
    with open(path, "w", encoding="utf-8", newline="") as f:
        f.write(t["eol"].join(lines))
    out = _read(prog, path, "R", col["name"], None, None)
    if out.ok or out.err != "InvalidDataFile":
        ctx.fail("error:non-numeric:%s" % ("accepted" if out.ok else out.inner() or out.err), {"error": repr(out.exc)[:200], "cell": cells[target]})
        return
    msg = _msg(ctx, out, "non-numeric")
    if msg is None:
        return
    # the data file is repaired and the *same* program is run again: it now reads the column
    if case["rseed"] % 2 == 0 and not blanks:
        ctx.count("reruns_after_the_file_was_repaired")
        write_csv(t, path, blanks)
        try:
            again = prog.commands["R"].result
            if not isinstance(again, numpy.ndarray) or again.shape != (t["nrows"],):
                ctx.fail("error:non-numeric:rerun-after-repair-returns-something-else", {"got": repr(again)[:100]})
                return
        except Exception as e:
            ctx.fail("error:non-numeric:rerun-after-repair-raises-%s" % type(e).__name__, {"error": str(e)[:200]})
            return
    m = re.search(r"line (\d+)", msg)
    if not m:
        ctx.fail("error:non-numeric:message-without-line", {"message": msg[:300]})
    elif int(m.group(1)) != ln:
        ctx.fail("error:non-numeric:wrong-file-line:%s" % ("after-blank-lines" if blanks and any(b <= bad_row for b in blanks) else "plain"),
                 {"reported": int(m.group(1)), "actual_file_line": ln, "blank_before_rows": sorted(blanks or []), "message": msg[:200]})


def run_write(ctx, case):
    t = case["table"]
    d = ctx.scratch()
    prog = arr.new_program(working_dir=d)
    order = case["order"]
    names = []
    for k, ci in enumerate(order):
        c = t["cols"][ci]
        nm = "W%d" % ci          # the same column listed twice is the same result listed twice
        if nm not in prog.commands:
            a = numpy.ma.array(numpy.array(c["data"], dtype="int64" if c["integer"] else "float64"))
            arr.standin(prog, nm, a)
        names.append(nm)
    kinds = "".join("i" if t["cols"][ci]["integer"] else "f" for ci in order)
    ctx.feature(("write", kinds if len(kinds) <= 3 else kinds[:3] + "+", min(t["nrows"], 3)))
    path = os.path.join(d, "out.csv")
    out = arr.invoke(prog, "EEMSWrite", "Out", {"OutFileName": path, "OutFieldNames": list(names)})
    if not out.ok:
        ctx.fail("write:raises-%s%s" % (out.inner() or out.err, ":table-without-rows" if t["nrows"] == 0 else ""), {"error": str(out.exc)[:300], "kinds": kinds})
        return
    ctx.count("files_written_and_parsed")
    with open(path, newline="", encoding="utf-8") as f:
        rows = list(csv.reader(f))
    if not rows or rows[0] != names:
        ctx.fail("write:header", {"got": rows[:1], "want": names})
        return
    body = [r for r in rows[1:] if r]
    if len(body) != t["nrows"]:
        ctx.fail("write:row-count", {"got": len(body), "want": t["nrows"]})
        return
    mixed = "mixed-int-first" if kinds[0] == "i" and "f" in kinds else "mixed" if len(set(kinds)) > 1 else "uniform"
    for r, row in enumerate(body):
        for k, ci in enumerate(order):
            want = t["cols"][ci]["data"][r]
            try:
                got = float(row[k])
            except (ValueError, IndexError):
                ctx.fail("write:cell-not-numeric:%s" % mixed, {"row": r, "col": k, "text": row[k] if k < len(row) else None})
                return
            if bits(got) != bits(want):
                ctx.fail("write:cell-does-not-parse-back:%s" % mixed, {"row": r, "col": k, "text": row[k], "want": repr(float(want)), "kinds": kinds})
                return
    # read-after-write through the real reader
    ctx.count("read_after_write_checks")
    for k, ci in enumerate(order):
        c = t["cols"][ci]
        if names.index(names[k]) != k:
            continue
        o = _read(prog, path, "Back%d" % k, names[k], "Integer" if c["integer"] else "Float", None)
        if not o.ok:
            ctx.fail("roundtrip:read-of-written-file-raises-%s" % (o.inner() or o.err), {"error": str(o.exc)[:200]})
            return
        want = prog.commands[names[k]]._result
        if arr.digest(o.value) != arr.digest(want) and not (c["integer"] and numpy.array_equal(numpy.ma.getdata(o.value), numpy.ma.getdata(want))):
            ctx.fail("roundtrip:not-identical:%s" % mixed, {"column": k, "got": arr.describe(o.value, 8), "want": arr.describe(want, 8)})
            return
    if case["rseed"] % 5 == 1 and t["nrows"]:
        # a table updated in place: its columns are read and written back to the very same file by a model that lists the
        # writer first (the writer's inputs are evaluated before its file is touched)
        from mpilot.program import Program
        d3 = ctx.scratch()
        cols3 = [t["cols"][ci] for ci in dict.fromkeys(order)]
        with open(os.path.join(d3, "table.csv"), "w") as f:
            f.write(",".join("c%d" % k for k in range(len(cols3))) + "\n")
            for r in range(t["nrows"]):
                f.write(",".join(repr(c["data"][r]) for c in cols3) + "\n")
        lines3 = ['Out = EEMSWrite(OutFileName = "table.csv", OutFieldNames = [%s])' % ", ".join("R%d" % k for k in reversed(range(len(cols3))))]
        lines3 += ['R%d = EEMSRead(InFileName = "table.csv", InFieldName = c%d, DataType = %s)' % (k, k, "Integer" if c["integer"] else "Float") for k, c in enumerate(cols3)]
        ctx.count("tables_updated_in_place")
        try:
            Program.from_source("\n".join(lines3), working_dir=d3).run()
        except Exception as e:
            ctx.fail("update-in-place:raises-%s" % type(e).__name__, {"error": str(e)[:200], "text": "\n".join(lines3)[:400]})
            return
        with open(os.path.join(d3, "table.csv"), newline="", encoding="utf-8") as f:
            rows3 = [r for r in csv.reader(f) if r]
        okrows = len(rows3) == t["nrows"] + 1 and rows3[0] == ["R%d" % k for k in reversed(range(len(cols3)))]
        if okrows:
            for r, row in enumerate(rows3[1:]):
                for j, k in enumerate(reversed(range(len(cols3)))):
                    try:
                        if bits(float(row[j])) != bits(cols3[k]["data"][r]):
                            okrows = False
                    except (ValueError, IndexError):
                        okrows = False
        if not okrows:
            ctx.fail("update-in-place:table-not-rewritten-with-its-own-columns", {"rows": rows3[:3], "want_rows": t["nrows"]})
            return
        # a write that is refused (fields of different lengths) leaves the file that is already there alone
        prog4 = arr.new_program(working_dir=d3)
        arr.standin(prog4, "P", numpy.ma.array([1.0, 2.0, 3.0]))
        arr.standin(prog4, "Q", numpy.ma.array([1.0, 2.0]))
        before = open(os.path.join(d3, "table.csv"), "rb").read()
        w4 = arr.invoke(prog4, "EEMSWrite", "W", {"OutFileName": "table.csv", "OutFieldNames": ["P", "Q"]})
        if not w4.ok and open(os.path.join(d3, "table.csv"), "rb").read() != before:
            ctx.fail("write:refused-write-alters-the-existing-file", {"error": w4.err, "bytes_before": len(before), "bytes_after": os.path.getsize(os.path.join(d3, "table.csv"))})
            return
    if case["rseed"] % 4 == 0 and t["nrows"]:
        # the same table read and written by a command file run through the command-line tool
        from click.testing import CliRunner
        from mpilot.cli.mpilot import main
        d2 = ctx.scratch()
        cols = [t["cols"][ci] for ci in dict.fromkeys(order)]
        # column names with backslashes in them (written with the escapes the command-file syntax has for quoted strings)
        hdr = ["c%d" % k for k in range(len(cols))]
        if case["rseed"] % 3 == 0:
            hdr[0] = ["rate\\time", "a\\nb", "x\\ry", "q\\x41", "d\\u0041e", "back\\\\slash", "depth\t(m)", 'pipe 5"', 'say "hi"', "tab\tat\tend\t"][case["rseed"] // 3 % 10]
        esc = lambda name: name.replace("\\", "\\\\").replace('"', '\\"')
        with open(os.path.join(d2, "in.csv"), "w") as f:
            f.write(",".join('"%s"' % h.replace('"', '""') if '"' in h else h for h in hdr) + "\n")
            for r in range(t["nrows"]):
                f.write(",".join(repr(c["data"][r]) for c in cols) + "\n")
        lines = ['R%d = EEMSRead(InFileName = "in.csv", InFieldName = "%s", DataType = %s)' % (k, esc(hdr[k]), "Integer" if c["integer"] else "Float") for k, c in enumerate(cols)]
        lines.append('Out = EEMSWrite(OutFileName = "out2.csv", OutFieldNames = [%s])' % ", ".join("R%d" % k for k in range(len(cols))))
        fp = os.path.join(d2, "model.mpt")
        with open(fp, "w") as f:
            f.write("\n".join(lines) + "\n")
        if case["rseed"] % 24 == 12:
            # the command file is kept elsewhere (next to another table of the same name) and linked into the directory of the data
            store = os.path.join(d2, "shared")
            os.makedirs(store)
            os.replace(fp, os.path.join(store, "model.mpt"))
            with open(os.path.join(store, "in.csv"), "w") as f:
                f.write(",".join(hdr) + "\n" + ",".join("77" for _ in cols) + "\n")
            os.symlink(os.path.join(store, "model.mpt"), fp)
            ctx.count("tool_runs_through_a_linked_command_file")
        if case["rseed"] % 24 == 0:
            # started the way users start it: in the directory of the command file, by its bare name
            from mpv import tool
            r2 = tool.run_tool(["eems-csv", "model.mpt"], cwd=d2)
            ctx.count("tables_through_the_command_line_tool")
            ctx.count("tool_started_in_the_directory_of_the_file")
            if r2 is None or r2[0] != 0 or not os.path.exists(os.path.join(d2, "out2.csv")):
                ctx.fail("tool:read-write-model-fails:started-in-the-directory-of-the-file", {"exit": r2 and r2[0], "stderr": (r2[2][-300:] if r2 else None)})
                return
        else:
            try:
                res = CliRunner(mix_stderr=False).invoke(main, ["eems-csv", fp])
            except TypeError:
                res = CliRunner().invoke(main, ["eems-csv", fp])
            ctx.count("tables_through_the_command_line_tool")
            if res.exit_code != 0 or not os.path.exists(os.path.join(d2, "out2.csv")):
                ctx.fail("tool:read-write-model-fails", {"exit": res.exit_code, "exception": repr(res.exception)[:200]})
                return
        with open(os.path.join(d2, "out2.csv"), newline="", encoding="utf-8") as f:
            rows2 = [r for r in csv.reader(f) if r]
        if len(rows2) != t["nrows"] + 1:
            ctx.fail("tool:row-count", {"got": len(rows2) - 1, "want": t["nrows"]})
            return
        for r, row in enumerate(rows2[1:]):
            for k, c in enumerate(cols):
                try:
                    got = float(row[k])
                except (ValueError, IndexError):
                    got = None
                if got is None or bits(got) != bits(c["data"][r]):
                    ctx.fail("tool:cell-written-by-the-tool-does-not-parse-back", {"row": r, "col": k, "text": row[k] if k < len(row) else None, "want": repr(float(c["data"][r]))})
                    return
    if len(ctx.samples) < 5 and t["nrows"]:
        ctx.sample({"kinds": kinds, "header": rows[0], "first_row": body[0] if body else None})
