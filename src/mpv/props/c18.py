"""C18 - NetCDF reading and writing are faithful.

Monitors: (read) reference comparison of EEMSRead results with the variable the harness wrote through netCDF4 directly, for
every combination of DataType in {absent, Float, Integer, Positive Float, Positive Integer, Fuzzy} x MissingValue in {absent,
present in data, absent from data}: element kind, values, mask == fill cells + cells equal to the missing value, positive and
fuzzy checks; (write) results written together with EEMSWrite are read back with EEMSRead and with netCDF4: same shape,
element kind and values, missing exactly where any written result was missing, template dimension variables, coordinate values
and attributes copied unchanged.
"""
import os
import random

import numpy

from mpv import arr

ANCHORS = ['mpilot/libraries/eems/netcdf/io.py:EEMSRead.execute', 'mpilot/libraries/eems/netcdf/io.py:EEMSWrite.execute', 'mpilot/libraries/eems/netcdf/exceptions.py:InvalidPositiveData.__str__', 'mpilot/libraries/eems/netcdf/exceptions.py:InvalidFuzzyData.__str__']   # repository functions the workload must enter (reported as anchors_reached / anchors_missed)
LEVEL = "exploration"
RULE = ("harness-generated template datasets (rank 1-3, extents 1-6, coordinate values and attributes, optional CRS variable with "
        "grid_mapping) x variables of f8/f4/i8/i4/i2 with and without _FillValue and random masks x every DataType x MissingValue "
        "combination; write cases with 1-4 results (float64/float32/int64/int32, nomask / all-false / random masks) written together; "
        "distinct by (case kind, rank, stored type, DataType, MissingValue class, has-fill, n results, mask classes)")
SCRATCH_PER_CASE = True      # no directory is used beyond the case that asked for it
REQUIRED_COUNTERS = ["non_ascii_names_in_command_files", "reruns_after_a_repaired_dataset", "netcdf_extra_cases", "plain_rereads_of_the_same_variable", "tool_runs_through_a_linked_command_file", "large_grids_written", "reads_compared", "type_check_cases", "writes_read_back", "template_copies_compared", "union_mask_checks", "writes_over_an_older_dataset", "other_type_name_spellings", "written_results_made_by_commands"]
ASSUMPTIONS = ["don't-care: real data equal to the fill value, result names clashing with dimension names, compression settings, plain ndarray results",
               "Fuzzy: data within [-1,1] must come back unchanged, data beyond +-1.5 must be rejected, whatever is returned lies in [-1,1]; the width "
               "of the tolerance band in between is not documented and not judged", "the parameter is called MissingValue in the code (MissingVal in the docs)"]

STORED = ["f8", "f4", "i8", "i4", "i2"]
DTYPES = [None, "Float", "Integer", "Positive Float", "Positive Integer", "Fuzzy"]


def gen_shape(rng):
    rank = rng.choice([1, 2, 2, 3])
    return [rng.randint(1, 6) for _ in range(rank)]


def cases(ctx):
    rng = ctx.rng("cases")
    k = 0
    for i in range(ctx.n(720, 40000)):
        stored = STORED[k % len(STORED)]
        dt = DTYPES[(k // len(STORED)) % len(DTYPES)]
        mv = ["absent", "in-data", "not-in-data"][(k // (len(STORED) * len(DTYPES))) % 3]
        k += 1
        yield {"kind": "read", "shape": gen_shape(rng), "stored": stored, "dtype": dt, "mv": mv, "fill": rng.random() < 0.6, "rseed": rng.randrange(10 ** 9),
               "flavour": rng.choice(["any", "any", "fuzzy-ok", "fuzzy-far", "nonneg", "fuzzy-pad"]),
               "marking": rng.choice(["_FillValue", "_FillValue", "missing_value", "valid_range", "valid_min_max"]), "spelling": rng.random() < 0.12}
    for i in range(ctx.n(400, 20000)):
        yield {"kind": "write", "shape": gen_shape(rng), "n": rng.randint(1, 4), "crs": rng.random() < 0.4, "rseed": rng.randrange(10 ** 9)}
    # a model run through the command-line tool by way of a symbolic link to its command file: the data files named in it are
    # those next to the link
    for i in range(ctx.n(8, 300)):
        yield {"kind": "toollink", "rseed": rng.randrange(10 ** 9)}
    for i in range(ctx.n(12, 600)):
        yield {"kind": "extras", "rseed": rng.randrange(10 ** 9)}
    # grids of more than a million cells, written and read back (block-wise writers / readers)
    for i in range(ctx.n(2, 16)):
        j = i * ctx.nshards + ctx.shard
        yield {"kind": "bigwrite", "shape": [[1500, 1000], [1025, 1100], [3, 700, 501], [2049, 513], [1200000]][j % 5], "rseed": rng.randrange(10 ** 9), "integer": j % 3 == 1}


def make_template(d, shape, rng, crs=False, packed=False):
    from netCDF4 import Dataset
    path = os.path.join(d, "template.nc")
    info = {"dims": [], "coords": {}, "attrs": {}}
    with Dataset(path, "w") as ds:
        for i, n in enumerate(shape):
            nm = ["y", "x", "t"][i] if len(shape) <= 3 else "d%d" % i
            ds.createDimension(nm, n)
            if packed and i == 0:
                # a packed coordinate variable: integers on disk, scale_factor / add_offset give the coordinate values
                v = ds.createVariable(nm, rng.choice(["i4", "i2"]), (nm,))
                v.scale_factor = rng.choice([0.01, 0.25, 0.5])
                v.add_offset = rng.choice([40.0, -100.0, 1000.0])
                vals = v.add_offset + numpy.arange(n) * v.scale_factor * rng.choice([1, 25, 100])
            else:
                v = ds.createVariable(nm, rng.choice(["f8", "f4", "i4"]), (nm,))
                vals = numpy.arange(n) * rng.choice([1, 2, 30]) + rng.choice([0, 100, -5])
            v[:] = vals
            v.units = rng.choice(["m", "degrees_north", "days since 2000-01-01"])
            v.long_name = "coordinate %s" % nm
            conv = {}
            if rng.random() < 0.5:
                # convention attributes whose names start with an underscore (netCDF-Java / CF tooling)
                conv = {"_CoordinateAxisType": rng.choice(["Lat", "Lon", "Time", "GeoY"]), "_ChunkHint": "none"}
                for an_, av_ in conv.items():
                    v.setncattr(an_, av_)
            info["dims"].append(nm)
            info["coords"][nm] = numpy.array(v[:]).tolist()
            info["attrs"][nm] = dict({"units": v.units, "long_name": v.long_name}, **conv)
            if packed and i == 0:
                info["attrs"][nm].update({"scale_factor": v.scale_factor, "add_offset": v.add_offset})
                v.set_auto_maskandscale(False)
                info.setdefault("raw", {})[nm] = numpy.array(v[:]).tolist()      # the integers on disk
                v.set_auto_maskandscale(True)
        info["template_fill"] = rng.choice([None, None, -9999.0, 0.0, 1.0])
        tv = ds.createVariable("tmpl", "f8", tuple(info["dims"]), fill_value=info["template_fill"])
        tv[:] = numpy.zeros(shape) + 5.0
        # a second template variable over its own, equally sized dimensions with other coordinates
        info["dims2"], info["coords2"] = [], {}
        for i, n in enumerate(shape):
            nm = ["row", "col", "band"][i]
            ds.createDimension(nm, n)
            v2 = ds.createVariable(nm, "f8", (nm,))
            v2[:] = numpy.arange(n) * 0.25 - 3
            v2.units = "index"
            info["dims2"].append(nm)
            info["coords2"][nm] = numpy.array(v2[:]).tolist()
        tv2 = ds.createVariable("tmpl2", "f8", tuple(info["dims2"]))
        tv2[:] = numpy.ones(shape)
        if crs:
            c = ds.createVariable("crs", "i4", ())
            c.grid_mapping_name = "latitude_longitude"
            c.semi_major_axis = 6378137.0
            tv.grid_mapping = "crs"
            tv.esri_pe_string = 'GEOGCS["GCS_WGS_1984"]'
    return path, info


def run_bigwrite(ctx, case):
    """A grid of more than 2^20 cells with scattered missing cells and a MissingValue-marked band: what EEMSWrite stores is
    what netCDF4 reads back, and what EEMSRead returns for the written file is the field again - cell for cell."""
    from netCDF4 import Dataset
    shape = tuple(case["shape"])
    rs = numpy.random.RandomState(case["rseed"] % (2 ** 31))
    d = ctx.scratch()
    tpath = os.path.join(d, "template.nc")
    with Dataset(tpath, "w") as ds:
        dims = []
        for i, n in enumerate(shape):
            ds.createDimension("d%d" % i, n)
            v = ds.createVariable("d%d" % i, "f8", ("d%d" % i,))
            v[:] = numpy.arange(n) * 1.0
            dims.append("d%d" % i)
        tv = ds.createVariable("tmpl", "f4", tuple(dims))
    n = int(numpy.prod(shape))
    if case["integer"]:
        data = rs.randint(-30000, 30000, size=shape).astype("int64")
    else:
        data = numpy.round(rs.uniform(-1000, 1000, size=shape) * 8) / 8.0
    mask = rs.uniform(size=shape) < 0.05
    flat = mask.reshape(-1)
    flat[n - 3000:n - 2000] = True          # a band of missing cells near the end, valid cells after it
    prog = arr.new_program(arr.NC_LIBS, working_dir=d)
    arr.standin(prog, "Big", numpy.ma.array(data, mask=mask), fuzzy=False)
    ctx.count("large_grids_written")
    ctx.feature(("bigwrite", len(shape), case["integer"], n % (2 ** 20) == 0))
    w = arr.invoke(prog, "EEMSWrite", "W", {"OutFileName": "big.nc", "OutFieldNames": ["Big"], "DimensionFileName": "template.nc", "DimensionFieldName": "tmpl"})
    if not w.ok:
        ctx.fail("roundtrip:large-grid:write-raises-%s" % (w.inner() or w.err), {"shape": list(shape), "error": str(w.exc)[:200]})
        return
    with Dataset(os.path.join(d, "big.nc")) as ds:
        if "Big" not in ds.variables or tuple(ds.variables["Big"].shape) != shape:
            ctx.fail("roundtrip:large-grid:variable-shape", {"want": list(shape), "got": list(ds.variables["Big"].shape) if "Big" in ds.variables else None})
            return
        stored = ds.variables["Big"][:]
    sm = numpy.ma.getmaskarray(stored)
    ctx.count("union_mask_checks")
    if not numpy.array_equal(sm, mask):
        k = int(numpy.nonzero(sm.reshape(-1) != mask.reshape(-1))[0][0])
        ctx.fail("roundtrip:large-grid:%s" % ("cell-lost" if sm.reshape(-1)[k] else "missing-cell-stored-as-data"), {"flat_cell": k, "cells_differing": int((sm != mask).sum()), "shape": list(shape)})
        return
    if not numpy.array_equal(numpy.ma.getdata(stored)[~mask], data[~mask]):
        ctx.fail("roundtrip:large-grid:value", {"shape": list(shape)})
        return
    back = arr.invoke(arr.new_program(arr.NC_LIBS, working_dir=d), "EEMSRead", "B", {"InFileName": "big.nc", "InFieldName": "Big", "DataType": "Integer" if case["integer"] else "Float", "MissingValue": 12345678})
    ctx.count("writes_read_back")
    if not back.ok:
        ctx.fail("roundtrip:large-grid:read-raises-%s" % (back.inner() or back.err), {"shape": list(shape)})
        return
    bm = numpy.ma.getmaskarray(back.value)
    if back.value.shape != shape or not numpy.array_equal(bm, mask) or not numpy.array_equal(numpy.ma.getdata(back.value)[~mask], data[~mask]):
        diff = int((bm != mask).sum()) if back.value.shape == shape else None
        ctx.fail("roundtrip:large-grid:read-back-differs", {"shape": list(shape), "cells_with_other_mask": diff})


def run_extras(ctx, case):
    """(a) fields of different rank in one EEMSWrite are refused and nothing is written; (b) a packed variable (small integers
    with scale_factor / add_offset) is read as the numbers it stands for; (c) a model whose read fails one of the library's own
    checks, run through the tool: non-zero exit status and the report."""
    from netCDF4 import Dataset
    from click.testing import CliRunner
    from mpilot.cli.mpilot import main
    rng = random.Random(case["rseed"])
    d = ctx.scratch()
    ny, nx = rng.randint(2, 4), rng.randint(2, 5)
    with Dataset(os.path.join(d, "t.nc"), "w") as ds:
        for nm, n_ in (("time", 1), ("y", ny), ("x", nx)):
            ds.createDimension(nm, n_)
            v = ds.createVariable(nm, "f8", (nm,))
            v[:] = numpy.arange(n_) * 1.0
        tv = ds.createVariable("tmpl", "f8", ("time", "y", "x"))
        tv[:] = numpy.arange(ny * nx, dtype="f8").reshape(1, ny, nx)
        pk = ds.createVariable("packed", "i2", ("y", "x"))
        pk.scale_factor = rng.choice([0.25, 0.01, 0.5])
        pk.add_offset = rng.choice([0.0, 10.0, -2.5])
        want_packed = (numpy.arange(ny * nx).reshape(ny, nx) - 3) * pk.scale_factor + pk.add_offset
        pk[:] = want_packed
        ng = ds.createVariable("neg", "f8", ("y", "x"))
        ng[:] = numpy.arange(ny * nx, dtype="f8").reshape(ny, nx) - 2.5
    ctx.count("netcdf_extra_cases")
    ctx.feature(("extras", ny, nx))
    # (a)
    prog = arr.new_program(arr.NC_LIBS, working_dir=d)
    arr.standin(prog, "T3", numpy.ma.array(numpy.arange(ny * nx, dtype="f8").reshape(1, ny, nx)), fuzzy=False)
    arr.standin(prog, "T2", numpy.ma.array(numpy.arange(ny * nx, dtype="f8").reshape(ny, nx)), fuzzy=False)
    w = arr.invoke(prog, "EEMSWrite", "W", {"OutFileName": "mixed.nc", "OutFieldNames": ["T3", "T2"], "DimensionFileName": "t.nc", "DimensionFieldName": "tmpl"})
    if w.ok or w.err != "MixedArrayShapes" or os.path.exists(os.path.join(d, "mixed.nc")):
        ctx.fail("write:fields-of-different-rank:%s" % ("accepted" if w.ok else "file-written" if w.err == "MixedArrayShapes" else "raises-" + (w.inner() or w.err)), {"shapes": [[1, ny, nx], [ny, nx]]})
        return
    # (b)
    for dt in (None, "Float"):
        args = {"InFileName": "t.nc", "InFieldName": "packed"}
        if dt:
            args["DataType"] = dt
        r = arr.invoke(arr.new_program(arr.NC_LIBS, working_dir=d), "EEMSRead", "P", args)
        ctx.count("reads_compared")
        if not r.ok:
            ctx.fail("read:packed-variable:raises-%s" % (r.inner() or r.err), {"error": repr(r.exc)[:200]})
            return
        if r.value.shape != (ny, nx) or not numpy.allclose(numpy.ma.getdata(r.value), want_packed, rtol=0, atol=1e-9) or numpy.ma.getmaskarray(r.value).any():
            ctx.fail("read:packed-variable:value", {"got": numpy.ma.getdata(r.value).reshape(-1)[:4].tolist(), "want": want_packed.reshape(-1)[:4].tolist(), "scale_factor": float(pk.scale_factor) if False else None})
            return
    # (b1) a command file naming a variable and files with non-ASCII characters in quoted strings; the producer carries metadata
    # entries named like attributes the NetCDF library interprets - what is written is the result, and it reads back as written
    from mpilot.program import Program as _P1
    uname = ["temp\u00e9rature", "h\u00f6he", "\u6e29\u5ea6"][case["rseed"] % 3]
    with Dataset(os.path.join(d, "t.nc"), "a") as ds:
        uv = ds.createVariable(uname, "f8", ("y", "x"))
        uvals = numpy.arange(ny * nx, dtype="f8").reshape(ny, nx) - 2.5
        uv[:] = uvals
    meta = ["valid_min: 0, valid_max: 1", "scale_factor: 2, add_offset: 5", "missing_value: -0.5", "valid_min: 0"][case["rseed"] // 3 % 4]
    text1 = ('A = EEMSRead(InFileName = "t.nc", InFieldName = "%s", Metadata = [%s, DisplayName: "x"])\n'
             'Out = EEMSWrite(OutFileName = "r\u00e9sultat.nc", OutFieldNames = [A], DimensionFileName = "t.nc", DimensionFieldName = "%s")\n') % (uname, meta, uname)
    ctx.count("non_ascii_names_in_command_files")
    try:
        _P1.from_source(text1, libraries=arr.NC_LIBS, working_dir=d).run()
    except Exception as e:
        ctx.fail("roundtrip:command-file-with-non-ascii-names:raises-%s" % type(e).__name__, {"error": str(e)[:200], "variable": uname})
        return
    outp = os.path.join(d, "r\u00e9sultat.nc")
    if not os.path.exists(outp):
        ctx.fail("roundtrip:command-file-with-non-ascii-names:output-file-not-where-it-was-named", {"files": sorted(os.listdir(d))[:8]})
        return
    with Dataset(outp) as ds:
        back = ds.variables["A"][:]
    if numpy.ma.getmaskarray(back).any() or not numpy.array_equal(numpy.ma.getdata(back), uvals):
        ctx.fail("roundtrip:metadata-named-like-netcdf-attributes-changes-what-is-read-back", {"metadata": meta, "missing_cells": int(numpy.ma.getmaskarray(back).sum()), "first": numpy.ma.getdata(back).reshape(-1)[:3].tolist(), "want_first": uvals.reshape(-1)[:3].tolist()})
        return
    # (b2) a read that is refused by the library's check, the dataset repaired, the very same program run again
    from mpilot.program import Program
    text2 = 'A = EEMSRead(InFileName = "fix.nc", InFieldName = v, DataType = "Positive Float")\nB = Sum(InFieldNames = [A, A])\nOut = EEMSWrite(OutFileName = "fixed_out.nc", OutFieldNames = [B], DimensionFileName = "fix.nc", DimensionFieldName = v)'
    def _write_fix(vals):
        with Dataset(os.path.join(d, "fix.nc"), "w") as ds:
            ds.createDimension("x", len(vals))
            xv = ds.createVariable("x", "f8", ("x",))
            xv[:] = numpy.arange(len(vals)) * 1.0
            v = ds.createVariable("v", "f8", ("x",))
            v[:] = numpy.array(vals, dtype="f8")
    _write_fix([1.0, -2.0, 3.0])
    try:
        p2 = Program.from_source(text2, libraries=arr.NC_LIBS, working_dir=d)
        first = None
        try:
            p2.run()
        except Exception as e:
            first = e
        if first is None:
            ctx.fail("read:Positive Float:negative-data-accepted", {})
            return
        _write_fix([1.0, 2.0, 3.0])
        ctx.count("reruns_after_a_repaired_dataset")
        try:
            p2.run()
        except Exception as e:
            ctx.fail("read:run-again-after-the-dataset-was-repaired-raises-%s" % type(e).__name__, {"first_error": type(first).__name__, "error": str(e)[:200]})
            return
        got2 = numpy.ma.getdata(p2.commands["B"].result).tolist()
        if got2 != [2.0, 4.0, 6.0] or not os.path.exists(os.path.join(d, "fixed_out.nc")):
            ctx.fail("read:run-again-after-the-dataset-was-repaired:%s" % ("wrong-values" if got2 != [2.0, 4.0, 6.0] else "nothing-written"), {"got": got2})
            return
    except Exception as e:
        ctx.note_inconclusive("repair case: %s" % repr(e)[:200])
    # (c)
    which = case["rseed"] % 3
    line = ['A = EEMSRead(InFileName = "t.nc", InFieldName = neg, DataType = "Positive Float")', 'A = EEMSRead(InFileName = "t.nc", InFieldName = tmpl, DataType = Fuzzy)',
            'A = EEMSRead(InFileName = "t.nc", InFieldName = nowhere)'][which]
    fp = os.path.join(d, "model.mpt")
    with open(fp, "w") as f:
        f.write(line + "\nB = Sum(InFieldNames = [A, A])\n")
    try:
        res = CliRunner(mix_stderr=False).invoke(main, ["eems-netcdf", fp])
    except TypeError:
        res = CliRunner().invoke(main, ["eems-netcdf", fp])
    try:
        etxt = res.stderr
    except Exception:
        etxt = res.output
    if res.exit_code == 0 or "Problem" not in etxt:
        ctx.fail("tool:failed-check-of-the-netcdf-library:%s" % ("exit-status-0" if res.exit_code == 0 else "no-report"), {"check": ["positive", "fuzzy", "no-such-variable"][which], "exit": res.exit_code, "stderr": etxt[-200:]})


def run_toollink(ctx, case):
    from netCDF4 import Dataset
    from click.testing import CliRunner
    from mpilot.cli.mpilot import main
    rng = random.Random(case["rseed"])
    d = ctx.scratch()
    proj, store = os.path.join(d, "project"), os.path.join(d, "store")
    os.makedirs(proj)
    os.makedirs(store)
    n = rng.randint(3, 9)
    vals = {}
    for where, base in ((proj, 100.0), (store, 500.0)):
        with Dataset(os.path.join(where, "in.nc"), "w") as ds:
            ds.createDimension("x", n)
            xv = ds.createVariable("x", "f8", ("x",))
            xv[:] = numpy.arange(n) * 1.0
            v = ds.createVariable("var", "f8", ("x",))
            vals[where] = base + numpy.arange(n) * rng.choice([1.0, 0.5, 2.25])
            v[:] = vals[where]
    text = 'A = EEMSRead(InFileName = "in.nc", InFieldName = var)\nB = Sum(InFieldNames = [A, A])\nOut = EEMSWrite(OutFileName = "out.nc", OutFieldNames = [B], DimensionFileName = "in.nc", DimensionFieldName = var)\n'
    with open(os.path.join(store, "model.mpt"), "w") as f:
        f.write(text)
    direct = rng.random() < 0.3
    if direct:
        with open(os.path.join(proj, "model.mpt"), "w") as f:
            f.write(text)
    else:
        os.symlink(os.path.join(store, "model.mpt"), os.path.join(proj, "model.mpt"))
    try:
        res = CliRunner(mix_stderr=False).invoke(main, ["eems-netcdf", os.path.join(proj, "model.mpt")])
    except TypeError:
        res = CliRunner().invoke(main, ["eems-netcdf", os.path.join(proj, "model.mpt")])
    ctx.count("tool_runs_through_a_linked_command_file")
    ctx.feature(("toollink", direct, n))
    out = os.path.join(proj, "out.nc")
    if res.exit_code != 0 or not os.path.exists(out):
        ctx.fail("tool:model-next-to-its-data-fails%s" % ("" if direct else ":command-file-is-a-symbolic-link"), {"exit": res.exit_code, "exception": repr(res.exception)[:200], "written_elsewhere": os.path.exists(os.path.join(store, "out.nc"))})
        return
    with Dataset(out) as ds:
        got = numpy.array(ds.variables["B"][:])
    if not numpy.array_equal(got, 2 * vals[proj]):
        ctx.fail("tool:reads-the-data-next-to-the-link-target", {"got": got.tolist()[:4], "want": (2 * vals[proj]).tolist()[:4]})


def run_case(ctx, case):
    if case["kind"] == "toollink":
        return run_toollink(ctx, case)
    if case["kind"] == "extras":
        return run_extras(ctx, case)
    if case["kind"] == "bigwrite":
        return run_bigwrite(ctx, case)
    return run_read(ctx, case) if case["kind"] == "read" else run_write(ctx, case)


def _gen_values(rng, n, stored, flavour):
    integer = stored.startswith("i")
    out = []
    for _ in range(n):
        if flavour == "fuzzy-ok":
            v = rng.randint(-8, 8) / 8.0 if not integer else rng.choice([-1, 0, 1])
        elif flavour == "fuzzy-pad":
            # within one percent of the fuzzy range beyond its ends (rounding noise of an earlier tool)
            v = rng.choice([1.015, -1.01, 1.02, 1.0000001, -1.0000001, 0.5, -0.75, 1.0, -1.0]) if not integer else rng.choice([-1, 0, 1])
        elif flavour == "fuzzy-far":
            v = rng.choice([-3.0, 2.5, 0.5, -0.25, 7.0]) if not integer else rng.choice([-3, 2, 0, 5])
        elif flavour == "nonneg":
            v = rng.randint(0, 400) / 8.0 if not integer else rng.randint(0, 300)
        else:
            v = rng.randint(-400, 400) / 8.0 if not integer else rng.randint(-300, 300)
        out.append(v)
    return out


def run_read(ctx, case):
    from netCDF4 import Dataset
    rng = random.Random(case["rseed"])
    shape = tuple(case["shape"])
    stored, dt, mvclass = case["stored"], case["dtype"], case["mv"]
    d = ctx.scratch()
    n = int(numpy.prod(shape))
    vals = _gen_values(rng, n, stored, case["flavour"])
    fillmask = [case["fill"] and rng.random() < 0.25 for _ in range(n)]
    if all(fillmask):
        fillmask[0] = False
    integer = stored.startswith("i")
    mv = None
    if mvclass == "in-data":
        cands = [v for v, m in zip(vals, fillmask) if not m]
        mv = rng.choice(cands) if cands else 77
    elif mvclass == "not-in-data":
        mv = 4242
    if mv is not None and stored == "i8" and dt in ("Integer", None, "Float") and case["rseed"] % 2 == 1 and (not case["fill"] or case.get("marking", "_FillValue") == "_FillValue"):
        # a marker beyond 2^53 next to its neighbours (integers that a double cannot tell apart)
        mv = rng.choice([9007199254740993, -9007199254740993, 2 ** 62 + 1])
        for i in range(n):
            if not fillmask[i] and rng.random() < 0.5:
                vals[i] = rng.choice([mv, mv - 1, mv + 1])
        if dt != "Integer":
            mv = None       # read as floats the neighbours collapse: only the integer read is judged with such a marker
    if mv is not None and not integer and stored == "f8" and case["flavour"] == "any":
        # valid cells very close to - but different from - the missing value stay valid
        for i in range(n):
            if rng.random() < 0.3 and not fillmask[i] and vals[i] != mv:
                vals[i] = mv + rng.choice([0.05, -0.05, 1e-7, -1e-7, 5e-9, abs(mv) * 2 ** -52 if mv else 5e-324])
    path = os.path.join(d, "in.nc")
    with Dataset(path, "w") as ds:
        names = []
        for i, e in enumerate(shape):
            ds.createDimension("d%d" % i, e)
            names.append("d%d" % i)
        marking = case.get("marking", "_FillValue") if case["fill"] else "_FillValue"
        if marking == "_FillValue":
            v = ds.createVariable("var", stored, tuple(names), fill_value=(-32000 if integer else -1e30) if case["fill"] else None)
            a = numpy.ma.array(numpy.array(vals, dtype=stored).reshape(shape), mask=numpy.array(fillmask).reshape(shape))
            v[:] = a
        else:
            # the file marks its missing cells through the missing_value attribute or a valid range, not through _FillValue
            sentinel = -32000 if integer else -1e30
            v = ds.createVariable("var", stored, tuple(names), fill_value=False)
            raw = numpy.array([sentinel if m else x for x, m in zip(vals, fillmask)], dtype=stored).reshape(shape)
            if marking == "missing_value":
                v.missing_value = numpy.array(sentinel, dtype=stored)
            elif marking == "valid_range":
                v.valid_range = numpy.array([-31000 if integer else -1e29, 32000 if integer else 1e29], dtype=stored)
            else:
                v.valid_min = numpy.array(-31000 if integer else -1e29, dtype=stored)
                v.valid_max = numpy.array(32000 if integer else 1e29, dtype=stored)
            v[:] = raw
    ctx.feature(("read", len(shape), stored, dt, mvclass, case["fill"], case["flavour"], marking))
    prog = arr.new_program(arr.NC_LIBS, working_dir=d)
    # every other case names its file relative to the program's working directory (the same name in every directory)
    args = {"InFileName": path if case["rseed"] % 2 else os.path.basename(path), "InFieldName": "var"}
    if dt:
        args["DataType"] = dt
    if mv is not None:
        args["MissingValue"] = mv
    if dt and case.get("spelling"):
        # the type name written another way: refused as an unknown type, or treated exactly like the documented spelling
        args["DataType"] = rng.choice([dt.lower(), dt.upper(), dt.replace(" ", "  "), " " + dt, dt.replace(" ", "")])
        if args["DataType"] != dt:
            ctx.count("other_type_name_spellings")
            out = arr.invoke(prog, "EEMSRead", "R", args)
            if not out.ok and out.err == "ParameterNotValid":
                return
            prog.commands.pop("R", None)
    plain1 = None
    if case["rseed"] % 3 == 0:
        # the same variable is read plainly (no type name, no missing value) before and after the read under test: both plain
        # reads give the stored values, and the earlier one is not changed by what was read later
        plain1 = arr.invoke(arr.new_program(arr.NC_LIBS, working_dir=d), "EEMSRead", "P1", {"InFileName": path, "InFieldName": "var"})
        plain1_digest = arr.digest(plain1.value) if plain1.ok and isinstance(plain1.value, numpy.ndarray) else None
    out = arr.invoke(prog, "EEMSRead", "R", args)
    if plain1 is not None and plain1.ok and plain1_digest is not None:
        ctx.count("plain_rereads_of_the_same_variable")
        plain2 = arr.invoke(arr.new_program(arr.NC_LIBS, working_dir=d), "EEMSRead", "P2", {"InFileName": path, "InFieldName": "var"})
        if arr.digest(plain1.value) != plain1_digest:
            ctx.fail("read:earlier-read-of-the-same-variable-changed-by-a-later-read", {"later_read": {k_: v_ for k_, v_ in args.items() if k_ != "InFileName"}, "stored": stored})
            return
        if not plain2.ok or arr.digest(plain2.value) != plain1_digest:
            ctx.fail("read:plain-read-differs-after-another-read-of-the-same-variable", {"other_read": {k_: v_ for k_, v_ in args.items() if k_ != "InFileName"}, "stored": stored, "error": repr(plain2.exc)[:200] if not plain2.ok else None})
            return
    valid = [v for v, m in zip(vals, fillmask) if not m]
    has_neg = any(v < 0 for v in valid)
    key = "read:%s:%s" % (dt or "default", "mv-" + mvclass if mvclass != "absent" else "no-mv")
    # ---- type checks
    if dt in ("Positive Float", "Positive Integer"):
        ctx.count("type_check_cases")
        if has_neg:
            if out.ok or out.err != "InvalidPositiveData":
                ctx.fail("%s:negative-data-%s" % (key, "accepted" if out.ok else "raises-" + (out.inner() or out.err)), {"valid": valid[:8], "error": repr(out.exc)[:200]})
            else:
                try:
                    str(out.exc)
                except Exception as e:
                    ctx.fail("%s:error-message-raises-%s" % (key, type(e).__name__), {})
            return
    if dt == "Fuzzy":
        ctx.count("type_check_cases")
        far = any(abs(v) > 1.5 for v in valid)
        inside = all(abs(v) <= 1.0 for v in valid)
        if far:
            if out.ok or out.err != "InvalidFuzzyData":
                ctx.fail("%s:far-out-of-range-%s" % (key, "accepted" if out.ok else "raises-" + (out.inner() or out.err)), {"valid": valid[:8], "error": repr(out.exc)[:200]})
            else:
                try:
                    str(out.exc)
                except Exception as e:
                    ctx.fail("%s:error-message-raises-%s" % (key, type(e).__name__), {})
            return
        if not inside:
            if out.ok:
                res = out.value
                dd = numpy.ma.getdata(res)[~numpy.ma.getmaskarray(res)]
                if dd.size and (dd.max() > 1 or dd.min() < -1):
                    ctx.fail("%s:returns-values-outside-fuzzy-range" % key, {"range": [float(dd.min()), float(dd.max())]})
            return
    if not out.ok:
        ctx.fail("%s:valid-read-raises-%s:%s" % (key, out.inner() or out.err, "int-stored" if integer else "float-stored"), {"error": str(out.exc)[:400], "args": {k: v for k, v in args.items() if k != "InFileName"}})
        return
    res = out.value
    ctx.count("reads_compared")
    if not isinstance(res, numpy.ndarray) or res.shape != shape:
        ctx.fail("%s:shape" % key, {"got": list(getattr(res, "shape", [])), "want": list(shape)})
        return
    want_int = dt in ("Integer", "Positive Integer")
    if (res.dtype.kind in "iu") != want_int or (not want_int and res.dtype != numpy.float64):
        ctx.fail("%s:element-kind" % key, {"dtype": str(res.dtype), "requested": dt, "stored": stored})
        return
    rm = numpy.ma.getmaskarray(res).ravel()
    rd = numpy.ma.getdata(res).ravel()
    stored_vals = numpy.array(vals, dtype=stored)   # what the file holds (f4 rounding applied)
    for i in range(n):
        sv = stored_vals[i].item()
        conv = int(round(sv)) if want_int else float(sv)
        want_missing = fillmask[i] or (mv is not None and conv == (int(mv) if want_int else float(mv)))
        if bool(rm[i]) != want_missing:
            ctx.fail("%s:mask-%s%s" % (key, "valid-cell-masked" if rm[i] else "missing-cell-present", ":marked-by-" + marking if fillmask[i] and marking != "_FillValue" else ""), {"cell": i, "stored": sv, "missing_value": mv, "fill_cell": fillmask[i]})
            return
        if not want_missing:
            got = rd[i].item()
            if want_int:
                if abs(sv - round(sv)) == 0.5:
                    continue    # ties: rounding mode not documented
                if got != conv:
                    ctx.fail("%s:value" % key, {"cell": i, "got": got, "want": conv, "stored": sv})
                    return
            elif got != conv:
                ctx.fail("%s:value" % key, {"cell": i, "got": got, "want": conv, "stored": sv})
                return
    if len(ctx.samples) < 3:
        ctx.sample({"stored": stored, "DataType": dt, "MissingValue": mv, "shape": list(shape), "result": arr.describe(res, 6)})


def run_write(ctx, case):
    from netCDF4 import Dataset
    rng = random.Random(case["rseed"])
    shape = tuple(case["shape"])
    d = ctx.scratch()
    packed = case["rseed"] % 3 == 0
    tpath, info = make_template(d, shape, rng, case["crs"], packed=packed)
    prog = arr.new_program(arr.NC_LIBS, working_dir=d)
    n = int(numpy.prod(shape))
    names, arrays, mclasses = [], [], []
    for k in range(case["n"]):
        dt = rng.choice(["float64", "float64", "float32", "int64", "int32"])
        vals = [rng.randint(-400, 400) / 8.0 if dt.startswith("f") else rng.randint(-300, 300) for _ in range(n)]
        if dt == "int64" and rng.random() < 0.4:
            vals[rng.randrange(n)] = rng.choice([2 ** 31, -2 ** 31 - 1, 2 ** 40 + 7, 2 ** 53 + 1, -2 ** 62])       # beyond 32 bits
        if info.get("template_fill") is not None and rng.random() < 0.7:
            vals[rng.randrange(n)] = type(vals[0])(info["template_fill"])       # the template's own no-data marker, here an ordinary value
        if dt == "float64" and rng.random() < 0.3:
            vals[rng.randrange(n)] = rng.choice([float("inf"), float("-inf")])      # a value, not a missing cell
        mstyle = rng.choice(["nomask", "allfalse", "random", "random"])
        data = numpy.array(vals, dtype=dt).reshape(shape)
        if mstyle == "nomask":
            a = numpy.ma.array(data)
        elif mstyle == "allfalse":
            a = numpy.ma.array(data, mask=numpy.zeros(shape, bool))
        else:
            a = numpy.ma.array(data, mask=numpy.array([rng.random() < 0.3 for _ in range(n)]).reshape(shape))
        nm = ["Res0", "res0", "RES0", "Res3"][k] if case["rseed"] % 2 == 0 else "Res%d" % k        # names that differ only in letter case are different results
        if dt == "float64" and case["rseed"] % 5 == 2 and not numpy.isinf(data).any():
            # a fuzzy result as a real command leaves it (fully true / fully false cells among them), not a stand-in
            fz = numpy.ma.array(numpy.clip(numpy.round(numpy.ma.getdata(a) / 50.0 * 8) / 8.0, -1, 1), mask=numpy.ma.getmaskarray(a).copy() if mstyle != "nomask" else False)
            arr.standin(prog, "Neg_" + nm, -fz, fuzzy=True)
            made = arr.invoke(prog, "FuzzyNot", nm, {"InFieldName": "Neg_" + nm})
            if made.ok:
                a = made.value
                ctx.count("written_results_made_by_commands")
                names.append(nm)
                arrays.append(a)
                mclasses.append(mstyle)
                continue
            prog.commands.pop(nm, None)
        arr.standin(prog, nm, a)
        names.append(nm)
        arrays.append(a)
        mclasses.append(mstyle)
    ctx.feature(("write", len(shape), case["n"], tuple(sorted(set(str(a.dtype) for a in arrays))), tuple(sorted(set(mclasses))), case["crs"]))
    digests_before = [arr.digest(a) for a in arrays]
    _orig = [a.copy() for a in arrays]
    opath = os.path.join(d, "out.nc")
    older = case["rseed"] % 4 == 1
    if older:
        # the output path already holds a dataset of an earlier model run: same dimension names with other coordinates, a
        # variable of the first result's name stored as 32-bit integers, and a variable the new model does not write
        with Dataset(opath, "w") as old:
            for nm, ext in zip(info["dims"], shape):
                old.createDimension(nm, ext)
                ov = old.createVariable(nm, "f8", (nm,))
                ov[:] = numpy.arange(ext) * 7.0 + 1234
            ov = old.createVariable(names[0], "i4", tuple(info["dims"]))
            ov[:] = numpy.zeros(shape, "i4")
            ov = old.createVariable("Stale", "f8", tuple(info["dims"]))
            ov[:] = numpy.ones(shape)
        ctx.count("writes_over_an_older_dataset")
    rel = (lambda p_: os.path.basename(p_)) if case["rseed"] % 2 == 0 else (lambda p_: p_)       # relative to the working directory in every other case
    out = arr.invoke(prog, "EEMSWrite", "W", {"OutFileName": rel(opath), "OutFieldNames": list(names), "DimensionFileName": rel(tpath), "DimensionFieldName": "tmpl"})
    mkey = "first-" + mclasses[0] + ("+later-mask" if any(m == "random" for m in mclasses[1:]) else "")
    if not out.ok:
        ctx.fail("write:raises-%s:%s" % (out.inner() or out.err, mkey), {"error": str(out.exc)[:400], "masks": mclasses, "dtypes": [str(a.dtype) for a in arrays]})
        return
    ctx.count("writes_read_back")
    union = numpy.zeros(shape, bool)
    for a in arrays:
        union |= numpy.ma.getmaskarray(a)
    # template copy
    ctx.count("template_copies_compared")
    with Dataset(opath) as ds:
        for nm in info["dims"]:
            if nm not in ds.variables or nm not in ds.dimensions:
                ctx.fail("write:template-dimension-missing", {"dimension": nm})
                return
            got = numpy.array(ds[nm][:]).tolist()
            if got != info["coords"][nm]:
                ctx.fail("write:template-coordinates-changed%s%s" % (":packed-coordinate" if nm in info.get("raw", {}) else "", ":path-held-an-older-dataset" if older else ""),
                         {"dimension": nm, "got": got, "want": info["coords"][nm]})
                return
            if nm in info.get("raw", {}):
                ds[nm].set_auto_maskandscale(False)
                graw = numpy.array(ds[nm][:]).tolist()
                if graw != info["raw"][nm] or str(ds[nm].dtype) != info.get("raw_dtype", {}).get(nm, str(ds[nm].dtype)):
                    ctx.fail("write:template-coordinates-changed:packed-coordinate", {"dimension": nm, "stored": graw, "want_stored": info["raw"][nm]})
                    return
            for an, av in info["attrs"][nm].items():
                if an not in ds[nm].ncattrs() or ds[nm].getncattr(an) != av:
                    ctx.fail("write:template-attribute-lost", {"dimension": nm, "attribute": an})
                    return
        for nm in names:
            if nm not in ds.variables or tuple(ds[nm].dimensions) != tuple(info["dims"]):
                ctx.fail("write:variable-missing-or-wrong-dimensions", {"variable": nm})
                return
        if older:
            stale = [v for v in ds.variables if v not in names and v not in info["dims"] and v != "crs"]
            kind0 = ds[names[0]].dtype.kind
            if stale or (kind0 in "iu") != (arrays[0].dtype.kind in "iu"):
                ctx.fail("write:older-dataset-at-the-output-path-not-replaced", {"left_over_variables": stale, "stored_type_of_first_result": str(ds[names[0]].dtype), "result_type": str(arrays[0].dtype)})
                return
    # read back through EEMSRead
    for k, nm in enumerate(names):
        a = arrays[k]
        integer = a.dtype.kind in "iu"
        o = arr.invoke(prog, "EEMSRead", "Back%d" % k, {"InFileName": rel(opath), "InFieldName": nm, "DataType": "Integer" if integer else "Float"})
        if not o.ok:
            ctx.fail("roundtrip:read-raises-%s" % (o.inner() or o.err), {"error": str(o.exc)[:300]})
            return
        res = o.value
        if res.shape != shape:
            ctx.fail("roundtrip:shape", {"got": list(res.shape), "want": list(shape)})
            return
        if (res.dtype.kind in "iu") != integer:
            ctx.fail("roundtrip:element-kind", {"got": str(res.dtype), "written": str(a.dtype)})
            return
        ctx.count("union_mask_checks")
        rm = numpy.ma.getmaskarray(res)
        if (rm != union).any():
            i = int(numpy.flatnonzero((rm != union).ravel())[0])
            ctx.fail("roundtrip:mask-is-not-union-of-written-masks:%s" % ("cell-lost" if rm.ravel()[i] else "missing-cell-present"), {"cell": i, "masks": mclasses, "n": len(names)})
            return
        ok = numpy.ma.getdata(res)[~union] == numpy.ma.getdata(a)[~union].astype(res.dtype)
        if not ok.all():
            ctx.fail("roundtrip:values-differ", {"variable": nm, "written": arr.describe(a, 8), "read": arr.describe(res, 8)})
            return
    # the same template *file*, another template variable: its own dimensions and coordinates must be used
    p3 = os.path.join(d, "other_template_var.nc")
    o3 = arr.invoke(prog, "EEMSWrite", "W_tmpl2", {"OutFileName": p3, "OutFieldNames": [names[0]], "DimensionFileName": tpath, "DimensionFieldName": "tmpl2"})
    ctx.count("template_copies_compared")
    if not o3.ok:
        ctx.fail("write:second-template-variable-raises-%s" % (o3.inner() or o3.err), {"error": str(o3.exc)[:300]})
        return
    with Dataset(p3) as ds:
        for nm in info["dims2"]:
            if nm not in ds.variables or numpy.array(ds[nm][:]).tolist() != info["coords2"][nm]:
                ctx.fail("write:template-of-another-variable-used", {"expected_dimension": nm, "dimensions_written": list(ds.dimensions), "variables": list(ds.variables)})
                return
        if tuple(ds[names[0]].dimensions) != tuple(info["dims2"]):
            ctx.fail("write:template-of-another-variable-used", {"variable_dimensions": list(ds[names[0]].dimensions), "want": info["dims2"]})
            return
    # second step of the history: each result written again on its own, after the joint write
    for k, nm in enumerate(names[:2]):
        a = arrays[k]
        p2 = os.path.join(d, "alone%d.nc" % k)
        o = arr.invoke(prog, "EEMSWrite", "W_alone%d" % k, {"OutFileName": p2, "OutFieldNames": [nm], "DimensionFileName": tpath, "DimensionFieldName": "tmpl"})
        if not o.ok:
            ctx.fail("write:second-write-raises-%s" % (o.inner() or o.err), {"error": str(o.exc)[:300]})
            return
        r = arr.invoke(prog, "EEMSRead", "Alone%d" % k, {"InFileName": p2, "InFieldName": nm, "DataType": "Integer" if a.dtype.kind in "iu" else "Float"})
        ctx.count("union_mask_checks")
        own = [bool(x) for x in numpy.ma.getmaskarray(_orig[k]).ravel()]
        if not r.ok or [bool(x) for x in numpy.ma.getmaskarray(r.value).ravel()] != own:
            ctx.fail("sequence:result-written-alone-after-joint-write-has-foreign-missing-cells", {"variable": nm, "masks": mclasses, "n": len(names),
                                                                                                  "read": arr.describe(r.value, 8) if r.ok else r.err})
            return
    if [arr.digest(a) for a in arrays] != digests_before:
        ctx.dontcare("writer modified a written result (judged by C09)")
    if len(ctx.samples) < 6:
        ctx.sample({"shape": list(shape), "written": names, "dtypes": [str(a.dtype) for a in arrays], "masks": mclasses, "crs": case["crs"]})
