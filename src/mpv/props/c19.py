"""C19 - command lookup depends only on the libraries requested.

Monitor: Program.command_library (command name -> defining module, plus the behaviour of a probe command from each harness
library) is recorded for a probe construction after an arbitrary history of earlier steps in the same process (Program
constructions with other library subsets/orders, direct imports of library modules, Command subclasses defined in __main__ or
under a library-like module name, model runs) and compared with the same probe in a clean process. One fresh subprocess per
history. Libraries sharing a command name must fail at construction; disjoint ones must not.
"""
import json
import os
import subprocess
import sys

from mpv import arr

ANCHORS = []   # repository functions the workload must enter (reported as anchors_reached / anchors_missed)
LEVEL = "exploration"
RULE = ("histories of 0-6 steps from {Program(subset/order of libraries), import library module, define Command subclass (in __main__, "
        "named like a built-in, or under a prefix-related module name), run a model} followed by a probe Program(libraries) for library "
        "sets over ulib / ulib_extra / ulibx (prefix-related names, overlapping and disjoint command names), packages upkg / upkg_more, "
        "other, and the built-in CSV / NetCDF sets; each history in a fresh process, compared with the probe alone; distinct by (probe "
        "library set, multiset of step kinds, libraries touched by the history)")
REQUIRED_COUNTERS = ["histories_run", "clean_room_references", "library_snapshots_compared", "duplicate_expectations_checked"]
ASSUMPTIONS = ["identity of class objects is not compared (package libraries are re-executed per Program)", "order of names in the duplicate message is not judged"]

USER = ["ukw", "umeta", "upkg._legacy", "ulib", "ulib_extra", "ulibx", "other", "upkg", "upkg_more", "upkg_one", "upkgzone", "upkg.one", "upkg.two", "updup.a", "usub", "updup.c"]
CSV = list(arr.CSV_LIBS)
NC = list(arr.NC_LIBS)
PROBES = [["ulib"], ["ulib_extra"], ["ulibx"], ["other"], ["upkg"], ["upkg_more"], ["ulib", "other"], ["other", "ulib"], ["ulib", "ulib_extra"], ["ulib", "ulibx"],
          ["ulib_extra", "other"], ["upkg", "other"], ["upkg", "upkg_more"], CSV, NC, CSV + ["ulib"], ["ulib"] + NC, CSV + ["other", "upkg"], ["mpilot.libraries.eems.basic"],
          ["mpilot.libraries.eems.basic", "ulibx"], ["mpilot.libraries.eems.csv"], ["mpilot.libraries.eems.netcdf"], ["mpilot.libraries.eems.csv", "mpilot.libraries.eems.netcdf"],
          ["upkg.one"], ["upkg.one", "upkg.two"], ["upkg.one", "other"], ["upkg_one"], ["updup"], ["updup.a"], ["updup.a", "updup.b"], ["updup.a", "other"],
          ["mpilot.libraries.eems"], ["upkg", "upkg_one"], [], ["usub"], ["mpilot.libraries.eems.basic", "usub"], ["usub", "mpilot.libraries.eems.basic"], CSV + ["usub"],
          ["updup.a", "updup.c"], ["updup.c"], ["upkg.two"], ["upkg.named", "upkg.one"], ["usub", "other"], ["wdlib"], ["other", "wdlib"], ["umeta"], ["umeta", "other"], ["upkg._legacy"], ["ukw"], CSV + ["ukw"]]
# expected duplicates by construction of the harness libraries (None = must succeed)
DUPS = {("ulib", "ulib_extra"): ["Shared"], ("ulib", "ulibx"): ["Alpha"], ("upkg", "upkg_more"): ["PkgOne"],
        ("mpilot.libraries.eems.csv", "mpilot.libraries.eems.netcdf"): ["EEMSRead", "EEMSWrite"],
        ("updup",): ["Shared"], ("updup.a", "updup.b"): ["Shared"], ("mpilot.libraries.eems",): ["EEMSRead", "EEMSWrite"], ("upkg", "upkg_one"): ["PkgOne"],
        ("mpilot.libraries.eems.basic", "usub"): ["Sum"], ("updup.a", "updup.c"): ["Shared"]}
MODEL = "A = Alpha()\nB = Shared()"
EXPECTED_NAMES = {"ukw": ["MEAN", "AND"], "umeta": ["Meta1", "Plain1", "Meta2"], "upkg._legacy": ["Legacy"], "ulib": ["Alpha", "Shared", "AlphaTwo"], "ulib_extra": ["Beta", "Shared"], "ulibx": ["Gamma", "Alpha"], "other": ["Delta", "Not", "Max"], "upkg_one": ["Underscore", "PkgOne"],
                  "upkgzone": ["Zed"], "updup.a": ["Shared", "OnlyA"], "upkg.two": ["PkgTwo"], "upkg.one": ["PkgOne"], "upkg.named": ["Scale"]}


def gen_history(rng):
    steps = []
    for _ in range(rng.choice([1, 1, 2, 3, 4, 6])):
        k = rng.choice(["program", "program", "program", "import", "define", "run", "program-wd", "cli", "getcmds"])
        if k == "getcmds":
            steps.append(["getcmds"])
            continue
        if k == "program":
            libs = rng.choice(PROBES + [[rng.choice(USER)], [rng.choice(USER), rng.choice(USER)]])
            steps.append(["program", list(dict.fromkeys(libs))])
        elif k == "cli":
            steps.append(["cli", rng.choice(["eems-csv", "eems-netcdf"]), rng.choice([["usub"], ["ulib"], ["other", "ulibx"], [], ["ulib", "ulib_extra"]])])
        elif k == "program-wd":
            steps.append(["program-wd", rng.choice([["wdlib"], ["other", "wdlib"], ["ulib"], ["wdlib", "upkg"]])])
        elif k == "import":
            steps.append(["import", rng.choice(USER + ["upkg.one", "upkg_more.three", "mpilot.libraries.eems.netcdf.io", "mpilot.libraries.eems.csv.io"])])
        elif k == "define":
            name = rng.choice(["Sum", "Alpha", "Beta", "Shared", "EEMSRead", "Zeta", "Copy"])
            mod = rng.choice(["__main__", "__main__", "ulib_helpers", "ulibrary", "other_things", "mpilot.libraries.eems_extra.basic", "mpilot.libraries.eemsx.basic", "upkg_tools.x"])
            steps.append(["define", name, mod])
        else:
            steps.append(["run", ["ulib"], MODEL])
    return steps


def cases(ctx):
    rng = ctx.rng("cases")
    for i in range(ctx.n(96, 4000)):
        probe = PROBES[(i * ctx.nshards + ctx.shard) % len(PROBES)]
        yield {"probe": probe, "history": gen_history(rng)}
    # targeted: the very same library tuple requested before in this process (conflicting or not), and names that differ
    # from a requested dotted name only in the character at the dot
    k0 = 0
    for probe in PROBES:
        if ctx.mine(k0):
            yield {"probe": probe, "history": [["program", probe]]}
            yield {"probe": probe, "history": [["program", probe], ["define", "Zeta", "__main__"], ["program", probe]]}
        k0 += 1
    for probe in (CSV, ["ulib"]):
        if ctx.mine(k0):
            yield {"probe": probe, "history": [["cli", "eems-csv", ["usub"]]]}
            yield {"probe": probe, "history": [["cli", "eems-csv", ["ulib"]], ["cli", "eems-netcdf", ["other"]]]}
        k0 += 1
    for probe in (["wdlib"], ["other", "wdlib"]):
        if ctx.mine(k0):
            yield {"probe": probe, "history": [["program-wd", ["wdlib"]]]}
            yield {"probe": probe, "history": [["program-wd", probe], ["program", ["other"]]]}
        k0 += 1
    for first, probe in [("upkg_one", ["upkg.one"]), ("upkgzone", ["upkg.one"]), ("upkg_one", ["upkg.one", "other"]), ("upkg_one", ["upkg"])]:
        if ctx.mine(k0):
            yield {"probe": probe, "history": [["import", first]]}
            yield {"probe": probe, "history": [["program", [first]]]}
        k0 += 1
    # targeted: prefix-related library loaded first
    for k, (first, probe) in enumerate([("ulib_extra", ["ulib"]), ("ulibx", ["ulib"]), ("upkg_more", ["upkg"]), ("mpilot.libraries.eems.netcdf", ["mpilot.libraries.eems.basic"])]):
        if ctx.mine(k):
            yield {"probe": probe, "history": [["program", [first]]]}
            yield {"probe": probe, "history": [["import", first]]}


_ref_cache = {}


def child(ctx, probe, history):
    d = ctx.scratch()
    spec = json.dumps({"dir": d, "probe": probe, "history": history})
    env = dict(os.environ)
    try:
        r = subprocess.run([sys.executable, "-m", "mpv.c19_child", spec], env=env, capture_output=True, text=True, timeout=120)
    except subprocess.TimeoutExpired:
        return None, "timeout"
    for ln in r.stdout.splitlines():
        if ln.startswith("C19RESULT "):
            return json.loads(ln[len("C19RESULT "):]), None
    return None, (r.stderr or r.stdout)[-400:]


def run_case(ctx, case):
    probe, history = case["probe"], case["history"]
    key = json.dumps(probe)
    if key not in _ref_cache:
        ref, err = child(ctx, probe, [])
        if ref is None:
            ctx.note_inconclusive("clean-room child failed: %s" % err)
            return
        _ref_cache[key] = ref
        ctx.count("clean_room_references")
        # duplicate expectation on the clean room itself
        ctx.count("duplicate_expectations_checked")
        want_dup = None
        for pair, names in DUPS.items():
            if all(p in probe for p in pair):
                want_dup = sorted(set((want_dup or []) + names))
        if want_dup:
            if ref["outcome"] != "MPilotError":
                ctx.fail("duplicates:not-rejected", {"probe": probe, "outcome": ref["outcome"], "expected_duplicates": want_dup})
            elif ref.get("duplicates") is not None and sorted(ref["duplicates"]) != want_dup:
                ctx.fail("duplicates:wrong-names", {"probe": probe, "got": ref["duplicates"], "want": want_dup})
        elif "wdlib" in probe:
            # importable from nowhere on the module search path: requesting it cannot succeed
            if ref["outcome"] not in ("ModuleNotFoundError", "ImportError"):
                ctx.fail("clean-room:library-outside-the-module-search-path:%s" % ref["outcome"], {"probe": probe})
        elif ref["outcome"] == "ok" and (ref.get("cli") or {}).get("-l canopy", [None, None, None, None])[3] != ["canopy.Cover"]:
            ctx.fail("command-line-tool:library-named-with-l-is-not-the-one-used", {"probe": probe, "got": (ref.get("cli") or {}).get("-l canopy")})
        elif ref["outcome"] == "ok" and (ref.get("cli") or {}).get("-l fuzzy (a user module)", [None, None, None, None])[3] != ["fuzzy.UserFuzz"]:
            ctx.fail("command-line-tool:user-module-named-like-a-built-in-library-is-not-the-one-used", {"probe": probe, "got": (ref.get("cli") or {}).get("-l fuzzy (a user module)")})
        elif ref["outcome"] == "ok" and (ref.get("lookups") or {}).get("main-module-library") != "has-MainCmd":
            ctx.fail("clean-room:commands-of-the-main-module-not-found-under-__main__", {"probe": probe, "got": (ref.get("lookups") or {}).get("main-module-library")})
        elif ref["outcome"] != "ok":
            ctx.fail("clean-room:disjoint-libraries-rejected:%s" % ref["outcome"], {"probe": probe, "detail": ref})
        else:
            # a command file can use exactly the commands of the library: 'Sum' / 'SUM' / 'NOT' load iff Sum / FuzzyNot are there
            lk = ref.get("lookups") or {}
            for form, cmdname in (("mpilot", "Sum"), ("eems2", "Sum"), ("eems2-not", "FuzzyNot"), ("eems2-mean", "Mean")):
                want = "loaded" if cmdname in ref["library"] else "CommandDoesNotExist"
                if lk.get(form) != want:
                    ctx.fail("command-file-lookup:%s:%s-instead-of-%s" % (form, lk.get(form), want), {"probe": probe, "command": cmdname})
                    break
            for form, cmdname in (("eems2-user-Not", "Not"), ("eems2-user-Max", "Max")):
                e = ref["library"].get(cmdname)
                want = "loaded:%s.%s" % (e["module"], cmdname) if e else "CommandDoesNotExist:%s" % cmdname
                if lk.get(form) != want:
                    ctx.fail("command-file-lookup:user-command-named-like-an-eems2-one:%s-instead-of-%s" % (str(lk.get(form)).split(":")[0], want.split(":")[0]), {"probe": probe, "command": cmdname, "got": lk.get(form), "want": want})
                    break
            for form, v in lk.items():
                if form.startswith("typo-") and not v.startswith("CommandDoesNotExist:"):
                    ctx.fail("command-file-lookup:misspelt-name:%s" % v.split(":")[0], {"probe": probe, "form": form, "got": v[:200]})
                    break
            if lk.get("libraries-list-extended-later") not in (None, "unchanged"):
                ctx.fail("program-follows-later-changes-of-the-list-it-was-given", {"probe": probe, "got": lk.get("libraries-list-extended-later")})
            for form, v in lk.items():
                if form.startswith("api-") and not v.startswith("added:"):
                    ctx.fail("api:command-class-imported-from-a-requested-library-refused:%s" % v, {"probe": probe, "form": form})
                    break
            # every command a requested harness library defines is there
            for libname, names in EXPECTED_NAMES.items():
                if libname in probe:
                    lost = [n for n in names if n not in ref["library"] or ref["library"][n]["module"] != libname]
                    if lost:
                        ctx.fail("clean-room:command-of-a-requested-library-not-available", {"probe": probe, "library": libname, "missing": lost})
                        break
            if "upkg" in probe:
                lost = [n for n in ("PkgTop", "PkgOne", "PkgTwo", "Scale", "Legacy") if n not in ref["library"]]
                if lost:
                    ctx.fail("clean-room:command-of-a-module-of-the-requested-package-not-available", {"probe": probe, "missing": lost})
            for which, r in (ref.get("cli") or {}).items():
                if which != "-l canopy" and r and r[0] != 0:
                    ctx.fail("command-line-tool:valid-csv-model-fails-with-%s" % which.replace(" ", "-"), {"probe": probe, "result": r})
                    break
            # names resolve to the requested libraries only
            for name, e in ref["library"].items():
                if not any(e["module"] == lib or e["module"].startswith(lib + ".") for lib in probe):
                    ctx.fail("clean-room:command-from-unrequested-library", {"probe": probe, "command": name, "module": e["module"]})
                    break
    ref = _ref_cache[key]
    got, err = child(ctx, probe, history)
    if got is None:
        ctx.note_inconclusive("history child failed: %s" % err)
        return
    ctx.count("histories_run")
    ctx.count("library_snapshots_compared")
    touched = sorted(set(l for s in history if s[0] in ("program", "run", "program-wd") for l in s[1]) | set(l for s in history if s[0] == "cli" for l in s[2]) | set(s[1] for s in history if s[0] == "import"))
    ctx.feature((tuple(probe), tuple(sorted(s[0] for s in history)), tuple(touched)[:4]))
    a = {k: v for k, v in ref.items() if k != "steps"}
    b = {k: v for k, v in got.items() if k != "steps"}
    if a != b:
        if a["outcome"] != b["outcome"]:
            dev = "outcome-%s-becomes-%s" % (a["outcome"], b["outcome"])
            extra = {"duplicates_after_history": b.get("duplicates")}
        else:
            la, lb = a.get("library") or {}, b.get("library") or {}
            added = sorted(set(lb) - set(la))
            removed = sorted(set(la) - set(lb))
            changed = sorted(n for n in la if n in lb and la[n] != lb[n])
            dev = "extra-commands" if added else "missing-commands" if removed else "resolves-differently" if changed else "command-file-lookup-differs" if a.get("lookups") != b.get("lookups") else "command-line-tool-behaves-differently" if a.get("cli") != b.get("cli") else "duplicate-list-differs"
            extra = {"added": added[:5], "added_from": sorted(set(lb[n]["module"] for n in added))[:3], "removed": removed[:5], "changed": changed[:5], "lookups_differing": sorted(k for k in (a.get("lookups") or {}) if (a.get("lookups") or {}).get(k) != (b.get("lookups") or {}).get(k))[:4]}
        prefix = any(any(t != p and (t.startswith(p) or p.startswith(t)) for p in probe) for t in touched + [s[2] for s in history if s[0] == "define"])
        ctx.fail("history-dependent:%s:%s" % (dev, "prefix-related-name" if prefix else "unrelated-name"), dict(extra, probe=probe, history=history))
        return
    if len(ctx.samples) < 4:
        ctx.sample({"probe": probe, "history": history, "steps": got["steps"], "outcome": got["outcome"], "commands": sorted((got.get("library") or {}))[:8]})
