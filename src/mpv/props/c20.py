"""C20 - parameter cleaning is typed, pure and idempotent.

Monitors: icontract contracts attached (from the harness) to the clean() method of every parameter class - a postcondition
stating the documented result type per class and a purity condition over a deep snapshot of the raw value and of the program,
both *recording* (never aborting what they observe) and counting their evaluations; an exception-class monitor (only
ProgramError may leave clean); repeat/idempotence monitors clean(v)==clean(v), clean(clean(v))==clean(v). Workload: the full
parameter-class x configuration x raw-value pool x working-directory matrix, plus a rider on whole-model runs where the real
pipeline cleans every argument at least twice (pre-pass and Command.run) and the recorder pairs those calls.
"""
import copy
import math
import os
import random

import numpy

from mpv import arr, models

ANCHORS = ['mpilot/params.py:StringParameter.clean', 'mpilot/params.py:NumberParameter.clean', 'mpilot/params.py:BooleanParameter.clean', 'mpilot/params.py:PathParameter.clean', 'mpilot/params.py:ResultParameter.clean', 'mpilot/params.py:ListParameter.clean', 'mpilot/params.py:TupleParameter.clean', 'mpilot/params.py:DataParameter.clean', 'mpilot/params.py:DataTypeParameter.clean']   # repository functions the workload must enter (reported as anchors_reached / anchors_missed)
LEVEL = "exploration"
RULE = ("every parameter class x configuration (must_exist, valid_types of CSV and NetCDF reads, nested ListParameters, ResultParameter "
        "with/without output type and each is_fuzzy) x ~130 raw values of every kind the parser or API delivers x working directory in "
        "{None, absolute, relative, empty}; plus live contracts during random whole-model runs; distinct by (parameter config, raw value class, wd, outcome class)")
REQUIRED_COUNTERS = ["references_given_as_objects_and_as_names", "declared_text_outputs_judged", "library_parameters_checked", "printvars_history_rechecks", "nested_list_runs", "failed_command_rechecks", "clean_calls_judged", "contract_evaluations", "idempotence_checks", "purity_snapshots_compared", "live_double_clean_pairs", "live_argument_snapshots_compared"]
ASSUMPTIONS = ["don't-care: what StringParameter makes of non-scalars, bool given to NumberParameter, ints other than 0/1 and numeric strings other than "
               "'0'/'1' given to BooleanParameter, 'nan'/'inf'/underscore literals, relative working directories", "NaN compared NaN-aware"]

_rec = {"evals": 0, "violations": [], "pairs": {}, "installed": False}


# ---------------------------------------------------------------- deep snapshots
def snap(v, depth=0):
    from mpilot.commands import Command
    from mpilot.arguments import Argument
    if depth > 8:
        return "deep"
    if isinstance(v, Command):
        return ("cmd", id(v), v.result_name, bool(v.is_finished), len(v.arguments))
    if isinstance(v, Argument):
        return ("arg", type(v).__name__, v.name, snap(v.value, depth + 1), v.lineno, snap(getattr(v, "list_linenos", None), depth + 1))
    if isinstance(v, numpy.ndarray):
        # contents and the state a later assignment depends on: hard / soft mask, fill value, writeability, mask presence
        return ("arr", arr.digest(v), bool(getattr(v, "hardmask", False)), repr(getattr(v, "fill_value", None)), bool(v.flags.writeable),
                numpy.ma.getmask(v) is numpy.ma.nomask, bool(getattr(v, "sharedmask", False)))
    if isinstance(v, dict):
        return ("dict", tuple((snap(k, depth + 1), snap(x, depth + 1)) for k, x in v.items()))
    if isinstance(v, (list, tuple)):
        return (type(v).__name__, tuple(snap(x, depth + 1) for x in v))
    if isinstance(v, float) and v != v:
        return ("nan",)
    if isinstance(v, (int, float, str, bool, type(None), type)):
        return (type(v).__name__, repr(v))
    return ("obj", repr(v)[:80])


def ident(v):
    """Like snap() but commands are compared by identity only (they legitimately finish between two cleanings)."""
    from mpilot.commands import Command
    if isinstance(v, Command):
        return ("cmd", id(v), v.result_name)
    if isinstance(v, (list, tuple)):
        return (type(v).__name__, tuple(ident(x) for x in v))
    return snap(v)


def prog_snap(program):
    if program is None:
        return None
    return (program.working_dir, tuple((n, id(c), bool(c.is_finished), len(c.arguments), snap(c._result) if c.is_finished else None) for n, c in program.commands.items()))


def equal(a, b):
    return snap(a) == snap(b)


# ---------------------------------------------------------------- documented result types
def typed_ok(param, raw, result, program=None):
    """The documented type of clean()'s return value, per parameter class. None = fine / not stated."""
    from mpilot import params as P
    from mpilot.commands import Command
    from mpilot.arguments import Argument
    t = type(param)
    if t is P.Parameter:
        return None if result is raw else "base-parameter-changes-value"
    if isinstance(param, P.DataTypeParameter):
        # the table the parameter was configured with, as written down when it was made (the default one: Float / Integer)
        table = getattr(param, "_verif_table", None) or dict(param.valid_types)
        if isinstance(raw, str):
            if raw not in table:
                return "datatype-name-not-declared-yet-accepted"
            return None if result is table[raw] else "datatype-name-maps-to-another-type"
        return None if any(result is t for t in table.values()) else "datatype-not-a-declared-type"
    if isinstance(param, P.PathParameter):
        if not isinstance(result, str):
            return "path-not-str"
        wd = getattr(program, "_wd_given", getattr(program, "working_dir", None))      # the working directory the program was created with
        if isinstance(raw, str) and raw and not os.path.isabs(raw) and wd and os.path.isabs(wd):
            # relative paths are resolved against the working directory of the program doing the cleaning
            if os.path.normpath(result) != os.path.normpath(os.path.join(wd, raw)):
                return "relative-path-not-resolved-against-working-dir"
        if isinstance(raw, str) and os.path.isabs(raw) and result != raw:
            return "absolute-path-changed"
        if isinstance(raw, str) and raw and not os.path.isabs(raw) and wd and os.path.isabs(wd):
            # ... and name the file the operating system finds under working_dir/raw ('..' after a symbolic link included)
            if os.path.realpath(result) != os.path.realpath(os.path.join(wd, raw)):
                return "relative-path-names-another-file"
        return None
    if isinstance(param, P.StringParameter):
        return None if isinstance(result, str) else "string-not-str"
    if isinstance(param, P.NumberParameter):
        if isinstance(raw, bool):
            return None
        if isinstance(raw, int):
            return None if type(result) is int and result == raw else "int-does-not-stay-int"
        if isinstance(raw, float) and type(raw) is float:
            return None if type(result) is float and (result == raw or (raw != raw and result != result)) else "decimal-does-not-stay-decimal"
        import numbers
        if isinstance(raw, numbers.Number):
            # NumPy scalars, fractions: a number already; whatever type comes back, it is the same number
            return None if isinstance(result, numbers.Number) and not isinstance(result, bool) and result == raw else "number-changes-value"
        if isinstance(result, bool) or not isinstance(result, (int, float)):
            return "number-not-a-number"
        if isinstance(raw, str):
            import re
            s = raw.strip()
            if re.match(r"^[+-]?\d+$", s):
                return None if type(result) is int and result == int(s) else "integer-text-not-int"
            if re.match(r"^[+-]?((\d+\.\d*)|(\.\d+))([eE][+-]?\d+)?$", s) or re.match(r"^[+-]?\d+[eE][+-]?\d+$", s):
                return None if type(result) is float and result == float(s) else "decimal-text-not-float"
        return None
    if isinstance(param, P.BooleanParameter):
        if type(result) is not bool:
            return "boolean-not-bool"
        if isinstance(raw, float) and not isinstance(raw, bool) and raw not in (0.0, 1.0):
            return "decimal-accepted-as-boolean"
        if isinstance(raw, bool):
            return None if result is raw else "boolean-value-changed"
        if isinstance(raw, int) and raw in (0, 1):
            return None if result == bool(raw) else "boolean-value-changed"
        if isinstance(raw, str) and raw.lower() in ("true", "false", "0", "1"):
            return None if result == (raw.lower() in ("true", "1")) else "boolean-value-changed"
        return None
    if isinstance(param, P.ResultParameter):
        return None if isinstance(result, Command) else "result-not-a-command"
    if isinstance(param, P.ListParameter):
        if isinstance(raw, dict):
            return "key-value-pairs-accepted-as-list"      # what the [k: v] syntax delivers is a tuple argument, not a list
        if not isinstance(result, list):
            return "list-not-list"
        if isinstance(raw, (list, tuple)) and len(result) != len(raw):
            return "list-length-changed"
        for item in result:
            if isinstance(item, Argument):
                return "list-item-still-wrapped"
        if isinstance(raw, (list, tuple)) and param.value_type is not None:
            # item-wise: every item is what the item type makes of *that* item (an int next to an equal decimal stays an int)
            for ri, item in zip(raw, result):
                bad = typed_ok(param.value_type, ri.value if isinstance(ri, Argument) else ri, item, program)
                if bad:
                    return "item:" + bad
        return None
    if isinstance(param, P.TupleParameter):
        if not isinstance(result, dict) or not all(isinstance(k, str) and isinstance(v, str) for k, v in result.items()):
            return "tuple-not-str-dict"
        return None
    if isinstance(param, P.DataParameter):
        return None if result is raw else "data-changed"
    return None


def param_label(param):
    from mpilot import params as P
    t = type(param).__name__
    if isinstance(param, P.PathParameter):
        return "%s(must_exist=%s)" % (t, param.must_exist)
    if isinstance(param, P.ResultParameter):
        return "%s(%s,fuzzy=%s)" % (t, type(param.output_type).__name__ if param.output_type else None, param.is_fuzzy)
    if isinstance(param, P.ListParameter):
        return "%s(%s)" % (t, param_label(param.value_type))
    if isinstance(param, P.DataTypeParameter):
        return "%s(%s)" % (t, "/".join(sorted(param.valid_types)))
    return t


# ---------------------------------------------------------------- contracts
def prepare(ctx):
    """Attach recording icontract contracts to clean() of every parameter class (class-level, from outside)."""
    import icontract
    from mpilot import params as P

    class CleanBroken(Exception):
        pass

    def make(cls):
        orig = cls.__dict__.get("clean")
        if orig is None:
            return

        def raw_snapshot(value):
            return snap(value)

        def program_snapshot(program):
            return prog_snap(program)

        def typed_and_pure(self, value, program, result, OLD):
            _rec["evals"] += 1
            outer = getattr(type(self), "clean", None) is cls.clean   # not an inner super().clean() call
            if outer:
                bad = typed_ok(self, value, result, program)
                if bad:
                    _rec["violations"].append(("typed:" + bad, param_label(self), snap(value), snap(result)))
            if snap(value) != OLD.raw:
                _rec["violations"].append(("raw-value-mutated", param_label(self), OLD.raw, snap(value)))
            if prog_snap(program) != OLD.prog:
                _rec["violations"].append(("program-mutated", param_label(self), OLD.prog, prog_snap(program)))
            if outer:
                _rec["pairs"].setdefault((id(self), id(value)), []).append(ident(result))
            return True

        def clean(self, value, program=None, lineno=None):
            return orig(self, value, program, lineno)

        wrapped = icontract.snapshot(raw_snapshot, name="raw")(
            icontract.snapshot(program_snapshot, name="prog")(
                icontract.ensure(typed_and_pure, error=CleanBroken)(clean)))
        cls.clean = wrapped

    if not _rec["installed"]:
        for name in ("Parameter", "StringParameter", "NumberParameter", "BooleanParameter", "PathParameter", "ResultParameter",
                     "ListParameter", "TupleParameter", "DataParameter", "DataTypeParameter"):
            make(getattr(P, name))
        _rec["installed"] = True


def finish(ctx):
    ctx.count("contract_evaluations", _rec["evals"])


# ---------------------------------------------------------------- workload
def configs():
    from mpilot import params as P
    nc = {"Float": numpy.float64, "Integer": int, "Positive Float": numpy.float64, "Positive Integer": numpy.uint, "Fuzzy": numpy.float64}
    cfgs = [
        P.Parameter(), P.StringParameter(), P.NumberParameter(), P.BooleanParameter(), P.PathParameter(must_exist=True), P.PathParameter(must_exist=False),
        P.ResultParameter(), P.ResultParameter(P.DataParameter()), P.ResultParameter(P.DataParameter(), is_fuzzy=True), P.ResultParameter(P.DataParameter(), is_fuzzy=False),
        P.ResultParameter(P.BooleanParameter()), P.ResultParameter(P.ListParameter(P.NumberParameter())), P.ResultParameter(P.StringParameter()),
        P.ListParameter(P.ResultParameter(P.NumberParameter())),
        P.ListParameter(), P.ListParameter(P.NumberParameter()), P.ListParameter(P.StringParameter()), P.ListParameter(P.ResultParameter(P.DataParameter(), is_fuzzy=False)),
        P.ListParameter(P.ResultParameter(P.DataParameter(), is_fuzzy=True)), P.ListParameter(P.ResultParameter()), P.ListParameter(P.ListParameter(P.NumberParameter())),
        P.ListParameter(P.BooleanParameter()),
        P.TupleParameter(), P.DataParameter(), P.DataTypeParameter(), P.DataTypeParameter(valid_types={"Float": float, "Integer": int}), P.DataTypeParameter(valid_types=nc),
    ]
    cfgs[-3]._verif_table = {"Float": float, "Integer": int}
    cfgs[-2]._verif_table = {"Float": float, "Integer": int}
    cfgs[-1]._verif_table = dict(nc)
    # results expected to be a kind of text: a path, the name of a data type
    cfgs += [P.ResultParameter(P.PathParameter(must_exist=False)), P.ResultParameter(P.DataTypeParameter()), P.ListParameter(P.ResultParameter(P.PathParameter(must_exist=False)))]
    return cfgs


def pool(program, d, with_arrays=False):
    from mpilot.arguments import Argument, ListArgument
    A, F, U = program.commands["A"], program.commands["F"], program.commands["U"]
    vals = [
        0, 1, 2, -1, 12, 2 ** 70, 0.0, 1.0, 1.5, -0.0, 1e300, 5e-324, float("nan"), True, False, 0.5, 2.5, -1.5,
        numpy.float32(1.5), numpy.float16(0.5), numpy.float64(2.5), numpy.int64(3), numpy.int8(1), numpy.float32(0.75), [numpy.float32(1.5), 2], __import__("fractions").Fraction(3, 2),
        "12", " 12 ", "+7", "-3", "007", "1.5", "1.", ".5", "1e5", "1.5E-3", "-0.0", "abc", "", " ", "1,5", "12abc", "0x10",
        "true", "TRUE", "True", "false", "False", "0", "1", "2", "yes", "no", "t",
        "Float", "Integer", "Positive Float", "Positive Integer", "Fuzzy", "float", "Complex",
        os.path.join(d, "in.csv"), os.path.join(d, "missing.csv"), "in.csv", "sub/in.csv", "missing.csv", "./in.csv", "../x.csv", d, "é.csv",
        "link/../in.csv", "sub/../in.csv", "sub//in.csv", "link/../missing.csv",
        "A", "F", "U", "Nope", "a", "H", "RO", ["H", "A"], program.commands["H"], "TupleRes", "NumRes", "TextRes", ["TupleRes", "NumRes"],
        [], [1, 2], [1.5, 2], [1, 1.0], [2.0, 2], [1, 1.0, True], [0, 0.0, False, "0"], ["1", 1, 1.0], [3, 3, 3.0, 3.0], [Argument("x", 1), Argument("x", 1.0)],
        "V", ["V"], ["A", "V"], program.commands["V"], [program.commands["V"], A], ["1", "2.5"], ["1", "x"], ["A", "F"], ["A", "A"], ["F"], ["A", "Nope"], [A, F], [A], [U], [[1], [2, 3]], [[1], 2], [[]], [["A"]],
        [True, "false", 0], [None], (1, 2), ("A",), [Argument("x", 5)], [Argument("x", "A")], [Argument("x", [1])], [1, [2, [3]]],
        {}, {"a": "b"}, {"a": 1}, {1: 2}, {"k": None}, {"a": "b", "c": "d"}, {"a": [1]},
        A, F, U, float, int, numpy.float64, numpy.uint, str, None, program._foreign[0], program._foreign[1], [program._foreign[0]], [A, program._foreign[1]],
        Argument("P", 5), ListArgument("P", [1, 2], 1, [1, 1]),
    ]
    if with_arrays:
        # arrays are what finished commands hand to DataParameter; no parser or API path delivers them to other parameters
        vals += [numpy.array([1.0, 2.0]), numpy.ma.array([1.0, 2.0], mask=[0, 1]), numpy.ma.array([1.0, 2.0], mask=[0, 1], hard_mask=True, fill_value=7.0),
                 numpy.ma.array([1, 2], mask=[1, 0], dtype="int32")]
    return vals


def value_class(v):
    from mpilot.commands import Command
    from mpilot.arguments import Argument
    if isinstance(v, Command):
        return "command"
    if isinstance(v, Argument):
        return "argument-object"
    if isinstance(v, bool):
        return "bool"
    if isinstance(v, numpy.ndarray):
        return "ndarray"
    if isinstance(v, (list, tuple)):
        inner = sorted(set(value_class(x) for x in v))
        return "%s[%s]" % (type(v).__name__, ",".join(inner))
    if isinstance(v, dict):
        return "dict"
    if isinstance(v, str):
        import re
        return "str:" + ("int" if re.match(r"^\s*[+-]?\d+\s*$", v) else "float" if re.match(r"^\s*[+-]?(\d+\.\d*|\.\d+|\d+[eE][+-]?\d+)([eE][+-]?\d+)?\s*$", v)
                         else "bool" if v.lower() in ("true", "false") else "abs-path" if v.startswith("/") else "empty" if not v.strip() else "word")
    if isinstance(v, type):
        return "type"
    return type(v).__name__


def cases(ctx):
    ncfg = len(configs())
    idx = 0
    for ci in range(ncfg):
        for wd in ("none", "abs", "rel", "empty", "abs-copied", "root"):
            if ctx.mine(idx):
                yield {"kind": "matrix", "config": ci, "wd": wd}
            idx += 1
    # the parameter objects the built-in libraries actually declare (their own configurations)
    for libset in ("csv", "nc"):
        prog_ = arr.new_program(arr.CSV_LIBS if libset == "csv" else arr.NC_LIBS)
        for cname in sorted(prog_.command_library):
            for pname in sorted(prog_.command_library[cname].inputs):
                if ctx.mine(idx):
                    yield {"kind": "matrix", "config": 0, "wd": "abs", "libparam": [libset, cname, pname]}
                idx += 1
    rng = ctx.rng("live")
    for i in range(ctx.n(24, 800)):
        # a user command with an untyped list input, given nested lists (from a file and through the API)
        def nest(depth):
            return [nest(depth - 1) if depth and rng.random() < 0.45 else rng.choice([1, 2, 3.5, "w", -7, 0.25, "x y"]) for _ in range(rng.randint(1, 4))]
        yield {"kind": "live-nested", "value": [nest(2) for _ in range(rng.randint(2, 4))] + [rng.randint(1, 9)], "api": i % 2 == 1, "cmd": rng.choice(["Dif", "union", "Read", "xor"])}
    for i in range(ctx.n(160, 8000)):
        if i % 20 == 0:
            yield {"kind": "objref", "variant": (i // 20 + ctx.shard) % 6, "route": ["result", "run", "program-run"][(i // 20) % 3]}
        yield {"kind": "live", "model": models.gen_model(rng, n_ops=rng.randint(1, 8), sinks=True, metadata=rng.random() < 0.4), "api": rng.random() < 0.3}


def _world(ctx, wd):
    d = ctx.scratch()
    os.makedirs(os.path.join(d, "sub"))
    for f in ("in.csv", "sub/in.csv"):
        with open(os.path.join(d, f), "w") as fh:
            fh.write("X\n1\n2\n")
    wdir = d if wd in ("abs", "abs-copied") else os.path.relpath(d) if wd == "rel" else "" if wd == "empty" else "/" if wd == "root" else None
    program = arr.new_program(arr.CSV_LIBS + ("vprobe", "usercmds"), working_dir=wdir)
    program._wd_given = wdir
    arr.standin(program, "A", numpy.ma.array([1.0, 2.0, 3.0]), fuzzy=False)
    arr.standin(program, "F", numpy.ma.array([0.5, -0.5, 1.0]), fuzzy=True)
    # an unfinished command with a declared data output
    cls = program.find_command_class("Copy")
    program.add_command(cls, "U", {"InFieldName": "A"})
    # an unfinished command of a plugin class that declares no output type
    program.add_command(program.find_command_class("NoOut"), "V", {})
    # a command that is going to fail when it is run (it is run, once, only after everything else was judged)
    program.add_command(program.find_command_class("Flaky"), "Bad", {})
    # a copy of a fuzzy field (a copy is not declared fuzzy), and a command of a user class that inherits its fuzziness
    program.add_command(program.find_command_class("Copy"), "CF", {"InFieldName": "F"})
    program.add_command(program.find_command_class("MyOr"), "MO", {"InFieldNames": ["F"]})
    # an unfinished command that declares a text as its output, and one that declares a number
    program.add_command(program.find_command_class("PathChain"), "TX", {})
    program.add_command(program.find_command_class("Num"), "NX", {"V": 5})
    # other programs of the process use other libraries: the NetCDF set is loaded in some worlds before anything is cleaned
    if wd in ("rel", "abs-copied", "none"):
        arr.new_program(arr.NC_LIBS)
    # finished producers of non-array results (what user libraries return): a tuple of numeric texts, a number, a text
    for nm, val in (("TupleRes", ("1", "2.5", 3)), ("NumRes", 5), ("TextRes", "7")):
        arr.standin(program, nm, val)
    # a finished result with a hard mask and a fill value of its own, and a read-only one
    arr.standin(program, "H", numpy.ma.array([1.0, 2.0, 3.0], mask=[0, 1, 0], hard_mask=True, fill_value=-5.0), fuzzy=False)
    ro = numpy.ma.array([1.0, 2.0, 3.0], mask=[0, 0, 1])
    ro.flags.writeable = False
    arr.standin(program, "RO", ro, fuzzy=False)
    # commands that are not part of this program: one from another program, one built by hand
    other = arr.new_program(working_dir=d if wd == "abs" else None)
    program._foreign = [arr.standin(other, "Foreign", numpy.ma.array([4.0, 5.0]), fuzzy=False)]
    from mpilot.commands import Command
    loose = Command("Loose", [], program=None)
    loose.is_finished, loose._result = True, numpy.ma.array([1.0])
    program._foreign.append(loose)
    # a directory reached through a symbolic link, with a file of the same name next to the link and beyond it
    os.makedirs(os.path.join(d, "elsewhere", "deep"))
    with open(os.path.join(d, "elsewhere", "in.csv"), "w") as fh:
        fh.write("X\n7\n8\n")
    try:
        os.symlink(os.path.join(d, "elsewhere", "deep"), os.path.join(d, "link"))
    except OSError:
        pass
    if wd == "abs-copied":
        # the same world as a deep copy of the program (finished results and all) holds it
        foreign = program._foreign
        del program._foreign
        program = copy.deepcopy(program)
        program._foreign = foreign
    return program, d


def run_objref(ctx, case):
    """A reference that cleaning must refuse is refused whichever way it is written (a result name or the command object) and
    whichever way the command is evaluated."""
    cmd, field, given_as = [("FuzzyNot", "A", "InFieldName"), ("CvtToFuzzy", "F", "InFieldName"), ("AMinusB", "F", "A"), ("FuzzyOr", "A", "InFieldNames"),
                            ("Copy", "A", "InFieldName"), ("FuzzyNot", "F", "InFieldName")][case["variant"]]
    outs = []
    for form in ("name", "object"):
        program = arr.new_program()
        arr.standin(program, "A", numpy.ma.array([1.0, 2.0, 3.0]), fuzzy=False)
        arr.standin(program, "F", numpy.ma.array([0.5, -0.5, 1.0]), fuzzy=True)
        ref_ = field if form == "name" else program.commands[field]
        args = {given_as: [ref_] if given_as == "InFieldNames" else ref_}
        if cmd == "AMinusB":
            args["B"] = "A" if form == "name" else program.commands["A"]
        try:
            c = program.add_command(program.find_command_class(cmd), "Res", args)
            c = program.commands["Res"]
            if case["route"] == "result":
                c.result
            elif case["route"] == "run":
                c.run()
            else:
                program.run()
            outs.append("ok")
        except Exception as e:
            outs.append(type(e).__name__)
    ctx.count("clean_calls_judged", 2)
    ctx.count("references_given_as_objects_and_as_names")
    ctx.feature(("objref", cmd, field, case["route"], tuple(outs)))
    if outs[0] != outs[1]:
        ctx.fail("ResultParameter:%s-given-a-%s-field:%s-as-an-object-but-%s-by-name:%s" % (cmd, "fuzzy" if field == "F" else "plain", outs[1], outs[0], case["route"]), {"outcomes": outs})


def run_case(ctx, case):
    if case["kind"] == "objref":
        return run_objref(ctx, case)
    if case["kind"] == "live":
        return run_live(ctx, case)
    if case["kind"] == "live-nested":
        case = dict(case, model={"table": {"cols": {"X": {"data": [1, 2], "integer": True}}, "nrows": 2, "missing": None, "file": "in.csv"},
                                 "commands": [{"result": "In_X0", "cmd": "EEMSRead", "args": {"InFileName": "in.csv", "InFieldName": "X"}},
                                              {"result": "Kept", "cmd": case["cmd"], "args": dict({"Anything": case["value"], "InFieldName": "In_X0"}, **({"Metadata": []} if len(case["value"]) % 2 else {}))},
                                              {"result": "Kept2", "cmd": "Dif", "args": {"Anything": [case["value"], [case["value"]]], "A": "Kept"}}]}, libs=arr.CSV_LIBS + ("usercmds",))
        return run_live(ctx, case)
    from mpilot.exceptions import ProgramError
    from mpilot import params as P
    program, d = _world(ctx, case["wd"])
    param = configs()[case["config"]]
    if case.get("libparam"):
        libset, cname, pname = case["libparam"]
        param = arr.new_program(arr.CSV_LIBS if libset == "csv" else arr.NC_LIBS).command_library[cname].inputs[pname]
        ctx.count("library_parameters_checked")
    label = param_label(param)
    vals = pool(program, d, with_arrays=type(param) in (P.Parameter, P.DataParameter))
    twin_outcomes = None
    if case["wd"] == "abs-copied":
        # what the very same cleanings give in the program that was copied
        program0, d0 = _world(ctx, "abs")
        twin_outcomes = []
        for raw0 in pool(program0, d0, with_arrays=type(param) in (P.Parameter, P.DataParameter)):
            try:
                param.clean(raw0, program0, 7)
                twin_outcomes.append("ok")
            except Exception as e0:
                twin_outcomes.append(type(e0).__name__)
    vi = -1
    for raw in vals:
        vi += 1
        vclass = value_class(raw)
        before_raw, before_prog = snap(raw), prog_snap(program)
        nviol = len(_rec["violations"])
        try:
            r1 = param.clean(raw, program, 7)
            o1 = "ok"
        except Exception as e:
            r1, o1 = e, type(e).__name__
        ctx.count("clean_calls_judged")
        ctx.feature((label, vclass, case["wd"], o1 if o1 == "ok" or isinstance(r1, ProgramError) else "raw:" + o1))
        if twin_outcomes is not None and vi < len(twin_outcomes) and twin_outcomes[vi] != o1:
            ctx.fail("%s:%s:copy-of-the-program-cleans-differently:%s-instead-of-%s" % (label, vclass, o1, twin_outcomes[vi]), {"raw": repr(raw)[:120]})
        # contract findings made during this call (typed / purity)
        for v in _rec["violations"][nviol:]:
            ctx.fail("%s:%s:%s" % (label, vclass, v[0]), {"raw": repr(raw)[:120], "detail": [repr(x)[:200] for x in v[2:]]},
                     {"kind": "matrix", "config": case["config"], "wd": case["wd"]})
        ctx.count("purity_snapshots_compared")
        if snap(raw) != before_raw:
            ctx.fail("%s:%s:raw-value-mutated" % (label, vclass), {"raw_before": repr(before_raw)[:200], "raw_after": repr(snap(raw))[:200]})
        if prog_snap(program) != before_prog:
            ctx.fail("%s:%s:program-mutated" % (label, vclass), {"before": repr(before_prog)[:300], "after": repr(prog_snap(program))[:300]})
        if o1 != "ok":
            if not isinstance(r1, ProgramError):
                ctx.fail("%s:%s:raises-%s" % (label, vclass, o1), {"raw": repr(raw)[:120], "error": repr(r1)[:200], "wd": case["wd"]})
            elif getattr(r1, "lineno", None) != 7 and not isinstance(param, P.ListParameter):
                ctx.dontcare("error without the given lineno")
            continue
        bad = typed_ok(param, raw, r1, program)
        if bad:
            ctx.fail("%s:%s:typed:%s" % (label, vclass, bad), {"raw": repr(raw)[:120], "result": repr(r1)[:120], "wd": case["wd"]})
            continue
        if isinstance(param, P.PathParameter) and case["wd"] in ("abs", "abs-copied", "root") and not os.path.isabs(r1):
            ctx.fail("%s:%s:path-not-absolute" % (label, vclass), {"raw": repr(raw)[:120], "result": r1})
        # repeat and idempotence
        ctx.count("idempotence_checks")
        try:
            r2 = param.clean(raw, program, 7)
            if not equal(r1, r2):
                ctx.fail("%s:%s:second-clean-differs" % (label, vclass), {"raw": repr(raw)[:120], "first": repr(r1)[:120], "second": repr(r2)[:120]})
        except Exception as e:
            ctx.fail("%s:%s:second-clean-raises-%s" % (label, vclass, type(e).__name__), {"raw": repr(raw)[:120]})
        if isinstance(param, P.PathParameter) and case["wd"] not in ("abs", "abs-copied", "root") and not os.path.isabs(r1):
            continue
        if isinstance(param, P.StringParameter) and not isinstance(raw, (str, int, float)) and type(param) is P.StringParameter:
            pass
        try:
            r3 = param.clean(r1, program, 7)
            if not equal(r1, r3):
                ctx.fail("%s:%s:not-idempotent" % (label, vclass), {"raw": repr(raw)[:120], "cleaned": repr(r1)[:120], "recleaned": repr(r3)[:120]})
        except Exception as e:
            ctx.fail("%s:%s:reclean-raises-%s" % (label, vclass, type(e).__name__), {"raw": repr(raw)[:120], "cleaned": repr(r1)[:120]})
    if isinstance(param, (P.ResultParameter, P.ListParameter)) or type(param) is P.Parameter:
        # history: a referenced command fails when it is run; references to it clean afterwards as they did before
        import vprobe
        bad = program.commands["Bad"]
        raws = ["Bad", bad, ["A", "Bad"], [bad], ["Bad"]]

        def outcome(raw):
            try:
                return "ok", param.clean(raw, program, 7)
            except Exception as e:
                return type(e).__name__, None
        cf = program.commands["CF"]
        raws2 = ["CF", cf, ["A", "CF"], "MO", ["MO"]]
        before2 = [outcome(r) for r in raws2]
        try:
            cf.result
            program.commands["MO"].result
        except Exception as e:
            ctx.note_inconclusive("copy / subclass command of the world raises %s" % type(e).__name__)
        after2 = [outcome(r) for r in raws2]
        for raw, (ob, rb), (oa, ra) in zip(raws2, before2, after2):
            ctx.count("clean_calls_judged")
            # (a reference that was refused on the strength of the declared output may be judged by the actual result once
            # there is one: only references that cleaned to a command before are followed up)
            if ob == "ok" and isinstance(param, P.ResultParameter) and param.output_type is not None and not isinstance(param.output_type, P.DataParameter):
                continue
            if ob == "ok" and oa != "ok":
                ctx.fail("%s:%s:reference-cleans-differently-once-the-command-has-run:%s-instead-of-%s" % (label, value_class(raw), oa, ob), {"raw": repr(raw)[:120]})
                break
        if isinstance(param, P.ResultParameter) and param.output_type is not None and not program.commands["TX"].is_finished:
            # declared outputs of commands that have not run yet: a text is taken where a kind of text (a text, a path, a
            # data-type name) is expected and not where a number is; a number is taken for both
            kind_of_text = isinstance(param.output_type, P.StringParameter)
            for raw_, want_ in (("TX", "ok" if kind_of_text else "ResultTypeNotValid" if isinstance(param.output_type, P.NumberParameter) else None),
                                (program.commands["TX"], "ok" if kind_of_text else None),
                                ("NX", "ok" if kind_of_text or isinstance(param.output_type, P.NumberParameter) else None)):
                if want_ is None:
                    continue
                ctx.count("clean_calls_judged")
                ctx.count("declared_text_outputs_judged")
                got_ = outcome(raw_)[0]
                if got_ != want_:
                    ctx.fail("%s:%s:declared-output-of-a-command-that-has-not-run:%s-instead-of-%s" % (label, value_class(raw_), got_, want_), {"raw": repr(raw_)[:80]})
                    break
        if isinstance(param, P.ResultParameter) and param.is_fuzzy is not None:
            # a class that extends a fuzzy command is fuzzy itself
            o_mo = outcome("MO")[0]
            want_mo = "ok" if param.is_fuzzy else "ResultIsFuzzy"
            if o_mo != want_mo:
                ctx.fail("%s:str:word:command-of-a-class-extending-a-fuzzy-one:%s-instead-of-%s" % (label, o_mo, want_mo), {})
        before = [outcome(r) for r in raws]
        vprobe.FLAKY["fail"] = True
        vprobe.FLAKY["exc"] = [IOError, ValueError, TypeError][case["config"] % 3]
        how = ["run", "result", "program-run"][case["config"] % 3 if case["wd"] != "abs" else (case["config"] + 1) % 3]
        raised = None
        try:
            if how == "run":
                bad.run()
            elif how == "result":
                bad.result
            else:
                program.run()
        except Exception as e:
            raised = type(e).__name__
        finally:
            vprobe.FLAKY["fail"] = False
            vprobe.FLAKY["exc"] = IOError
        if raised is None:
            ctx.note_inconclusive("the failing command did not fail")
        else:
            ctx.count("failed_command_rechecks")
            after = [outcome(r) for r in raws]
            for raw, (ob, rb), (oa, ra) in zip(raws, before, after):
                ctx.count("clean_calls_judged")
                if ob != oa or (ob == "ok" and not equal(rb, ra)):
                    ctx.fail("%s:%s:reference-to-a-command-that-failed-cleans-differently-afterwards:%s-instead-of-%s" % (label, value_class(raw), oa, ob), {"raw": repr(raw)[:120], "failed_through": how, "raised": raised})
                    break
    if isinstance(param, (P.StringParameter, P.ListParameter, P.TupleParameter)) and not isinstance(param, P.DataTypeParameter) and case["wd"] in ("abs", "none"):
        # history: some model that prints its variables is run between two cleanings of a raw value that holds a large array
        big = numpy.arange(1500) * 0.25
        raws = [big, [big, "x"], {"k": big}]

        def outcome2(raw):
            try:
                return "ok", param.clean(raw, program, 7)
            except Exception as e:
                return type(e).__name__, None
        before = [outcome2(r) for r in raws]
        from mpilot.program import Program as _P
        d5 = ctx.scratch()
        with open(os.path.join(d5, "in.csv"), "w") as fh:
            fh.write("X\n" + "\n".join(str(i) for i in range(1200)) + "\n")
        try:
            _P.from_source('A = EEMSRead(InFileName = "in.csv", InFieldName = X)\nP = PrintVars(InFieldNames = [A], OutFileName = "vars.txt")', working_dir=d5).run()
        except Exception as e:
            ctx.note_inconclusive("history model with PrintVars raises %s" % type(e).__name__)
        ctx.count("printvars_history_rechecks")
        after = [outcome2(r) for r in raws]
        for raw, (ob, rb), (oa, ra) in zip(raws, before, after):
            ctx.count("clean_calls_judged")
            if ob != oa or (ob == "ok" and not equal(rb, ra)):
                ctx.fail("%s:%s:large-array-cleans-differently-after-a-model-printed-its-variables" % (label, value_class(raw)), {"before": repr(rb)[:120], "after": repr(ra)[:120]})
                break
    if isinstance(param, P.PathParameter) and case["wd"] == "abs":
        # the same parameter object serves every program of the process: a second program with another working directory
        # a program that holds no command yet (it is a program all the same: its working directory counts)
        from mpilot.program import Program as _PE
        empty = _PE(working_dir=d)
        for raw in ("in.csv", "sub/in.csv"):
            ctx.count("clean_calls_judged")
            try:
                r = param.clean(raw, empty, 7)
                if os.path.normpath(r) != os.path.normpath(os.path.join(d, raw)):
                    ctx.fail("%s:str:word:program-without-commands:relative-path-not-resolved-against-working-dir" % label, {"raw": raw, "result": r})
            except Exception as e:
                ctx.fail("%s:str:word:program-without-commands:raises-%s" % (label, type(e).__name__), {"raw": raw})
        program2, d2 = _world(ctx, "abs")
        for raw in ("in.csv", "sub/in.csv", "./in.csv"):
            try:
                r = param.clean(raw, program2, 7)
            except Exception as e:
                ctx.fail("%s:str:abs-path:second-program-raises-%s" % (label, type(e).__name__), {"raw": raw})
                continue
            ctx.count("clean_calls_judged")
            bad = typed_ok(param, raw, r, program2)
            if bad:
                ctx.fail("%s:second-program:typed:%s" % (label, bad), {"raw": raw, "result": r, "working_dir": d2, "first_working_dir": d})
    if len(ctx.samples) < 4:
        ctx.sample({"parameter": label, "working_dir": case["wd"], "raw_values_tried": len(vals), "example": [repr(vals[3]), repr(vals[16]), repr(vals[60])[:60]]})


def _plain(v):
    from mpilot.arguments import Argument
    if isinstance(v, Argument):
        v = v.value
    if isinstance(v, (list, tuple)):
        return tuple(_plain(x) for x in v)
    return v


def _kinds(v):
    """The sequence kinds of a nested value, outermost first ('L' list, 'T' tuple): what the command is handed is lists."""
    if isinstance(v, (list, tuple)):
        return ("L" if isinstance(v, list) else "T",) + tuple(k for x in v for k in _kinds(x))
    return ()


def run_live(ctx, case):
    """Whole-model run with the contracts on: every argument is cleaned by the pre-pass and again by Command.run."""
    from mpilot.program import Program
    model = case["model"]
    d = ctx.scratch()
    models.write_table(model["table"], d)
    _rec["pairs"].clear()
    nviol = len(_rec["violations"])
    try:
        if case.get("api"):
            prog = Program(working_dir=d) if not case.get("libs") else Program(libraries=case["libs"], working_dir=d)
            for c in model["commands"]:
                prog.add_command(prog.find_command_class(c["cmd"]), c["result"], copy.deepcopy(c["args"]))
        else:
            text, _ = models.to_text(model)
            prog = Program.from_source(text, working_dir=d) if not case.get("libs") else Program.from_source(text, libraries=case["libs"], working_dir=d)
        raw_before = [(n, [snap(a) for a in c.arguments]) for n, c in prog.commands.items()]
        text_before = prog.to_string()
        try:
            prog.run()
        finally:
            ctx.count("live_argument_snapshots_compared")
            raw_after = [(n, [snap(a) for a in c.arguments]) for n, c in prog.commands.items()]
            if raw_after != raw_before:
                changed = [n for (n, a), (_, b) in zip(raw_before, raw_after) if a != b]
                ctx.fail("live:running-the-program-alters-its-raw-arguments", {"commands": changed[:5], "example": [repr(x)[:200] for x in [a for (n, a) in raw_before if n in changed][:1] + [b for (n, b) in raw_after if n in changed][:1]]})
            elif prog.to_string() != text_before:
                ctx.fail("live:running-the-program-alters-its-serialised-form", {})
        if case["kind"] == "live-nested":
            ctx.count("nested_list_runs")
            got = prog.commands["Kept"].result
            want = ("user", case["cmd"], (("Anything", _plain(case["value"])), ("InFieldName", ("result-of", "In_X0"))))
            if _plain(got) != want:
                ctx.fail("live:untyped-nested-list-not-handed-over-as-written", {"got": repr(got)[:300], "want": repr(want)[:300], "api": case.get("api")})
    except Exception as e:
        if case["kind"] == "live-nested":
            ctx.fail("live:nested-list-model-raises-%s" % type(e).__name__, {"error": str(e)[:300], "value": repr(case["value"])[:200]})
        ctx.dontcare("live model raised %s" % type(e).__name__)
    ctx.feature(("live", case.get("api", False), tuple(sorted(set(c["cmd"] for c in model["commands"])))[:5]))
    for v in _rec["violations"][nviol:]:
        ctx.fail("live:%s:%s" % (v[1], v[0]), {"detail": [repr(x)[:200] for x in v[2:]]})
    for key, results in _rec["pairs"].items():
        if len(results) >= 2:
            ctx.count("live_double_clean_pairs")
            if any(r != results[0] for r in results[1:]):
                ctx.fail("live:double-clean-differs", {"results": [repr(r)[:150] for r in results[:3]]})
    _rec["pairs"].clear()
