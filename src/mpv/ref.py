"""Independent reference models for the EEMS data commands, per cell, over Fraction | None.

None = missing. `Undefined` = the documentation does not define the outcome for this input
(don't-care: never judged). Every model returns (cells, scale): scale bounds the magnitude of
intermediate quantities, used to scale the float tolerance of the comparison.
"""
import math
from fractions import Fraction as F


class Undefined(Exception):
    pass


def _fr(x):
    if isinstance(x, F):
        return x
    if isinstance(x, bool):
        return F(int(x))
    return F(x)


def _valid(xs):
    return [x for x in xs if x is not None]


def _zipcells(inputs):
    n = len(inputs[0])
    for col in inputs:
        if len(col) != n:
            raise Undefined("shape mismatch")
    return [[col[i] for col in inputs] for i in range(n)]


def _lift(fn, inputs):
    out = []
    for tup in _zipcells(inputs):
        out.append(None if any(v is None for v in tup) else fn(tup))
    return out


def clamp(v, lo=F(-1), hi=F(1)):
    return None if v is None else (hi if v > hi else lo if v < lo else v)


def _scale(*vals):
    m = 1.0
    for v in vals:
        if v is None:
            continue
        if isinstance(v, (list, tuple)):
            m = max(m, _scale(*v))
        else:
            m = max(m, abs(float(v)))
    return m


# ---------------------------------------------------------------- arithmetic (C07)
def Copy(inputs, p):
    return list(inputs[0]), 1.0


def AMinusB(inputs, p):
    return _lift(lambda t: t[0] - t[1], inputs), _scale(_valid(inputs[0]), _valid(inputs[1]))


def ADividedByB(inputs, p):
    return _lift(lambda t: None if t[1] == 0 else t[0] / t[1], inputs), 1.0


def Sum(inputs, p):
    return _lift(lambda t: sum(t, F(0)), inputs), sum(_scale(_valid(c)) for c in inputs)


def Multiply(inputs, p):
    def prod(t):
        r = F(1)
        for v in t:
            r *= v
        return r
    return _lift(prod, inputs), 1.0


def Minimum(inputs, p):
    return _lift(min, inputs), 1.0


def Maximum(inputs, p):
    return _lift(max, inputs), 1.0


def Mean(inputs, p):
    n = len(inputs)
    return _lift(lambda t: sum(t, F(0)) / n, inputs), sum(_scale(_valid(c)) for c in inputs)


def WeightedSum(inputs, p):
    w = [_fr(x) for x in p["Weights"]]
    if len(w) != len(inputs):
        raise Undefined("weight count")
    return _lift(lambda t: sum((a * b for a, b in zip(t, w)), F(0)), inputs), sum(_scale(_valid(c)) * abs(float(wi)) for c, wi in zip(inputs, w))


def WeightedMean(inputs, p):
    w = [_fr(x) for x in p["Weights"]]
    if len(w) != len(inputs):
        raise Undefined("weight count")
    sw = sum(w, F(0))
    if sw == 0:
        # division by zero yields missing cells rather than an error or infinity (C07)
        _zipcells(inputs)
        return [None] * len(inputs[0]), 1.0
    sc = sum(_scale(_valid(c)) * abs(float(wi)) for c, wi in zip(inputs, w)) / abs(float(sw))
    return _lift(lambda t: sum((a * b for a, b in zip(t, w)), F(0)) / sw, inputs), sc


# ---------------------------------------------------------------- fuzzy logic (C06)
def FuzzyOr(inputs, p):
    return [clamp(v) for v in _lift(max, inputs)], 1.0


def FuzzyAnd(inputs, p):
    return [clamp(v) for v in _lift(min, inputs)], 1.0


def FuzzyNot(inputs, p):
    return [clamp(None if v is None else -v) for v in inputs[0]], 1.0


def FuzzyUnion(inputs, p):
    n = len(inputs)
    return [clamp(v) for v in _lift(lambda t: sum(t, F(0)) / n, inputs)], 1.0


def FuzzyWeightedUnion(inputs, p):
    w = [_fr(x) for x in p["Weights"]]
    if len(w) != len(inputs):
        raise Undefined("weight count")
    sw = sum(w, F(0))
    if sw == 0:
        raise Undefined("weights sum to zero")
    sc = sum(abs(float(wi)) for wi in w) / abs(float(sw))
    return [clamp(v) for v in _lift(lambda t: sum((a * b for a, b in zip(t, w)), F(0)) / sw, inputs)], sc


def FuzzySelectedUnion(inputs, p):
    k = p["NumberToConsider"]
    which = p["TruestOrFalsest"]
    if which not in ("Truest", "Falsest") or not isinstance(k, int) or isinstance(k, bool) or k < 1 or k > len(inputs):
        raise Undefined("k / TruestOrFalsest outside the defined domain")

    def sel(t):
        s = sorted(t)
        chosen = s[-k:] if which == "Truest" else s[:k]
        return sum(chosen, F(0)) / k
    return [clamp(v) for v in _lift(sel, inputs)], 1.0


def FuzzyXOr(inputs, p):
    if len(inputs) < 2:
        raise Undefined("XOr needs two truth values")

    def xor(t):
        s = sorted(t)
        t1, t2 = s[-1], s[-2]
        if t1 <= -1:
            return F(-1)
        return t1 - (t1 - t2) * (t2 + 1) / (t1 + 1)
    return [clamp(v) for v in _lift(xor, inputs)], 1.0


# ---------------------------------------------------------------- conversions (C08)
def _stats_minmax(col):
    v = _valid(col)
    if not v:
        raise Undefined("no valid cells")
    return min(v), max(v)


def _linear_tf(col, T, Fv):
    """true threshold -> +1, false threshold -> -1"""
    if T == Fv:
        raise Undefined("equal thresholds")
    return [None if x is None else 1 - 2 * (x - T) / (Fv - T) for x in col]


def CvtToFuzzy(inputs, p):
    col = inputs[0]
    d = p.get("Direction")
    if d is not None and d not in ("LowToHigh", "HighToLow"):
        raise Undefined("direction")
    lo, hi = _stats_minmax(col)
    Fv = _fr(p["FalseThreshold"]) if "FalseThreshold" in p else (hi if d == "HighToLow" else lo)
    T = _fr(p["TrueThreshold"]) if "TrueThreshold" in p else (lo if d == "HighToLow" else hi)
    sc = _scale(_valid(col), T, Fv) / max(abs(float(Fv - T)), 1e-300) if T != Fv else 1.0
    return [clamp(v) for v in _linear_tf(col, T, Fv)], max(1.0, sc)


def CvtFromFuzzy(inputs, p):
    T, Fv = _fr(p["TrueThreshold"]), _fr(p["FalseThreshold"])
    if T == Fv:
        raise Undefined("equal thresholds")
    return [None if x is None else T + (1 - x) * (Fv - T) / 2 for x in inputs[0]], _scale(T, Fv)


def CvtToBinary(inputs, p):
    d = p["Direction"]
    if d not in ("LowToHigh", "HighToLow"):
        raise Undefined("direction")
    th = _fr(p["Threshold"])
    low, high = (F(0), F(1)) if d == "LowToHigh" else (F(1), F(0))
    return [None if x is None else (low if x < th else high) for x in inputs[0]], 1.0


def Normalize(inputs, p):
    col = inputs[0]
    lo, hi = _stats_minmax(col)
    if lo == hi:
        raise Undefined("constant array")
    s, e = _fr(p.get("StartVal", 0)), _fr(p.get("EndVal", 1))
    return [None if x is None else s + (x - lo) * (e - s) / (hi - lo) for x in col], _scale(s, e)


def _mean_std(col):
    v = _valid(col)
    if not v:
        raise Undefined("no valid cells")
    mean = sum(v, F(0)) / len(v)
    var = sum(((x - mean) ** 2 for x in v), F(0)) / len(v)     # population variance
    std = math.sqrt(float(var))
    big = max(abs(float(x)) for x in v)
    if var > 0 and std < 1e-9 * big:
        # the spread of the field is at the rounding level of its values (e.g. -16.875 and -16.875000000000004 left behind by
        # earlier commands): a z-score of such a field is decided by rounding errors, whoever computes it
        raise Undefined("spread at rounding level: z-scores ill-conditioned")
    return mean, std, var


def NormalizeZScore(inputs, p, defaults=None):
    col = inputs[0]
    q = dict(defaults or {})
    q.update(p)
    if "TrueThresholdZScore" not in q or "FalseThresholdZScore" not in q:
        raise Undefined("documented and implemented default z-score thresholds disagree")
    tt, ft = float(q["TrueThresholdZScore"]), float(q["FalseThresholdZScore"])
    if tt == ft:
        raise Undefined("equal thresholds")
    s, e = q.get("StartVal", 0), q.get("EndVal", 1)
    if float(s) >= float(e):
        raise Undefined("StartVal >= EndVal")
    mean, std, var = _mean_std(col)
    if var == 0 or tt == ft:
        raise Undefined("zero spread or equal thresholds")
    x1 = float(mean) + std * tt
    x2 = float(mean) + std * ft
    out = []
    for x in col:
        if x is None:
            out.append(None)
            continue
        v = (float(x) - x1) * (float(s) - float(e)) / (x2 - x1) + float(e)
        out.append(min(max(v, float(s)), float(e)))
    sc = _scale(s, e) * max(1.0, _scale(_valid(col), x1, x2) / abs(x2 - x1))
    return out, sc


def CvtToFuzzyZScore(inputs, p):
    cells, sc = NormalizeZScore(inputs, p, defaults={"TrueThresholdZScore": 1, "FalseThresholdZScore": -1, "StartVal": -1, "EndVal": 1})
    return [None if v is None else min(max(v, -1.0), 1.0) for v in cells], sc


def _cat(col, raw, normal, default):
    if len(raw) != len(normal):
        raise Undefined("length mismatch")
    if len(set(_fr(r) for r in raw)) != len(raw):
        raise Undefined("duplicate raw values")
    table = {_fr(r): _fr(n) for r, n in zip(raw, normal)}
    return [None if x is None else table.get(x, _fr(default)) for x in col]


def NormalizeCat(inputs, p):
    return _cat(inputs[0], p["RawValues"], p["NormalValues"], p["DefaultNormalValue"]), 1.0


def CvtToFuzzyCat(inputs, p):
    return [clamp(v) for v in _cat(inputs[0], p["RawValues"], p["FuzzyValues"], p["DefaultFuzzyValue"])], 1.0


def _curve(col, raw, normal, exact=True):
    if len(raw) != len(normal) or not raw:
        raise Undefined("length mismatch / empty curve")
    conv = _fr if exact else float
    pts = sorted(zip([conv(r) for r in raw], [conv(n) for n in normal]))
    for i in range(1, len(pts)):
        if pts[i][0] == pts[i - 1][0]:
            raise Undefined("control points not strictly increasing")
    out = []
    sc = _scale([n for _, n in pts])
    for i in range(1, len(pts)):
        m = (float(pts[i][1]) - float(pts[i - 1][1])) / (float(pts[i][0]) - float(pts[i - 1][0]))
        sc = max(sc, abs(m * float(pts[i - 1][0])) + abs(float(pts[i - 1][1])))
    for x in col:
        if x is None:
            out.append(None)
            continue
        xx = x if exact else float(x)
        if xx <= pts[0][0]:
            out.append(pts[0][1])
        elif xx > pts[-1][0]:
            out.append(pts[-1][1])
        else:
            for i in range(1, len(pts)):
                if pts[i - 1][0] < xx <= pts[i][0]:
                    out.append(pts[i - 1][1] + (xx - pts[i - 1][0]) * (pts[i][1] - pts[i - 1][1]) / (pts[i][0] - pts[i - 1][0]))
                    break
    return out, sc


def NormalizeCurve(inputs, p):
    if len(set(_fr(r) for r in p["RawValues"])) != len(p["RawValues"]):
        raise Undefined("duplicate raw values")
    return _curve(inputs[0], p["RawValues"], p["NormalValues"])


def CvtToFuzzyCurve(inputs, p):
    if len(set(_fr(r) for r in p["RawValues"])) != len(p["RawValues"]):
        raise Undefined("duplicate raw values")
    cells, sc = _curve(inputs[0], p["RawValues"], p["FuzzyValues"])
    return [clamp(v) for v in cells], sc


def _mean_to_mid(col, normal, ignore_zeros):
    if len(normal) != 5:
        raise Undefined("MeanToMid takes five values")
    v = _valid(col)
    if not v:
        raise Undefined("no valid cells")
    lo, hi = min(v), max(v)
    w = [x for x in v if x != 0] if ignore_zeros else v
    if not w:
        raise Undefined("only zeros")
    mean = sum(w, F(0)) / len(w)
    below = [x for x in w if x <= mean]
    above = [x for x in w if x > mean]
    if not below or not above:
        raise Undefined("no spread around the mean")
    raw = [lo, sum(below, F(0)) / len(below), mean, sum(above, F(0)) / len(above), hi]
    normal = list(normal)
    lattice = all(x.denominator in (1, 2, 4, 8) and abs(x) <= 2 ** 20 for x in v)
    if not lattice:
        # off the dyadic lattice the implementation's float statistics differ from the exact ones by rounding: the
        # comparisons 'cell <= mean' and 'statistic == extreme' are then ill-conditioned whenever things (nearly) coincide
        tol = lambda a: F(1, 10 ** 9) * max(1, abs(a))
        for stat in raw[1:4]:
            if any(abs(x - stat) <= tol(stat) for x in v):
                raise Undefined("cell within rounding distance of a mean-to-mid statistic (non-lattice data)")
        for i in range(1, 5):
            if abs(raw[i] - raw[i - 1]) <= tol(raw[i]):
                raise Undefined("mean-to-mid statistics coincide within rounding (non-lattice data)")
    if raw[-1] == raw[-2]:
        del raw[-2]
        del normal[-2]
    if raw[0] == raw[1]:
        del raw[1]
        del normal[1]
    for i in range(1, len(raw)):
        if raw[i] <= raw[i - 1]:
            raise Undefined("statistics do not give increasing control points")
    # a lattice cell may sit within float rounding of a computed control point: undefined there
    return raw, normal


def NormalizeMeanToMid(inputs, p, key="NormalValues"):
    raw, normal = _mean_to_mid(inputs[0], p[key], bool(p["IgnoreZeros"]))
    return _curve(inputs[0], raw, normal)


def CvtToFuzzyMeanToMid(inputs, p):
    cells, sc = NormalizeMeanToMid(inputs, p, key="FuzzyValues")
    return [clamp(v) for v in cells], sc


def NormalizeCurveZScore(inputs, p, key="NormalValues"):
    col = inputs[0]
    z = p["ZScoreValues"]
    normal = p[key]
    if len(z) != len(normal) or not z:
        raise Undefined("length mismatch")
    mean, std, var = _mean_std(col)
    if var == 0:
        raise Undefined("zero spread")
    raw = [float(mean) + float(zz) * std for zz in z]
    if len(set(raw)) != len(raw):
        raise Undefined("duplicate z-scores")
    srt = sorted(raw)
    v = _valid(col)
    # cells within rounding distance of a (float) control point may fall on either side
    for x in v:
        for r in srt:
            if abs(float(x) - r) <= 1e-9 * max(1.0, abs(r)):
                raise Undefined("cell within rounding distance of a z-score control point")
    cells, sc = _curve(col, raw, normal, exact=False)
    return cells, sc


def CvtToFuzzyCurveZScore(inputs, p):
    cells, sc = NormalizeCurveZScore(inputs, p, key="FuzzyValues")
    return [None if v is None else min(max(v, -1.0), 1.0) for v in cells], sc


MODELS = {k: v for k, v in list(globals().items()) if k[0].isupper() and callable(v) and k not in ("F", "Undefined")}

ARITH = ("Sum", "WeightedSum", "Multiply", "AMinusB", "ADividedByB", "Minimum", "Maximum", "Mean", "WeightedMean", "Copy")
LOGIC = ("FuzzyOr", "FuzzyAnd", "FuzzyNot", "FuzzyUnion", "FuzzyWeightedUnion", "FuzzySelectedUnion", "FuzzyXOr")
CONVERT = ("CvtToFuzzy", "CvtFromFuzzy", "CvtToBinary", "CvtToFuzzyCat", "CvtToFuzzyCurve", "CvtToFuzzyZScore",
           "CvtToFuzzyCurveZScore", "CvtToFuzzyMeanToMid", "Normalize", "NormalizeZScore", "NormalizeCat",
           "NormalizeCurve", "NormalizeCurveZScore", "NormalizeMeanToMid")


def partial_overflow(cmd, cols, params, bound):
    """True if, combining the inputs in their listed order, some operand or partial sum / product exceeds `bound` in
    magnitude (integer overflow of an intermediate result is out of scope for every check)."""
    if cmd not in ("Multiply", "Sum", "WeightedSum", "WeightedMean", "Mean", "AMinusB"):
        return False
    wts = params.get("Weights") or [1] * len(cols)
    for tup in zip(*cols):
        if any(v is None for v in tup):
            continue
        run = None
        for v, wt in zip(tup, wts):
            term = v * F(wt) if cmd.startswith("Weighted") else v
            run = term if run is None else (run * term if cmd == "Multiply" else run - term if cmd == "AMinusB" else run + term)
            if abs(run) > bound or abs(term) > bound:
                return True
    return False


def compare(result, ref_cells, scale=1.0, rel=1e-9, exact=False):
    """result: numpy array from the implementation. Returns None if it agrees with the reference,
    else (kind, index, got, want) for the first disagreement. A plain ndarray has nothing missing."""
    from mpv import arr
    got = arr.cells(result)
    if len(got) != len(ref_cells):
        return ("cell-count", None, len(got), len(ref_cells))
    tol = rel * max(1.0, scale)
    for i, (g, w) in enumerate(zip(got, ref_cells)):
        if w is None:
            if g is not None:
                return ("missing-cell-present", i, g, None)
            continue
        if g is None:
            return ("valid-cell-missing", i, None, float(w))
        if isinstance(g, float) and (g != g or g in (float("inf"), float("-inf"))):
            return ("non-finite", i, repr(g), float(w))
        if exact:
            if F(g) != (w if isinstance(w, F) else F(w)):
                return ("value", i, g, float(w))
        else:
            if abs(float(g) - float(w)) > tol * max(1.0, abs(float(w))):
                return ("value", i, g, float(w))
    return None
