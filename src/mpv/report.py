"""Merge shard results, classify against known findings, write evidence, decide exit status."""
import hashlib
import importlib
import json
import os
import re

from mpv import findings


def _slug(s):
    return re.sub(r"[^A-Za-z0-9_.-]+", "_", s)[:80] + "-" + hashlib.sha1(s.encode()).hexdigest()[:8]


def finish(prop, tier, seed, nshards, results, inconclusive, wall, verif, write_evidence=True):
    mod = importlib.import_module("mpv.props." + prop.lower())
    counters, features, samples, dontcare = {}, set(), [], {}
    failures, fcounts, witnesses = {}, {}, []
    entered = set()
    evaluations = 0
    for r in results:
        evaluations += r["evaluations"]
        for k, v in r["counters"].items():
            counters[k] = counters.get(k, 0) + v
        features.update(r["features"])
        for s in r["samples"]:
            if len(samples) < 6:
                samples.append(s)
        for k, v in r["dontcare"].items():
            dontcare[k] = dontcare.get(k, 0) + v
        for k, v in r["failure_counts"].items():
            fcounts[k] = fcounts.get(k, 0) + v
        for f in r["failures"]:
            failures.setdefault(f["key"], []).append(f)
        for m in r["inconclusive"]:
            if m not in inconclusive:
                inconclusive.append(m)
        witnesses.extend(r.get("witnesses", []))
        if r.get("entered") is not None:
            entered.update(r["entered"])

    for name in getattr(mod, "REQUIRED_COUNTERS", []):
        if counters.get(name, 0) == 0:
            inconclusive.append("deciding monitor/counter '%s' observed nothing" % name)
    if evaluations == 0:
        inconclusive.append("no cases were executed")
    if hasattr(mod, "post_merge"):
        inconclusive.extend(mod.post_merge(counters, tier))

    known = {f["key"]: f for f in findings.for_property(verif, prop)}
    known_observed = []
    printed = set()
    for w in witnesses:
        if w["reproduced"]:
            print("KNOWN-FINDING: property=%s key=%s %s" % (prop, w["key"], w["text"]))
            printed.add(w["key"])
            known_observed.append(w["key"])
    violations = []
    for key in sorted(failures):
        if key in known:
            if key not in printed:
                print("KNOWN-FINDING: property=%s key=%s %s" % (prop, key, known[key]["text"]))
                printed.add(key)
                known_observed.append(key)
            continue
        best = min(failures[key], key=lambda f: len(json.dumps(f["case"], default=repr)))
        rdir = os.path.join(verif, "replays", prop)
        os.makedirs(rdir, exist_ok=True)
        path = os.path.join(rdir, _slug(key) + ".json")
        with open(path, "w") as fh:
            json.dump({"property": prop, "key": key, "detail": best["detail"], "case": best["case"],
                       "occurrences": fcounts.get(key, 1), "tier": tier, "seed": seed,
                       "hashseed": best.get("hashseed", "0")}, fh, indent=1, default=repr)
        violations.append((key, path, best["detail"]))
    for key, path, detail in violations[:25]:
        print("FAILURE key=%s n=%d detail=%s" % (key, fcounts.get(key, 1), json.dumps(detail, default=repr)[:600]))
        print("VIOLATION property=%s replay=%s" % (prop, path))

    level = getattr(mod, "LEVEL", "exploration")
    cov = {
        "evaluations": int(evaluations),
        "distinct_nontrivial": len(features),
        "rule": getattr(mod, "RULE", ""),
        "samples": samples,
        "monitor_events": counters,
        "dont_care_cases": dontcare,
        "known_findings_observed": sorted(set(known_observed)),
        "inconclusive_reasons": inconclusive[:10],
        "violation_keys": [v[0] for v in violations],
        "shards": nshards,
        "exhaustive": bool(getattr(mod, "EXHAUSTIVE", {}).get(tier, False)),
    }
    anchors = getattr(mod, "ANCHORS", [])
    cov["repository_functions_entered"] = len(entered)
    cov["anchors_reached"] = [a for a in anchors if a in entered]
    cov["anchors_missed"] = [a for a in anchors if a not in entered]
    if anchors and not cov["anchors_reached"] and entered:
        inconclusive.append("none of the anchored mechanisms was entered by the workload: " + ", ".join(anchors[:4]))
    if hasattr(mod, "EXHAUSTIVE_NOTE"):
        cov["exhaustive_subspaces"] = mod.EXHAUSTIVE_NOTE
    ev = {
        "property_id": prop, "tier": tier, "seed": int(seed), "level": level, "coverage": cov,
        "assumptions": getattr(mod, "ASSUMPTIONS", []), "wall_s": round(wall, 2), "violations": len(violations),
    }
    if write_evidence:
        try:
            import jsonschema
            schema = json.load(open(os.path.join(verif, "schemas", "EVIDENCE.schema.json")))
            jsonschema.validate(ev, schema)
        except ImportError:
            pass
        except Exception as e:  # schema problem => the run cannot count as evidence
            inconclusive.append("evidence does not validate: %s" % str(e)[:300])
        os.makedirs(os.path.join(verif, "evidence"), exist_ok=True)
        with open(os.path.join(verif, "evidence", prop + ".json"), "w") as fh:
            json.dump(ev, fh, indent=1, sort_keys=True, default=repr)
            fh.write("\n")

    top = sorted(counters.items(), key=lambda kv: -kv[1])[:8]
    print("%s %s seed=%d: %d cases, %d distinct feature vectors, %d known-finding keys, %d violation keys, %.1fs; observed %s"
          % (prop, tier, seed, evaluations, len(features), len(set(known_observed)), len(violations), wall,
             ", ".join("%s=%d" % kv for kv in top)))
    if violations:
        return 1
    if inconclusive:
        for m in inconclusive[:5]:
            print("INCONCLUSIVE property=%s reason=%s" % (prop, m.replace("\n", " | ")[:1500]))
        return 2
    return 0
