"""W-SYNTAX: abstract command-file programs, their concrete renderings (with a line map recorded by the
renderer), an unambiguous corruptor, and structural comparison with the parser's ProgramNode."""
import re

IDENT = re.compile(r"^[A-Za-z_][A-Za-z_0-9]*$")
WORDS = ["Foo", "Bar", "alpha", "x", "data_v2", "Low", "Medium", "High", "is", "a", "string", "value", "T1", "_tmp", "Elev", "km2"]
NONASCII = ["é", "ü", "Ω", "日本", "ß", "—", "ñ", "e\u0301", "\u212b", "\u2126", "\ufb01"]      # the last four are not in Unicode composed (NFC / NFKC) form


# ---------------------------------------------------------------- AST generation
def gen_ident(rng, prefix=""):
    return prefix + rng.choice(["A", "B", "Res", "Out", "Slope", "x", "In", "F", "val", "Layer"]) + rng.choice(["", "_1", "2", "_Fz", "X9", "_"]) + (str(rng.randint(0, 99)) if rng.random() < 0.3 else "")


def gen_int(rng):
    style = rng.choice(["plain", "plain", "signed", "zeros", "huge", "zero"])
    if style == "plain":
        v = rng.randint(0, 100000)
        return {"t": "int", "v": v, "text": str(v)}
    if style == "signed":
        v = rng.randint(0, 999)
        s = rng.choice(["+", "-"])
        return {"t": "int", "v": v if s == "+" else -v, "text": s + str(v)}
    if style == "zeros":
        v = rng.randint(0, 999)
        return {"t": "int", "v": v, "text": "00" + str(v)}
    if style == "huge":
        v = rng.randint(2 ** 63, 2 ** 80)
        return {"t": "int", "v": v, "text": str(v)}
    return {"t": "int", "v": 0, "text": rng.choice(["0", "-0", "+0"])}


def gen_float(rng, exponent_without_point=True):
    style = rng.choice(["dec", "dec", "trail", "lead", "exp", "exp", "negzero", "repr", "nopoint"])
    if style == "dec":
        text = "%d.%d" % (rng.randint(0, 999), rng.randint(0, 9999))
    elif style == "trail":
        text = "%d." % rng.randint(0, 99)
    elif style == "lead":
        text = ".%d" % rng.randint(0, 999)
    elif style == "exp":
        text = "%d.%d%s%s%d" % (rng.randint(0, 9), rng.randint(0, 99), rng.choice("eE"), rng.choice(["", "+", "-"]), rng.randint(0, 30))
    elif style == "negzero":
        text = "-0.0"
    elif style == "repr":
        text = repr(rng.choice([1e-05, 1e+22, 5e-324, 1.7976931348623157e+308, 0.1, 2.5e-7, 123456789.125, 1e16]))
        if "." not in text and not exponent_without_point:
            text = "1.5e-05"
    else:
        text = "%d%s%s%d" % (rng.randint(1, 9), rng.choice("eE"), rng.choice(["", "+", "-"]), rng.randint(0, 20)) if exponent_without_point else "2.5e3"
    if rng.random() < 0.25 and text[0] not in "+-":
        text = rng.choice(["+", "-"]) + text
    return {"t": "float", "v": float(text), "text": text}


def gen_qstr(rng, rich=True):
    n = rng.randint(0, 4)
    parts = []
    for _ in range(n):
        k = rng.random()
        if k < 0.35:
            parts.append(rng.choice(WORDS))
        elif k < 0.5:
            parts.append(str(rng.randint(0, 999)) + rng.choice(["", ".5", "abc"]))
        elif k < 0.7 and rich:
            parts.append(rng.choice(["#", ":", ",", "=", "(", ")", "[", "]", "+", "-", "/", ".", "  ", "%", "C:", "#:,=()[]"]))
        elif k < 0.8 and rich:
            parts.append(rng.choice(['"', "'", '"x"', "it's"]))
        elif k < 0.88 and rich:
            parts.append(rng.choice(NONASCII))
        elif k < 0.93 and rich:
            parts.append(rng.choice(["\\", "\n", "\t", "a\\b", "\\\\", "$$", "$Name", "${Name}", "100$", "{0}", "{id}", "%s", "%(x)d", "{{x}}",
                                     # text that looks like the start of the next argument or command after a line break
                                     "\ny = a + b", "\n  Weights = [1, 2]", "\n\tB=", "\nRes = Sum(", "\n)", "\n# not a comment"]))
        elif k < 0.96 and rich:
            # characters that str.splitlines() treats as line boundaries but the command-file syntax does not
            parts.append(rng.choice(["\x0c", "\x0b", "\x1c", "\x1d", "\x1e", "\x85", "\u2028", "\u2029", "\r", "\u200b", "\ufeff", "\u3000"]))
        else:
            parts.append(" ")
    v = rng.choice(["", " "]).join(parts)
    out = {"t": "qstr", "v": v, "q": rng.choice(['"', "'"])}
    if rich and rng.random() < 0.15:
        # the same content written with numeric escapes (\xhh, \uhhhh, \Uhhhhhhhh) for characters outside printable ASCII
        out["esc"] = rng.choice(["x", "u"])
    return out


USTR_CLASSES = ["word", "word", "sentence", "sentence-dot", "digit-leading", "path", "winpath", "url", "plusminus", "id-float-id", "pct", "ctrl-char", "bool-word", "multi-blank"]
USTR_NUMBER_FINAL = ["number-final-dot", "number-final-word", "number-final-ver"]


def gen_ustr(rng, allow_colon=True, classes=None):
    cls = rng.choice(classes or USTR_CLASSES)
    if cls in ("winpath", "url") and not allow_colon:
        cls = "path"
    if cls == "word":
        v = rng.choice(WORDS)
    elif cls == "sentence":
        v = " ".join(rng.choice(WORDS) for _ in range(rng.randint(2, 4)))
    elif cls == "sentence-dot":
        v = " ".join(rng.choice(WORDS) for _ in range(rng.randint(2, 4))) + "."
    elif cls == "digit-leading":
        v = rng.choice(["5abc", "1.50abc", "3d_model", "2 words", "10m_dem", "007x", "1.5E3x", ".5rest"])
    elif cls == "path":
        v = rng.choice(["/Path/To/123.txt", "/a/b.c", "data/in.csv", "./rel/x.5/y.nc", "/tmp/out dir/file.csv", "a/b/c_d.e"])
    elif cls == "winpath":
        v = rng.choice(["C:\\path\\to\\thing", "D:\\x\\y.csv"])
    elif cls == "url":
        v = rng.choice(["https://databasin.org", "Link. https://consbio.org", "http://h/p.html"])
    elif cls == "plusminus":
        v = rng.choice(["A+/-B", "x+/-y"])
    elif cls == "id-float-id":
        v = rng.choice(["x.5y", "a1.25b", "v.0rc"])
    elif cls == "pct":
        v = rng.choice(["%abc", "50%cover", "a&b", "x;y", "a|b", "q?"])
    elif cls == "ctrl-char":
        v = rng.choice(["page\x0cbreak", "a\x0bb", "x\x85y", "ls\u2028sep", "fs\x1csep"])
    elif cls == "bool-word":
        v = rng.choice(["True", "False", "True color composite", "Not True", "False alarm rate", "is True"])
    elif cls == "multi-blank":
        v = rng.choice(["Hello  World", "Version 1.50   final", "a\tb", "two  spaces.", "x \t y", "5  abc"])
    elif cls == "number-final-dot":
        v = rng.choice(["file.2", "/a/b.5x.7", "layer.10"])
    elif cls == "number-final-word":
        v = rng.choice(["route 66", "band 3", "x 1.5"])
    else:
        v = rng.choice(["data_v1.0", "run2.5", "v1.2"])
    return {"t": "ustr", "v": v, "cls": cls}


def gen_scalar(rng, allow_colon=True, ustr_classes=None, rich=True, exponent_without_point=True):
    k = rng.random()
    if k < 0.25:
        return gen_int(rng)
    if k < 0.45:
        return gen_float(rng, exponent_without_point)
    if k < 0.7:
        return gen_qstr(rng, rich)
    return gen_ustr(rng, allow_colon, ustr_classes)


def gen_list(rng, depth=0, **kw):
    n = rng.choice([0, 1, 1, 2, 3, 4])
    items = []
    for _ in range(n):
        if depth < 2 and rng.random() < 0.25:
            items.append(gen_list(rng, depth + 1, **kw))
        else:
            items.append(gen_scalar(rng, allow_colon=False, **kw))
    return {"t": "list", "items": items, "trail": bool(items) and rng.random() < 0.25}


def gen_tuple(rng, **kw):
    n = rng.randint(1, 4)
    pairs, seen = [], set()
    for _ in range(n):
        key = rng.choice(WORDS + ["Color", "Display Name", "DisplayName", "DisplayName", "Description", "k1", "5abc", "a.b", "Cover%", "Units/", "x.5y", "/p/q", "k.", "%", "True", "Flag  two"])
        if key in seen:
            continue
        seen.add(key)
        quoted = rng.random() < 0.4 or not re.match(r"^[A-Za-z_0-9 ./%]+$", key)
        val = gen_scalar(rng, allow_colon=True, **kw)
        pairs.append([{"v": key, "q": rng.choice(['"', "'"]) if quoted else None}, val])
    return {"t": "tuple", "pairs": pairs, "trail": rng.random() < 0.25}


def gen_value(rng, **kw):
    k = rng.random()
    if k < 0.62:
        return gen_scalar(rng, **kw)
    if k < 0.88:
        return gen_list(rng, **kw)
    return gen_tuple(rng, **kw)


def gen_program(rng, max_cmds=8, max_args=6, **kw):
    cmds = []
    for i in range(rng.randint(1, max_cmds)):
        args = []
        names = set()
        for _ in range(rng.randint(0, max_args)):
            nm = gen_ident(rng, "P")
            if nm in names:
                continue
            names.add(nm)
            args.append({"name": nm, "value": gen_value(rng, **kw)})
        cmds.append({"result": "R%d_%s" % (i, gen_ident(rng)), "command": gen_ident(rng, "Cmd"), "args": args, "trail": bool(args) and rng.random() < 0.2})
    return {"commands": cmds}


# ---------------------------------------------------------------- rendering
ESC = {"\\": "\\\\", "\n": "\\n", "\t": "\\t", "\r": "\\r"}


def quote(s, q, raw_newline=False, esc=None):
    out = []
    for ch in s:
        if esc and (ord(ch) > 126 or (ord(ch) < 32 and ch not in "\n\t\r")):
            o = ord(ch)
            out.append("\\x%02x" % o if (o < 256 and esc == "x") else "\\u%04x" % o if o < 65536 else "\\U%08x" % o)
        elif ch == q:
            out.append("\\" + q)
        elif ch == "\n" and raw_newline:
            out.append("\n")
        elif ch in ESC:
            out.append(ESC[ch])
        else:
            out.append(ch)
    return q + "".join(out) + q


class Renderer(object):
    """Turns an AST into text. style: 'canon' (one space, no breaks) | 'wild' (random gaps, comments, breaks).
    Records, for every AST node, the 1-based line on which its first token starts (node['_line'])."""

    def __init__(self, rng=None, style="wild", head_one_line=False, raw_newline_strings=False, eol="\n"):
        self.rng, self.style, self.head_one_line, self.rawnl, self.eol = rng, style, head_one_line, raw_newline_strings, eol
        self.out = []
        self.line = 1
        self.nobreak = 0

    def emit(self, text):
        self.out.append(text)
        self.line += text.count("\n")

    def gap(self, must=False, allow_empty=True):
        if self.style == "canon":
            if must or not allow_empty:
                self.emit(" ")
            return
        r = self.rng.random()
        if self.nobreak:
            self.emit(self.rng.choice(["", " ", "  ", "\t"] if allow_empty else [" ", "  ", "\t"]))
            return
        if getattr(self, "no_comments", False) and r >= 0.86:
            r = 0.7
        if r < 0.45:
            self.emit(self.rng.choice(["", " "] if allow_empty else [" "]))
        elif r < 0.6:
            self.emit(self.rng.choice(["  ", "\t", " \t "]))
        elif r < 0.78:
            self.emit("\n" + self.rng.choice(["", "  ", "    ", "\t"]))
        elif r < 0.86:
            self.emit("\n\n" + self.rng.choice(["", "  "]))
        elif r < 0.93:
            # a comment starts at the '#', wherever it stands: after a blank, or glued to the token before it and to its own text
            self.emit(self.rng.choice([" # ", " # ", " #", "# ", "#"]) + self.rng.choice(["comment", "A = B(C = 1)", "x, y: [z]", "'quote", "trailing \"q\"", "note", "5", "ff0000"]) + "\n" + self.rng.choice(["", "  "]))
        else:
            self.emit("\n# " + self.rng.choice(["a comment line", "Result = Cmd(", ")"]) + "\n   ")

    def value(self, v):
        v["_line"] = self.line
        t = v["t"]
        if t in ("int", "float"):
            self.emit(v["text"])
        elif t == "qstr":
            self.emit(quote(v["v"], v["q"], self.rawnl, v.get("esc")))
        elif t == "ustr":
            self.emit(v["v"])
        elif t == "raw":
            self.emit(v["text"])        # text given verbatim (e.g. a quoted Windows path written with single backslashes)
        elif t == "list":
            self.emit("[")
            for i, it in enumerate(v["items"]):
                self.gap()
                self.value(it)
                self.gap()
                if i < len(v["items"]) - 1 or v["trail"]:
                    self.emit(",")
            self.gap()
            self.emit("]")
        elif t == "tuple":
            self.emit("[")
            for i, (k, val) in enumerate(v["pairs"]):
                self.gap()
                k["_line"] = self.line
                self.emit(quote(k["v"], k["q"]) if k["q"] else k["v"])
                self.gap()
                self.emit(":")
                self.gap()
                self.value(val)
                self.gap()
                if i < len(v["pairs"]) - 1 or v["trail"]:
                    self.emit(",")
            self.gap()
            self.emit("]")

    def program(self, prog):
        if self.style == "wild" and self.rng.random() < 0.4:
            self.emit(self.rng.choice(["\n", "# header comment\n", "\n\n# c\n", "   \n"] if not getattr(self, "no_comments", False) else ["\n", "  \n\n"]))
        for ci, c in enumerate(prog["commands"]):
            if ci:
                if self.style == "canon":
                    self.emit("\n")
                else:
                    self.nobreak = 0
                    self.gap(must=True, allow_empty=False)
            if self.head_one_line:
                self.nobreak = 1
            c["_line_result"] = self.line
            if c["result"] is not None:     # EEMS 2.0 form: no 'Result ='
                self.emit(c["result"])
                self.gap()
                self.emit("=")
                self.gap()
            c["_line"] = self.line
            self.emit(c["command"])
            self.gap()
            self.emit("(")
            self.nobreak = 0
            for i, a in enumerate(c["args"]):
                self.gap()
                a["_line"] = self.line
                self.emit(a["name"])
                self.gap()
                self.emit("=")
                self.gap()
                self.value(a["value"])
                self.gap()
                if i < len(c["args"]) - 1 or c.get("trail"):
                    self.emit(",")
            self.gap()
            self.emit(")")
        if self.style == "wild" and self.rng.random() < 0.4:
            self.emit(self.rng.choice(["\n", "  # end", "\n\n", "\n# bye\n"] if not getattr(self, "no_comments", False) else ["\n", "\n\n"]))
        text = "".join(self.out)
        return text


def render(prog, rng=None, style="wild", **kw):
    r = Renderer(rng, style, **kw)
    text = r.program(prog)
    eol = kw.get("eol", "\n")
    if eol != "\n":
        text = text.replace("\n", eol)
    return text


# ---------------------------------------------------------------- comparison with the parser's tree
def expect_value(v):
    """Python value the parser must deliver for an AST value (lists of expected values, dict for tuples)."""
    t = v["t"]
    if t in ("int", "float", "qstr", "ustr"):
        return v["v"]
    if t == "list":
        return [expect_value(i) for i in v["items"]]
    return {k["v"]: expect_value(val) for k, val in v["pairs"]}


def strip_node(node):
    """ExpressionNode tree -> plain python values."""
    val = getattr(node, "value", node)
    if isinstance(val, list):
        return [strip_node(x) for x in val]
    if isinstance(val, dict):
        return {k: strip_node(x) for k, x in val.items()}
    return val


def same_value(got, want):
    if isinstance(want, bool) or isinstance(got, bool):
        return type(got) is type(want) and got == want
    if isinstance(want, int):
        return type(got) is int and got == want
    if isinstance(want, float):
        import struct
        return type(got) is float and struct.pack("<d", got) == struct.pack("<d", want)
    if isinstance(want, str):
        return isinstance(got, str) and got == want
    if isinstance(want, list):
        return isinstance(got, list) and len(got) == len(want) and all(same_value(g, w) for g, w in zip(got, want))
    if isinstance(want, dict):
        return isinstance(got, dict) and set(got) == set(want) and all(same_value(got[k], want[k]) for k in want)
    return False


def first_diff(prog, tree):
    """None if the ProgramNode matches the AST, else (path, got, want, value_ast)."""
    cmds = tree.commands
    if len(cmds) != len(prog["commands"]):
        return ("command-count", len(cmds), len(prog["commands"]), None)
    for ci, (c, n) in enumerate(zip(prog["commands"], cmds)):
        if n.result_name != c["result"]:
            return ("result-name", n.result_name, c["result"], None)
        if n.command != c["command"]:
            return ("command-name", n.command, c["command"], None)
        if len(n.arguments) != len(c["args"]):
            return ("argument-count", len(n.arguments), len(c["args"]), None)
        for a, an in zip(c["args"], n.arguments):
            if an.name != a["name"]:
                return ("argument-name", an.name, a["name"], None)
            got, want = strip_node(an.value), expect_value(a["value"])
            if not same_value(got, want):
                leaf = _first_leaf_diff(a["value"], got)
                return ("value", got, want, leaf)
    return None


def _first_leaf_diff(v, got):
    t = v["t"]
    if t == "list":
        if not isinstance(got, list) or len(got) != len(v["items"]):
            return v
        for it, g in zip(v["items"], got):
            if not same_value(g, expect_value(it)):
                return _first_leaf_diff(it, g)
        return v
    if t == "tuple":
        if not isinstance(got, dict):
            return v
        for k, val in v["pairs"]:
            if k["v"] not in got:
                return {"t": "tuple-key", "v": k["v"], "q": k["q"]}
            if not same_value(got[k["v"]], expect_value(val)):
                return _first_leaf_diff(val, got[k["v"]])
        return v
    return v


def value_feature(v):
    """Mechanism-level class of a leaf value (for failure keys)."""
    t = v["t"]
    if t == "ustr":
        cls = v.get("cls", "?")
        return "ustr." + ("number-final" if cls.startswith("number-final") else cls)
    if t == "qstr":
        s = v["v"]
        f = []
        if any(ord(c) > 127 for c in s):
            f.append("nonascii")
        if "\\" in s:
            f.append("backslash")
        if v["q"] in s:
            f.append("own-quote")
        if ("'" if v["q"] == '"' else '"') in s and (s[:1] in "\"'" or s[-1:] in "\"'"):
            f.append("edge-other-quote")
        if "\n" in s or "\t" in s:
            f.append("ctrl")
        if v.get("esc"):
            f.append("numeric-escapes")
        return "qstr." + ("+".join(f) or "plain")
    if t == "float":
        return "float." + ("exp-nopoint" if "." not in v["text"] else "exp" if "e" in v["text"].lower() else "dec")
    if t == "int":
        return "int"
    return t


# ---------------------------------------------------------------- corruption (single edit outside string literals)
def token_spans(text):
    """(kind, start, end) for structural characters outside quoted strings and comments."""
    spans = []
    i, n = 0, len(text)
    while i < n:
        ch = text[i]
        if ch in "\"'":
            j = i + 1
            while j < n and text[j] != ch:
                j += 2 if text[j] == "\\" else 1
            i = j + 1
            continue
        if ch == "#":
            while i < n and text[i] not in "\r\n":
                i += 1
            continue
        if ch in "()[]=,:":
            spans.append((ch, i, i + 1))
        i += 1
    return spans


def corrupt(text, rng):
    """Returns (kind, corrupted text) or None. Every edit makes the text malformed under the documented grammar."""
    spans = token_spans(text)
    kinds = ["del(", "dup(", "del)", "del[", "del]", "dup[", "dup]", "dbl,", "stray=", "stray)", "delname", "del=arg", "delquote", "mixlist", "mixlist", "lead,", "lead,", "only,"]
    rng.shuffle(kinds)
    for kind in kinds:
        if kind in ("del(", "del)", "del[", "del]"):
            c = [s for s in spans if s[0] == kind[3]]
            if c:
                s = rng.choice(c)
                return kind, text[:s[1]] + text[s[2]:]
        if kind in ("dup(", "dup[", "dup]"):
            c = [s for s in spans if s[0] == kind[3]]
            if c:
                s = rng.choice(c)
                return kind, text[:s[1]] + kind[3] + text[s[1]:]
        if kind in ("lead,", "only,"):
            # a comma where an argument list / a list begins: directly after '(' or '[' (blanks and line breaks in between)
            c = [s for s in spans if s[0] in ("(" if kind == "only," else "([")]
            if c:
                s = rng.choice(c)
                return kind, text[:s[2]] + rng.choice([",", " ,", "\n  ,", ", "]) + text[s[2]:]
        if kind == "dbl,":
            c = [s for s in spans if s[0] == ","]
            if c:
                s = rng.choice(c)
                return kind, text[:s[1]] + "," + rng.choice(["", " "]) + text[s[1]:]
        if kind == "stray=":
            c = [s for s in spans if s[0] == "="]
            if c:
                s = rng.choice(c)
                return kind, text[:s[2]] + " =" + text[s[2]:]
        if kind == "stray)":
            return kind, text.rstrip() + rng.choice(["\n)", "\n)\n", "\n  )"])
        if kind == "delname":
            m = list(re.finditer(r"(?m)^(\s*[A-Za-z_][A-Za-z_0-9]*\s*=\s*)([A-Za-z_][A-Za-z_0-9]*)(\s*\()", text))
            m = [x for x in m if "#" not in x.group(0) and '"' not in text[:x.start()] and "'" not in text[:x.start()]]
            if m:
                x = rng.choice(m)
                return kind, text[:x.start(2)] + text[x.end(2):]
        if kind == "del=arg":
            # '=' that follows an argument name directly after '(' or ','
            c = []
            for k in range(1, len(spans)):
                if spans[k][0] == "=" and spans[k - 1][0] in "(," and IDENT.match(text[spans[k - 1][2]:spans[k][1]].strip() or "-"):
                    c.append(spans[k])
            if c:
                s = rng.choice(c)
                return kind, text[:s[1]] + " " + text[s[2]:]
        if kind == "mixlist":
            # a key/value pair inside a plain list: '[1, 2]' -> '[1, k: 2]' (a list holds values, a tuple holds pairs)
            c = []
            for k in range(1, len(spans) - 1):
                if spans[k][0] == "," and spans[k - 1][0] in "[," and spans[k + 1][0] in "],":
                    # the comma sits between two elements of a bracketed sequence without nested structure right here
                    depth_ok = ":" not in text[spans[k - 1][2]:spans[k + 1][1]]
                    inner = text[spans[k][2]:spans[k + 1][1]].strip()
                    if depth_ok and inner and "[" not in inner and "(" not in inner and "=" not in inner:
                        c.append(spans[k])
            # only inside lists: the nearest unclosed bracket before the comma must be '[' and its content must not be a tuple
            good = []
            for sp in c:
                stack = []
                for t in spans:
                    if t[1] >= sp[1]:
                        break
                    if t[0] in "[(":
                        stack.append(t)
                    elif t[0] in "])" and stack:
                        stack.pop()
                if stack and stack[-1][0] == "[":
                    close = [t for t in spans if t[1] > sp[1] and t[0] == "]"]
                    seg = text[stack[-1][2]:close[0][1]] if close else ""
                    if ":" not in seg:
                        good.append(sp)
            if good:
                s_ = rng.choice(good)
                return kind, text[:s_[2]] + " k:" + text[s_[2]:]
        if kind == "delquote":
            if text.count('"') == 2 and "'" not in text and "\\" not in text and "#" not in text:
                i = text.rindex('"')
                return kind, text[:i] + text[i + 1:]
    return None
