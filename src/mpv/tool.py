"""The `mpilot` command-line tool in a process of its own (so that it can be started from any current directory, e.g. in the
directory of the command file with the bare file name, as users do)."""
import os
import subprocess
import sys

_MAIN = "import sys; from mpilot.cli.mpilot import main; sys.argv = ['mpilot'] + sys.argv[1:]; main()"


def run_tool(args, cwd=None, timeout=120):
    """Returns (exit code, stdout, stderr), or None when the process timed out."""
    env = dict(os.environ)
    env["PYTHONPATH"] = os.pathsep.join(p for p in sys.path if p)
    try:
        r = subprocess.run([sys.executable, "-c", _MAIN] + list(args), cwd=cwd, env=env, capture_output=True, text=True, timeout=timeout)
    except subprocess.TimeoutExpired:
        return None
    return r.returncode, r.stdout, r.stderr
