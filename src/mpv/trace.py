"""E1 event recorder: execute() enter/exit per command instance, Command.result reads, Command.run nesting,
file-system writes (audit hook + directory snapshot). Attached from outside; nothing in /repo is edited.

A Recorder is installed once per process (class-level replacement of Command.result / Command.run, one audit
hook); events go to the currently active log (start()/stop())."""
import os
import sys

_state = {"installed": False, "log": None, "seq": 0, "stack": [], "run_depth": 0, "max_run_depth": 0, "audit": False,
          "watch_dirs": (), "orig_result": None, "orig_run": None}


def _emit(kind, **kw):
    log = _state["log"]
    if log is None:
        return
    _state["seq"] += 1
    kw["k"] = kind
    kw["seq"] = _state["seq"]
    kw["depth"] = len(_state["stack"])
    log.append(kw)


def _vd(value):
    """Digest of an array value *at the time of the event* (the array object itself may be altered later)."""
    try:
        import numpy
        if isinstance(value, numpy.ndarray) and value.size <= 4000000:
            from mpv import arr
            return arr.digest(value)
    except Exception:
        pass
    return None


def install():
    """Replace the documented Command.result property and Command.run by recording versions (idempotent)."""
    if _state["installed"]:
        return
    from mpilot.commands import Command
    from mpv.core import HarnessProblem
    orig_prop = Command.__dict__.get("result")
    orig_run = Command.__dict__.get("run")
    if not isinstance(orig_prop, property) or orig_run is None:
        raise HarnessProblem("Command.result / Command.run not found: recorder cannot attach")
    _state["orig_result"], _state["orig_run"] = orig_prop, orig_run

    def result(self):
        reader = _state["stack"][-1] if _state["stack"] else "<harness>"
        fin = bool(getattr(self, "is_finished", False))
        _emit("read", reader=reader, target=getattr(self, "result_name", "?"), finished=fin, target_id=id(self))
        value = orig_prop.fget(self)
        _emit("read_done", reader=reader, target=getattr(self, "result_name", "?"), value_id=id(value), target_id=id(self), value=value, vdigest=_vd(value))
        return value

    def run(self):
        _state["run_depth"] += 1
        _state["max_run_depth"] = max(_state["max_run_depth"], _state["run_depth"])
        _emit("run_enter", name=getattr(self, "result_name", "?"), run_depth=_state["run_depth"])
        try:
            return orig_run(self)
        finally:
            _state["run_depth"] -= 1

    Command.result = property(result)
    Command.run = run
    _state["installed"] = True


def install_audit():
    if _state["audit"]:
        return

    def hook(event, args):
        if _state["log"] is None:
            return
        try:
            if event == "open":
                path, mode = args[0], args[1]
                if isinstance(mode, str) and any(c in mode for c in "wax+") and _watched(path):
                    _emit("fs_write", op="open:" + mode, path=str(path))
            elif event in ("os.remove", "os.rename", "os.mkdir", "os.rmdir", "os.truncate", "shutil.rmtree", "os.replace", "os.symlink"):
                if _watched(args[0]):
                    _emit("fs_write", op=event, path=str(args[0]))
        except Exception:
            pass

    sys.addaudithook(hook)
    _state["audit"] = True


def _watched(path):
    try:
        p = os.fspath(path)
    except TypeError:
        return False
    if isinstance(p, bytes):
        p = p.decode("utf-8", "replace")
    p = os.path.abspath(p)
    return any(p.startswith(d) for d in _state["watch_dirs"])


def attach(program):
    """Per-instance execute wrappers on every command currently in the program (idempotent per instance)."""
    for name, cmd in list(program.commands.items()):
        if getattr(cmd, "_mpv_wrapped", False):
            continue
        _wrap(cmd)


def _wrap(cmd):
    inner = cmd.execute   # bound method of the instance's class

    def execute(**kwargs):
        name = cmd.result_name
        _emit("exec_enter", name=name, cls=type(cmd).__name__, finished_before=bool(cmd.is_finished), obj=id(cmd),
              kw={k: _kw(v) for k, v in kwargs.items()})
        _state["stack"].append(name)
        try:
            value = inner(**kwargs)
        except BaseException as e:
            _state["stack"].pop()
            _emit("exec_raise", name=name, exc=type(e).__name__)
            raise
        _state["stack"].pop()
        _emit("exec_exit", name=name, value_id=id(value), obj=id(cmd), value=value, vdigest=_vd(value))
        hook = _state.get("on_exit")
        if hook:
            hook(cmd, value)
        return value

    cmd.execute = execute
    cmd._mpv_wrapped = True


def _kw(v):
    from mpilot.commands import Command
    if isinstance(v, Command):
        return {"ref": v.result_name, "finished": bool(v.is_finished), "obj": id(v)}
    if isinstance(v, (list, tuple)):
        return [_kw(x) for x in v]
    if isinstance(v, (int, float, str, bool)) or v is None:
        return v
    return repr(v)[:60]


def start(watch_dirs=(), on_exit=None):
    install()
    _state["log"] = []
    _state["seq"] = 0
    _state["stack"] = []
    _state["run_depth"] = 0
    _state["max_run_depth"] = 0
    _state["watch_dirs"] = tuple(os.path.abspath(d) for d in watch_dirs)
    _state["on_exit"] = on_exit
    if watch_dirs:
        install_audit()
    return _state["log"]


def stop():
    log = _state["log"]
    _state["log"] = None
    _state["on_exit"] = None
    _state["stack"] = []
    return log or []


def max_run_depth():
    return _state["max_run_depth"]


def snapshot_dir(d):
    """{relative path: (size, mtime_ns)} - netCDF4 opens files in C, invisible to audit hooks."""
    out = {}
    for root, dirs, files in os.walk(d):
        for f in files:
            p = os.path.join(root, f)
            try:
                st = os.stat(p)
                out[os.path.relpath(p, d)] = (st.st_size, st.st_mtime_ns)
            except OSError:
                pass
    return out


def diff_snapshots(a, b):
    return sorted(set(k for k in b if a.get(k) != b[k]) | set(k for k in a if k not in b))


def clone_program(program):
    """copy.deepcopy(program) as a user would get it: the recorder's per-instance execute wrappers are taken off for the
    copy and put back afterwards (they are closures over the original commands)."""
    import copy
    wrapped = {}
    for name, cmd in program.commands.items():
        if "execute" in cmd.__dict__:
            wrapped[name] = cmd.__dict__.pop("execute")
            cmd.__dict__.pop("_mpv_wrapped", None)
    try:
        return copy.deepcopy(program)
    finally:
        for name, fn in wrapped.items():
            program.commands[name].__dict__["execute"] = fn
            program.commands[name].__dict__["_mpv_wrapped"] = True
