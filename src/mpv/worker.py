"""One shard of one property's workload, in its own process."""
import importlib
import json
import os
import sys
import traceback

from mpv.core import Ctx, HarnessProblem
from mpv import findings


def _check_tree():
    import mpilot
    repo = os.path.realpath(os.environ.get("MPILOT_REPO", "/repo"))
    got = os.path.realpath(os.path.dirname(os.path.dirname(mpilot.__file__)))
    if got != repo:
        raise HarnessProblem("mpilot imported from %s, expected %s" % (got, repo))


_entered = set()


def _start_anchor_monitor():
    """E4: which repository functions did this workload enter (sys.monitoring PY_START, DISABLE after the first hit)."""
    try:
        mon = sys.monitoring
        tool = mon.PROFILER_ID
        mon.use_tool_id(tool, "mpv-anchors")

        def on_start(code, offset):
            fn = code.co_filename
            i = fn.find("/mpilot/")
            if i >= 0 and "/site-packages/" not in fn:
                _entered.add(fn[i + 1:] + ":" + code.co_qualname)
            return mon.DISABLE

        mon.register_callback(tool, mon.events.PY_START, on_start)
        mon.set_events(tool, mon.events.PY_START)
        return True
    except Exception:
        return False


def _run_one(mod, ctx, case):
    ctx.case = case
    try:
        mod.run_case(ctx, case)
    except HarnessProblem as e:
        ctx.note_inconclusive("harness problem: %s" % e)
    except Exception:
        ctx.note_inconclusive("harness exception in run_case: " + traceback.format_exc()[-1200:])


def replay(path, prop):
    data = json.load(open(path))
    case = data.get("case", data)
    mod = importlib.import_module("mpv.props." + prop.lower())
    ctx = Ctx(prop, "quick", 0, 0, 1)
    try:
        _check_tree()
        if hasattr(mod, "prepare"):
            mod.prepare(ctx)
        _run_one(mod, ctx, case)
    finally:
        ctx.cleanup()
    res = ctx.result()
    for f in res["failures"]:
        print("FAILURE key=%s detail=%s" % (f["key"], json.dumps(f["detail"])[:2000]))
    if res["failures"]:
        print("VIOLATION property=%s replay=%s" % (prop, path))
        return 1
    if res["inconclusive"]:
        print("INCONCLUSIVE property=%s reason=%s" % (prop, res["inconclusive"][0]))
        return 2
    print("replay: no failure reproduced for property=%s" % prop)
    return 0


def main():
    if sys.argv[1] == "--replay":
        sys.exit(replay(sys.argv[2], sys.argv[3]))
    prop, tier, seed, shard, nshards, out = sys.argv[1:7]
    seed, shard, nshards = int(seed), int(shard), int(nshards)
    verif = os.environ["MPV_VERIF"]
    ctx = Ctx(prop, tier, seed, shard, nshards)
    witness_results = []
    anchors_on = _start_anchor_monitor()
    try:
        _check_tree()
        mod = importlib.import_module("mpv.props." + prop.lower())
        if hasattr(mod, "prepare"):
            mod.prepare(ctx)
        if shard == 0:
            for f in findings.for_property(verif, prop):
                wctx = Ctx(prop, tier, seed, 0, 1)
                wctx._scratch_root = None
                _run_one(mod, wctx, f["witness"])
                wctx.cleanup()
                witness_results.append({"key": f["key"], "text": f["text"],
                                        "reproduced": f["key"] in wctx.failures,
                                        "inconclusive": wctx.inconclusive})
                for key, lst in wctx.failures.items():
                    if key != f["key"]:
                        for e in lst:
                            ctx.fail(key, e["detail"], e["case"])
        per_case = getattr(mod, "SCRATCH_PER_CASE", False)
        del ctx._case_dirs[:]
        for case in mod.cases(ctx):
            ctx.evaluations += 1
            _run_one(mod, ctx, case)
            if per_case:
                ctx.end_case()
            else:
                del ctx._case_dirs[:]
        if hasattr(mod, "finish"):
            mod.finish(ctx)
    except HarnessProblem as e:
        ctx.note_inconclusive("harness problem: %s" % e)
    except Exception:
        ctx.note_inconclusive("harness exception: " + traceback.format_exc()[-1500:])
    finally:
        ctx.cleanup()
    res = ctx.result()
    res["witnesses"] = witness_results
    res["entered"] = sorted(_entered) if anchors_on else None
    with open(out + ".tmp", "w") as f:
        json.dump(res, f, default=repr)
    os.replace(out + ".tmp", out)


if __name__ == "__main__":
    main()
