"""Harness command with one parameter of every kind (plain module). Its result is the cleaned keyword arguments with
commands replaced by their results, so two programs that clean to the same values compute the same result."""
from mpilot import params
from mpilot.commands import Command


def _norm(x):
    if isinstance(x, Command):
        return ("result-of", x.result_name, x.result)
    if isinstance(x, (list, tuple)):
        return [_norm(i) for i in x]
    if isinstance(x, dict):
        return {k: _norm(v) for k, v in sorted(x.items())}
    if isinstance(x, type):
        return ("type", x.__name__)
    return x


class Echo(Command):
    inputs = {
        "S": params.StringParameter(required=False),
        "N": params.NumberParameter(required=False),
        "B": params.BooleanParameter(required=False),
        "P": params.PathParameter(must_exist=False, required=False),
        "T": params.DataTypeParameter(required=False),
        "LN": params.ListParameter(params.NumberParameter(), required=False),
        "LS": params.ListParameter(params.StringParameter(), required=False),
        "LB": params.ListParameter(params.BooleanParameter(), required=False),
        "LLN": params.ListParameter(params.ListParameter(params.NumberParameter()), required=False),
        "LLS": params.ListParameter(params.ListParameter(params.StringParameter()), required=False),
        "R": params.ResultParameter(required=False),
        "LR": params.ListParameter(params.ResultParameter(), required=False),
        "LLR": params.ListParameter(params.ListParameter(params.ResultParameter()), required=False),
        "Tup": params.TupleParameter(required=False),
        "LU": params.ListParameter(required=False),        # an untyped list: items are handed over as they are
    }
    output = params.DataParameter()

    def execute(self, **kwargs):
        return ("echo", self.result_name, _norm({k: v for k, v in kwargs.items()}))


class EchoX(Echo):
    """The same command accepting further, undeclared arguments (handed over as they are)."""
    inputs = dict(Echo.inputs)
    output = Echo.output
    allow_extra_inputs = True
