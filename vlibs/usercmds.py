"""A user's own command library (plain module), as the documentation invites users to write: commands whose names
collide - when letter case is ignored - with EEMS 2.0 command names, subclasses of built-in commands that inherit their fuzziness, a command whose actual result does not match its declared output, and commands that fail with ordinary
Python exceptions carrying a `lineno` of their own."""
import json

import numpy

from mpilot import params
from mpilot.commands import Command
from mpilot.libraries.eems.fuzzy import CvtToFuzzy, FuzzyOr


def _val(x):
    if isinstance(x, Command):
        return ("result-of", x.result_name)
    if isinstance(x, (list, tuple)):
        return tuple(_val(i) for i in x)
    return x


class _User(Command):
    inputs = {
        "A": params.ResultParameter(required=False),
        "InFieldName": params.ResultParameter(required=False),
        "InFieldNames": params.ListParameter(params.ResultParameter(), required=False),
        "OutFileName": params.StringParameter(required=False),
        "NewFieldName": params.StringParameter(required=False),
        "V": params.NumberParameter(required=False),
        "Anything": params.ListParameter(required=False),      # items are handed over as they are
    }
    output = params.DataParameter()

    def execute(self, **kwargs):
        return ("user", type(self).__name__, tuple((k, _val(kwargs[k])) for k in sorted(kwargs) if k != "Metadata"))


def _make(name):
    return type(_User)(name, (_User,), {"__module__": __name__, "inputs": dict(_User.inputs), "output": _User.output})


# names that differ from EEMS 2.0 command names only in letter case
USER_NAMES = ["dif", "Dif", "union", "Union", "min", "Sum_", "sum", "not", "Not", "or", "read", "Read", "mean", "Copyfield", "xor"]
for _n in USER_NAMES:
    globals()[_n] = _make(_n)


class MyOr(FuzzyOr):
    """Specialises a built-in fuzzy command the way the built-in library specialises its own: inputs and output are declared
    again, everything else (the fuzziness of the result among it) is inherited."""
    inputs = dict(FuzzyOr.inputs)
    output = FuzzyOr.output

    def execute(self, **kwargs):
        return -super(MyOr, self).execute(**kwargs)


class MyConv(CvtToFuzzy):
    inputs = dict(CvtToFuzzy.inputs)
    output = CvtToFuzzy.output


class ScalarOut(Command):
    """Declares a data (array) output but returns a NumPy scalar (a reduction)."""
    inputs = {"InFieldName": params.ResultParameter(params.DataParameter())}
    output = params.DataParameter()

    def execute(self, **kwargs):
        return numpy.ma.getdata(kwargs["InFieldName"].result).sum()


class Raiser(Command):
    """Fails while executing with an ordinary Python exception that has a `lineno` attribute of its own."""
    inputs = {"Kind": params.StringParameter(), "InFieldName": params.ResultParameter(required=False)}
    output = params.DataParameter()

    def execute(self, **kwargs):
        if kwargs["Kind"] == "syntax":
            compile("x = = 1", "<expression argument>", "exec")
        elif kwargs["Kind"] == "json":
            json.loads('{"a": 1,\n\n\n "b": }')
        elif kwargs["Kind"] == "plain":
            raise ValueError("no line here")
        return numpy.ma.array([1.0])


class Dump(_User):
    """Writes the values it was given to the file named by OutFileName (what a model run through the command-line tool delivered)."""
    inputs = dict(_User.inputs)
    output = _User.output

    def execute(self, **kwargs):
        with open(kwargs["OutFileName"], "w", encoding="utf-8") as f:
            json.dump({k: _val(v) for k, v in kwargs.items() if k not in ("OutFileName", "Metadata")}, f)
        return ("dumped",)
