"""Harness probe library (plain module): results are injective nested tuples, so any mis-feeding, wrong order or
wrong nesting of dependencies changes the value. EXEC_LOG records every execute() from inside the command."""
from mpilot import params
from mpilot.commands import Command

EXEC_LOG = []


def _val(x):
    if isinstance(x, Command):
        r = x.result
        if hasattr(r, "dtype") and r.dtype == bool:
            return ("bools", tuple(bool(v) for v in r))        # a boolean mask, spelled out (results are compared with ==)
        return r
    if isinstance(x, (list, tuple)):
        return tuple(_val(i) for i in x)
    return x


class Src(Command):
    # Q: a number that does not enter the result (a tolerance, a no-data marker, ...)
    inputs = {"V": params.NumberParameter(), "Q": params.NumberParameter(required=False)}
    output = params.DataParameter()

    def execute(self, **kwargs):
        EXEC_LOG.append(self.result_name)
        return ("src", self.result_name, kwargs["V"])


class Op(Command):
    inputs = {
        "A": params.ResultParameter(required=False),
        "B": params.ResultParameter(required=False),
        "L": params.ListParameter(params.ResultParameter(), required=False),
        "LL": params.ListParameter(params.ListParameter(params.ResultParameter()), required=False),
        "N3": params.ListParameter(params.ListParameter(params.ListParameter(params.ResultParameter())), required=False),
        "Tag": params.StringParameter(required=False),
        "Labels": params.ListParameter(params.StringParameter(), required=False),
        "Q": params.NumberParameter(required=False),
        "QL": params.ListParameter(params.NumberParameter(), required=False),
    }
    output = params.DataParameter()

    def execute(self, **kwargs):
        EXEC_LOG.append(self.result_name)
        return ("op", self.result_name, tuple((k, _val(kwargs[k])) for k in sorted(kwargs) if k not in ("Metadata", "Q", "QL")))


class Sink(Command):
    """Side-effect-only command: returns None, like the CSV writer."""
    inputs = {"L": params.ListParameter(params.ResultParameter())}
    output = params.BooleanParameter()

    def execute(self, **kwargs):
        EXEC_LOG.append(self.result_name)
        for c in kwargs["L"]:
            c.result
        return None


class Num(Command):
    """Produces a plain number."""
    inputs = {"V": params.NumberParameter()}
    output = params.NumberParameter()

    def execute(self, **kwargs):
        EXEC_LOG.append(self.result_name)
        return kwargs["V"]


class TypedOp(Command):
    """Consumers whose result parameters declare an output type that *could* convert the value it validates."""
    inputs = {
        "S": params.ResultParameter(params.StringParameter(), required=False),
        "N": params.ResultParameter(params.NumberParameter(), required=False),
        "LS": params.ListParameter(params.ResultParameter(params.StringParameter()), required=False),
        "Any": params.ResultParameter(required=False),
    }
    output = params.DataParameter()

    def execute(self, **kwargs):
        EXEC_LOG.append(self.result_name)
        return ("typed", self.result_name, tuple((k, _val(kwargs[k])) for k in sorted(kwargs) if k != "Metadata"))


class NoOut(Command):
    """A plugin command that declares no output type and takes a typed result."""
    inputs = {"A": params.ResultParameter(params.Parameter(), required=False), "L": params.ListParameter(params.ResultParameter(params.Parameter()), required=False)}

    def execute(self, **kwargs):
        EXEC_LOG.append(self.result_name)
        return ("noout", self.result_name, tuple((k, _val(kwargs[k])) for k in sorted(kwargs) if k != "Metadata"))


FLAKY = {"fail": False}


class Flaky(Command):
    """Fails while FLAKY['fail'] is set (an input that is repaired between two runs)."""
    inputs = {"L": params.ListParameter(params.ResultParameter(), required=False)}
    output = params.DataParameter()

    def execute(self, **kwargs):
        EXEC_LOG.append(self.result_name)
        if FLAKY["fail"]:
            # part-way through its work the command hits a problem (the kind of exception varies)
            raise FLAKY.get("exc", IOError)("input not available yet")
        return ("flaky", self.result_name, tuple((k, _val(kwargs[k])) for k in sorted(kwargs) if k != "Metadata"))


class Big(Command):
    """Produces a raster of Cells float64 cells (1 + the sum of its inputs): results of tens of megabytes."""
    inputs = {"Cells": params.NumberParameter(), "L": params.ListParameter(params.ResultParameter(), required=False)}
    output = params.DataParameter()

    def execute(self, **kwargs):
        import numpy
        EXEC_LOG.append(self.result_name)
        out = numpy.ma.array(numpy.ones(int(kwargs["Cells"]), dtype="float64"))
        for c in kwargs.get("L") or []:
            out = out + c.result
        return out


class IterOp(Op):
    """A command object that can be iterated over (it yields nothing): still one command wherever it is referenced."""
    inputs = dict(Op.inputs)
    output = Op.output

    def __iter__(self):
        return iter(())

    def execute(self, **kwargs):
        EXEC_LOG.append(self.result_name)
        return ("op", self.result_name, tuple((k, _val(kwargs[k])) for k in sorted(kwargs) if k not in ("Metadata", "Q", "QL")))


class BoolSrc(Command):
    """Produces a boolean mask (a data array whose element type is not numeric)."""
    inputs = {"V": params.NumberParameter()}
    output = params.DataParameter()

    def execute(self, **kwargs):
        import numpy
        EXEC_LOG.append(self.result_name)
        return numpy.array([True, False, bool(int(kwargs["V"]) % 2)])


class DataOp(Command):
    """A consumer that declares it needs *data* (an array) from its producers."""
    inputs = {"D": params.ResultParameter(params.DataParameter(), required=False), "LD": params.ListParameter(params.ResultParameter(params.DataParameter()), required=False)}
    output = params.DataParameter()

    def execute(self, **kwargs):
        EXEC_LOG.append(self.result_name)
        return ("dataop", self.result_name, tuple((k, _val(kwargs[k])) for k in sorted(kwargs) if k != "Metadata"))


ODD_PRODUCED = {}
ODD_RECEIVED = {}


def _odd(kind):
    if kind == "generator":
        return (v * 2 for v in (1, 2, 3))
    if kind == "generator-function-call":
        def rows():
            yield 1
            return "done"
        return rows()
    if kind == "iterator":
        return iter([1, 2, 3])
    if kind == "map":
        return map(str, (1, 2))
    if kind == "dict":
        return {"a": 1}
    if kind == "callable":
        return lambda: 7
    if kind == "class":
        return dict
    if kind == "empty-list":
        return []
    if kind == "empty-tuple":
        return ()
    if kind == "zero":
        return 0
    if kind == "empty-string":
        return ""
    if kind == "false":
        return False
    if kind == "command-class":
        return Command
    if kind == "exception-object":
        return ValueError("a value, not a failure")
    if kind == "file-like":
        import io
        return io.StringIO("a,b\n1,2\n")
    return None


class OddSrc(Command):
    """Produces, as its result, an object of the kind named by K: whatever execute() returns is the result."""
    inputs = {"K": params.StringParameter()}

    def execute(self, **kwargs):
        EXEC_LOG.append(self.result_name)
        obj = _odd(kwargs["K"])
        ODD_PRODUCED[self.result_name] = obj
        return obj


class OddOp(Command):
    """Takes the results of its producers as they are and notes which objects it was given."""
    inputs = {"A": params.ResultParameter(required=False), "L": params.ListParameter(params.ResultParameter(), required=False)}

    def execute(self, **kwargs):
        EXEC_LOG.append(self.result_name)
        got = []
        if "A" in kwargs:
            got.append((kwargs["A"].result_name, kwargs["A"].result))
        for c in kwargs.get("L", []):
            got.append((c.result_name, c.result))
        ODD_RECEIVED[self.result_name] = got
        return ("oddop", self.result_name)


class PathChain(Command):
    """Produces a text (a file name, say) and takes texts produced by others where it expects paths."""
    inputs = {"P": params.ResultParameter(params.PathParameter(must_exist=False), required=False),
              "L": params.ListParameter(params.ResultParameter(params.PathParameter(must_exist=False)), required=False)}
    output = params.StringParameter()

    def execute(self, **kwargs):
        EXEC_LOG.append(self.result_name)
        return "made-by-" + self.result_name
