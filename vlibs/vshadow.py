"""A user's instrumented versions of stock commands (same command names, another module), handed to Program.add_command as
classes; the module is never named as a library. EXEC_LOG records every execute() from inside the command."""
import numpy

from mpilot import params
from mpilot.commands import Command
from mpilot.libraries.eems import basic

EXEC_LOG = []


class ShadowField(Command):
    inputs = {"Values": params.ListParameter(params.NumberParameter())}
    output = params.DataParameter()

    def execute(self, **kwargs):
        EXEC_LOG.append(self.result_name)
        return numpy.ma.array(kwargs["Values"], dtype=float)


class Sum(basic.Sum):
    inputs = dict(basic.Sum.inputs)
    output = basic.Sum.output

    def execute(self, **kwargs):
        EXEC_LOG.append(self.result_name)
        return super(Sum, self).execute(**kwargs) + 1000.0      # (visibly the user's version)


class Copy(basic.Copy):
    inputs = dict(basic.Copy.inputs)
    output = basic.Copy.output

    def execute(self, **kwargs):
        EXEC_LOG.append(self.result_name)
        return super(Copy, self).execute(**kwargs)


class EEMSRead(Command):
    """A home-made reader under the stock reader's name."""
    inputs = {"InFieldName": params.StringParameter()}
    output = params.DataParameter()

    def execute(self, **kwargs):
        EXEC_LOG.append(self.result_name)
        return numpy.ma.array([7.0, 8.0, 9.0])
